// C52 compile-time witnesses for src/SquidMath.h (DESIGN.md 4.10).  Compiled with -fsyntax-only against /repo's current header.
// Positive part (default): must compile.  Negative parts (-DNEG=n): must NOT compile.
#include "squid.h"
#include "SquidMath.h"
#include <cstdint>
#include <limits>
#include <optional>

namespace W {
using I128 = __int128;

template <typename T> constexpr T Bounds(int i) {
    using L = std::numeric_limits<T>;
    switch (i) {
    case 0: return L::min();
    case 1: return static_cast<T>(L::min() + 1);
    case 2: return static_cast<T>(std::is_signed<T>::value ? -1 : 0);
    case 3: return 0;
    case 4: return 1;
    case 5: return static_cast<T>(L::max() / 2);
    case 6: return static_cast<T>(L::max() - 1);
    default: return L::max();
    }
}
constexpr int NB = 8;

// Less(a,b) must agree with exact (128-bit) comparison on all boundary pairs of every type pair
template <typename A, typename B> constexpr bool LessAgrees() {
    for (int i = 0; i < NB; ++i)
        for (int j = 0; j < NB; ++j) {
            const A a = Bounds<A>(i);
            const B b = Bounds<B>(j);
            if (Less(a, b) != (static_cast<I128>(a) < static_cast<I128>(b)))
                return false;
        }
    return true;
}

// the signed IncreaseSumInternal<S>(+s, +t) overload is constexpr: compare with the exact reference on boundary pairs
template <typename S, typename T> constexpr bool SumAgrees() {
    for (int i = 0; i < NB; ++i)
        for (int j = 0; j < NB; ++j) {
            const S s = Bounds<S>(i);
            const T t = Bounds<T>(j);
            const auto got = IncreaseSumInternal<S>(+s, +t);
            const I128 exact = static_cast<I128>(s) + static_cast<I128>(t);
            const bool expectValue = s >= 0 && t >= 0 && exact <= static_cast<I128>(std::numeric_limits<S>::max());
            if (got.has_value() != expectValue)
                return false;
            if (expectValue && static_cast<I128>(got.value()) != exact)
                return false;
        }
    return true;
}

#define FOR_SIGNED_FIRST(M, B) M(int8_t, B) M(int16_t, B) M(int32_t, B) M(int64_t, B)
#define FOR_ALL_SECOND(M, A) M(A, int8_t) M(A, int16_t) M(A, int32_t) M(A, int64_t) M(A, uint8_t) M(A, uint16_t) M(A, uint32_t) M(A, uint64_t)
#define FOR_ALL_FIRST(M, B) FOR_SIGNED_FIRST(M, B) M(uint8_t, B) M(uint16_t, B) M(uint32_t, B) M(uint64_t, B)

#define LESS_CASE(A, B) static_assert(LessAgrees<A, B>(), "Less<" #A "," #B "> is exact on boundaries");
#define LESS_ROW(A, unused) FOR_ALL_SECOND(LESS_CASE, A)
FOR_ALL_FIRST(LESS_ROW, _)

// signed-overload cases: S signed with any T, and small unsigned S (promoted to int) with any T
#define SUM_CASE(S, T) static_assert(SumAgrees<S, T>(), "IncreaseSumInternal<" #S ">(" #S "," #T ") is exact on boundaries");
#define SUM_ROW(S, unused) FOR_ALL_SECOND(SUM_CASE, S)
FOR_SIGNED_FIRST(SUM_ROW, _)
SUM_ROW(uint8_t, _)
SUM_ROW(uint16_t, _)
SUM_CASE(uint32_t, int8_t) SUM_CASE(uint32_t, int16_t) SUM_CASE(uint32_t, int32_t) SUM_CASE(uint32_t, int64_t)
SUM_CASE(uint64_t, int8_t) SUM_CASE(uint64_t, int16_t) SUM_CASE(uint64_t, int32_t) SUM_CASE(uint64_t, int64_t)

// instantiate the whole public API for every type pair (the header's own static_asserts must hold for all of them)
template <typename S, typename T> void UseAll() {
    S s = 0; T t = 1;
    (void)IncreaseSum<S>(s, t);
    (void)IncreaseSum<S>(s, t, t, s);
    (void)NaturalSum<S>(t, t, s);
    (void)SetToNaturalSumOrMax(s, t, t);
    (void)NaturalCast<S>(t);
    (void)Less(s, t);
}
#define USE_CASE(S, T) template void UseAll<S, T>();
#define USE_ROW(S, unused) FOR_ALL_SECOND(USE_CASE, S)
FOR_ALL_FIRST(USE_ROW, _)

#if defined(NEG)
enum Color { red, green };
enum class Scoped { a, b };
void Negative() {
#if NEG == 1
    (void)NaturalSum<int>(1, red);          // enum argument
#elif NEG == 2
    (void)NaturalSum<int>(1, 1.5);          // floating point argument
#elif NEG == 3
    (void)NaturalSum<double>(1, 2);         // floating point sum type
#elif NEG == 4
    (void)NaturalSum<Color>(1, 2);          // enum sum type
#elif NEG == 5
    (void)Less(1, 1.5);                     // Less() of a non-integer
#elif NEG == 6
    (void)NaturalSum<int>(1, Scoped::a);    // scoped enum argument
#endif
}
#endif
} // namespace W
