// sqfacts: libTooling fact extractor for the squid static checks (see DESIGN.md section 3.2).
//
// usage: sqfacts <source> --out=<prefix> [--root=/repo] [--hdr=substr,substr] -- <compile flags>
//
// Writes <prefix>.cfg.jsonl (one JSON object per function *defined* in a file under the
// root: CFG blocks, labelled edges, events with expression trees, branch atoms) and
// <prefix>.idx.jsonl (compact whole-program index: calls, writes, function references).
// The first line of the idx file lists every file the front end read (dependency manifest).
//
// Nothing in here knows about any property; rules live in the python engine.

#include "clang/AST/ASTConsumer.h"
#include "clang/AST/ASTContext.h"
#include "clang/AST/RecursiveASTVisitor.h"
#include "clang/AST/ExprCXX.h"
#include "clang/AST/StmtCXX.h"
#include "clang/Analysis/CFG.h"
#include "clang/Frontend/CompilerInstance.h"
#include "clang/Frontend/FrontendAction.h"
#include "clang/Lex/Lexer.h"
#include "clang/Tooling/CompilationDatabase.h"
#include "clang/Tooling/Tooling.h"
#include "llvm/Support/CommandLine.h"
#include "llvm/Support/raw_ostream.h"
#include "llvm/Support/FileSystem.h"
#include "llvm/Support/Path.h"
#include <set>
#include <map>
#include <string>
#include <vector>
#include <sstream>

using namespace clang;

static std::string gOut, gRoot = "/repo";
static std::vector<std::string> gHdr;

static void jstr(llvm::raw_ostream &o, llvm::StringRef s, size_t cap = 400) {
    o << '"';
    size_t n = 0;
    for (unsigned char c : s) {
        if (n++ >= cap) { o << "..."; break; }
        switch (c) {
        case '"': o << "\\\""; break;
        case '\\': o << "\\\\"; break;
        case '\n': o << "\\n"; break;
        case '\r': o << "\\r"; break;
        case '\t': o << "\\t"; break;
        default:
            if (c < 0x20 || c >= 0x7f) { char b[8]; snprintf(b, sizeof b, "\\u%04x", c); o << b; }
            else o << (char)c;
        }
    }
    o << '"';
}

namespace {

class Emitter {
public:
    ASTContext &Ctx;
    SourceManager &SM;
    const LangOptions &LO;
    PrintingPolicy PP;
    int budget = 0; // node budget per tree

    Emitter(ASTContext &C) : Ctx(C), SM(C.getSourceManager()), LO(C.getLangOpts()), PP(C.getLangOpts()) {
        PP.SuppressTagKeyword = true;
        PP.Bool = true;
        PP.SuppressUnwrittenScope = true;
    }

    unsigned line(SourceLocation L) { return SM.getExpansionLineNumber(L); }

    std::string fileOf(SourceLocation L) {
        SourceLocation E = SM.getExpansionLoc(L);
        llvm::StringRef f = SM.getFilename(E);
        if (f.empty()) return "";
        llvm::SmallString<256> p(f);
        llvm::sys::fs::make_absolute(p);
        llvm::sys::path::remove_dots(p, true);
        return std::string(p.str());
    }

    // outermost-first list of macro names the location is expanded from
    std::string macroOf(SourceLocation L) {
        std::string last;
        int guard = 0;
        while (L.isMacroID() && guard++ < 32) {
            llvm::StringRef n = Lexer::getImmediateMacroName(L, SM, LO);
            if (!n.empty()) last = n.str();
            L = SM.getImmediateMacroCallerLoc(L);
        }
        return last;
    }
    bool inMacro(SourceLocation L, llvm::StringRef name) {
        int guard = 0;
        while (L.isMacroID() && guard++ < 32) {
            if (Lexer::getImmediateMacroName(L, SM, LO) == name) return true;
            L = SM.getImmediateMacroCallerLoc(L);
        }
        return false;
    }

    std::string typeStr(QualType T) {
        if (T.isNull()) return "?";
        std::string s = T.getAsString(PP);
        if (s.size() > 120) s = s.substr(0, 117) + "...";
        return s;
    }

    void intWidth(llvm::raw_ostream &o, QualType T) {
        if (T.isNull() || T->isDependentType()) return;
        if (T->isIntegralOrEnumerationType() && !T->isBooleanType()) {
            if (const auto *ET = T->getAs<EnumType>()) {
                if (!ET->getDecl()->isComplete()) return;
            }
            int w = (int)Ctx.getIntWidth(T);
            bool sgn = T->isSignedIntegerOrEnumerationType();
            o << ",\"iw\":" << (sgn ? -w : w);
        } else if (T->isBooleanType()) {
            o << ",\"iw\":1";
        }
    }

    std::string qname(const NamedDecl *D) {
        if (!D) return "?";
        std::string s;
        llvm::raw_string_ostream os(s);
        D->printQualifiedName(os, PP);
        os.flush();
        return s;
    }

    // qualified name without template arguments
    static std::string stripTmpl(const std::string &s) {
        std::string r;
        int depth = 0;
        for (size_t i = 0; i < s.size(); ++i) {
            char c = s[i];
            if (c == '<') {
                // keep operator<, operator<<, operator<=
                if (depth == 0 && r.size() >= 8 && (r.compare(r.size() - 8, 8, "operator") == 0 ||
                        (r.size() >= 9 && r.compare(r.size() - 9, 9, "operator<") == 0))) { r += c; continue; }
                ++depth; continue;
            }
            if (c == '>') {
                if (depth == 0) { r += c; continue; }
                --depth; continue;
            }
            if (depth == 0) r += c;
        }
        return r;
    }

    std::string fname(const FunctionDecl *FD) {
        return stripTmpl(qname(FD));
    }

    bool tryConst(const Expr *E, llvm::raw_ostream &o) {
        if (!E || E->isValueDependent() || E->isTypeDependent()) return false;
        QualType T = E->getType();
        if (T.isNull() || !(T->isIntegralOrEnumerationType())) return false;
        if (const auto *ET = T->getAs<EnumType>()) if (!ET->getDecl()->isComplete()) return false;
        Expr::EvalResult R;
        if (!E->EvaluateAsInt(R, Ctx, Expr::SE_NoSideEffects)) return false;
        if (!R.Val.isInt()) return false;
        llvm::SmallString<32> s;
        R.Val.getInt().toString(s, 10);
        o << ",\"v\":" << s;
        return true;
    }

    void expr(const Expr *E, llvm::raw_ostream &o, int depth = 0) {
        if (!E) { o << "null"; return; }
        if (depth > 40 || --budget < 0) { o << "{\"k\":\"cut\"}"; return; }
        // strip wrappers
        for (;;) {
            const Expr *P = E;
            E = E->IgnoreParens();
            if (auto *X = dyn_cast<ExprWithCleanups>(E)) E = X->getSubExpr();
            else if (auto *X = dyn_cast<MaterializeTemporaryExpr>(E)) E = X->getSubExpr();
            else if (auto *X = dyn_cast<CXXBindTemporaryExpr>(E)) E = X->getSubExpr();
            else if (auto *X = dyn_cast<ConstantExpr>(E)) E = X->getSubExpr();
            else if (auto *X = dyn_cast<CXXDefaultArgExpr>(E)) E = X->getExpr();
            else if (auto *X = dyn_cast<CXXDefaultInitExpr>(E)) E = X->getExpr();
            else if (auto *X = dyn_cast<SubstNonTypeTemplateParmExpr>(E)) E = X->getReplacement();
            else if (auto *X = dyn_cast<ImplicitCastExpr>(E)) {
                if (X->getCastKind() == CK_IntegralCast && !X->getType()->isDependentType() &&
                        !X->getSubExpr()->getType()->isDependentType() &&
                        X->getType()->isIntegralOrEnumerationType() && X->getSubExpr()->getType()->isIntegralOrEnumerationType() &&
                        (Ctx.getIntWidth(X->getType()) != Ctx.getIntWidth(X->getSubExpr()->getType()) ||
                         X->getType()->isSignedIntegerOrEnumerationType() != X->getSubExpr()->getType()->isSignedIntegerOrEnumerationType()))
                    break; // keep: emitted below as icast
                E = X->getSubExpr();
            }
            if (E == P) break;
            if (!E) { o << "null"; return; }
        }

        if (auto *X = dyn_cast<ImplicitCastExpr>(E)) {
            o << "{\"k\":\"icast\"";
            intWidth(o, X->getType());
            tryConst(E, o);
            o << ",\"e\":"; expr(X->getSubExpr(), o, depth + 1); o << "}";
            return;
        }
        if (auto *X = dyn_cast<IntegerLiteral>(E)) {
            llvm::SmallString<32> s; X->getValue().toString(s, 10, X->getType()->isSignedIntegerType());
            o << "{\"k\":\"lit\",\"v\":" << s << "}"; return;
        }
        if (auto *X = dyn_cast<CharacterLiteral>(E)) { o << "{\"k\":\"lit\",\"ch\":1,\"v\":" << X->getValue() << "}"; return; }
        if (auto *X = dyn_cast<CXXBoolLiteralExpr>(E)) { o << "{\"k\":\"lit\",\"b\":1,\"v\":" << (X->getValue() ? 1 : 0) << "}"; return; }
        if (isa<CXXNullPtrLiteralExpr>(E) || isa<GNUNullExpr>(E)) { o << "{\"k\":\"null\"}"; return; }
        if (auto *X = dyn_cast<StringLiteral>(E)) {
            o << "{\"k\":\"str\",\"v\":";
            if (X->getCharByteWidth() == 1) jstr(o, X->getString(), 4000); else o << "\"<wide>\"";
            o << "}"; return;
        }
        if (auto *X = dyn_cast<FloatingLiteral>(E)) {
            llvm::SmallString<32> s; X->getValue().toString(s);
            o << "{\"k\":\"flit\",\"v\":\"" << s << "\"}"; return;
        }
        if (isa<CXXThisExpr>(E)) { o << "{\"k\":\"this\"}"; return; }
        if (auto *X = dyn_cast<DeclRefExpr>(E)) {
            const ValueDecl *D = X->getDecl();
            const char *dk = "other";
            if (isa<ParmVarDecl>(D)) dk = "param";
            else if (auto *V = dyn_cast<VarDecl>(D)) dk = V->isLocalVarDecl() ? (V->isStaticLocal() ? "static" : "local") : "global";
            else if (isa<EnumConstantDecl>(D)) dk = "enum";
            else if (isa<FunctionDecl>(D)) dk = "func";
            else if (isa<FieldDecl>(D)) dk = "field";
            else if (isa<NonTypeTemplateParmDecl>(D)) dk = "tparam";
            else if (isa<BindingDecl>(D)) dk = "local";
            o << "{\"k\":\"ref\",\"d\":"; jstr(o, stripTmpl(qname(D)));
            o << ",\"dk\":\"" << dk << "\"";
            if (!isa<FunctionDecl>(D)) { o << ",\"t\":"; jstr(o, typeStr(X->getType())); intWidth(o, X->getType()); }
            if (isa<EnumConstantDecl>(D)) tryConst(E, o);
            else if (auto *V = dyn_cast<VarDecl>(D)) { if (V->getType().isConstQualified() || V->isConstexpr()) tryConst(E, o); }
            o << "}"; return;
        }
        if (auto *X = dyn_cast<MemberExpr>(E)) {
            o << "{\"k\":\"mem\",\"m\":"; jstr(o, stripTmpl(qname(X->getMemberDecl())));
            o << ",\"t\":"; jstr(o, typeStr(X->getType())); intWidth(o, X->getType());
            if (X->isArrow()) o << ",\"arrow\":1";
            o << ",\"b\":"; expr(X->getBase(), o, depth + 1); o << "}"; return;
        }
        if (auto *X = dyn_cast<CXXDependentScopeMemberExpr>(E)) {
            o << "{\"k\":\"mem\",\"dep\":1,\"m\":"; jstr(o, X->getMember().getAsString());
            o << ",\"b\":"; if (X->isImplicitAccess()) o << "{\"k\":\"this\"}"; else expr(X->getBase(), o, depth + 1);
            o << "}"; return;
        }
        if (auto *X = dyn_cast<UnresolvedMemberExpr>(E)) {
            o << "{\"k\":\"mem\",\"dep\":1,\"m\":"; jstr(o, X->getMemberName().getAsString());
            o << ",\"b\":"; if (X->isImplicitAccess()) o << "{\"k\":\"this\"}"; else expr(X->getBase(), o, depth + 1);
            o << "}"; return;
        }
        if (auto *X = dyn_cast<UnresolvedLookupExpr>(E)) { o << "{\"k\":\"uref\",\"d\":"; jstr(o, X->getName().getAsString()); o << "}"; return; }
        if (auto *X = dyn_cast<DependentScopeDeclRefExpr>(E)) { o << "{\"k\":\"uref\",\"d\":"; jstr(o, X->getDeclName().getAsString()); o << "}"; return; }
        if (auto *X = dyn_cast<CXXConstructExpr>(E)) {
            const CXXConstructorDecl *CD = X->getConstructor();
            if (CD && CD->isCopyOrMoveConstructor() && X->getNumArgs() == 1) { ++budget; expr(X->getArg(0), o, depth); return; }
            o << "{\"k\":\"ctor\",\"f\":"; jstr(o, fname(CD)); o << ",\"t\":"; jstr(o, typeStr(X->getType()));
            o << ",\"a\":[";
            for (unsigned i = 0; i < X->getNumArgs(); ++i) { if (i) o << ","; expr(X->getArg(i), o, depth + 1); }
            o << "]}"; return;
        }
        if (auto *X = dyn_cast<CXXUnresolvedConstructExpr>(E)) {
            o << "{\"k\":\"ctor\",\"dep\":1,\"f\":"; jstr(o, typeStr(X->getTypeAsWritten())); o << ",\"a\":[";
            for (unsigned i = 0; i < X->getNumArgs(); ++i) { if (i) o << ","; expr(X->getArg(i), o, depth + 1); }
            o << "]}"; return;
        }
        if (auto *X = dyn_cast<CallExpr>(E)) {
            const FunctionDecl *FD = X->getDirectCallee();
            o << "{\"k\":\"call\"";
            unsigned first = 0;
            const Expr *obj = nullptr;
            if (auto *M = dyn_cast<CXXMemberCallExpr>(X)) {
                obj = M->getImplicitObjectArgument();
            } else if (auto *O = dyn_cast<CXXOperatorCallExpr>(X)) {
                if (FD && isa<CXXMethodDecl>(FD) && O->getNumArgs() > 0) { obj = O->getArg(0); first = 1; }
            }
            if (FD) {
                o << ",\"f\":"; jstr(o, fname(FD));
                if (auto *MD = dyn_cast<CXXMethodDecl>(FD)) if (MD->isVirtual()) o << ",\"virt\":1";
                if (FD->isNoReturn()) o << ",\"noret\":1";
            } else {
                const Expr *C = X->getCallee()->IgnoreParenImpCasts();
                if (auto *U = dyn_cast<UnresolvedLookupExpr>(C)) { o << ",\"dep\":1,\"f\":"; jstr(o, U->getName().getAsString()); }
                else if (auto *U = dyn_cast<UnresolvedMemberExpr>(C)) {
                    o << ",\"dep\":1,\"f\":"; jstr(o, U->getMemberName().getAsString());
                    if (!U->isImplicitAccess()) obj = U->getBase();
                }
                else if (auto *U = dyn_cast<CXXDependentScopeMemberExpr>(C)) {
                    o << ",\"dep\":1,\"f\":"; jstr(o, U->getMember().getAsString());
                    if (!U->isImplicitAccess()) obj = U->getBase();
                }
                else if (auto *U = dyn_cast<DependentScopeDeclRefExpr>(C)) { o << ",\"dep\":1,\"f\":"; jstr(o, U->getDeclName().getAsString()); }
                else if (auto *U = dyn_cast<MemberExpr>(C)) { // call through member function pointer field etc.
                    o << ",\"ind\":1,\"f\":"; jstr(o, stripTmpl(qname(U->getMemberDecl()))); obj = U->getBase();
                }
                else if (auto *U = dyn_cast<DeclRefExpr>(C)) { o << ",\"ind\":1,\"f\":"; jstr(o, stripTmpl(qname(U->getDecl()))); }
                else { o << ",\"ind\":1,\"f\":\"*\",\"fe\":"; expr(C, o, depth + 1); }
            }
            if (!X->getType().isNull() && !X->getType()->isVoidType()) { o << ",\"t\":"; jstr(o, typeStr(X->getType())); intWidth(o, X->getType()); }
            if (FD && FD->isConstexpr()) tryConst(E, o);
            if (FD) {
                if (auto *MD = dyn_cast<CXXMethodDecl>(FD)) if (MD->isConst() || MD->isStatic()) o << ",\"cm\":1";
                std::string br;
                for (unsigned i = first; i < X->getNumArgs(); ++i) {
                    unsigned pi = i - first;
                    if (pi >= FD->getNumParams()) break;
                    QualType PT = FD->getParamDecl(pi)->getType();
                    if (PT->isLValueReferenceType() && !PT->getPointeeType().isConstQualified()) { if (!br.empty()) br += ","; br += std::to_string(pi); }
                }
                if (!br.empty()) o << ",\"byref\":[" << br << "]";
            }
            if (obj) { o << ",\"o\":"; expr(obj, o, depth + 1); }
            o << ",\"a\":[";
            bool c = false;
            for (unsigned i = first; i < X->getNumArgs(); ++i) { if (c) o << ","; c = true; expr(X->getArg(i), o, depth + 1); }
            o << "]}"; return;
        }
        if (auto *X = dyn_cast<CXXNewExpr>(E)) {
            o << "{\"k\":\"new\",\"t\":"; jstr(o, typeStr(X->getAllocatedType()));
            if (X->isArray() && X->getArraySize() && *X->getArraySize()) { o << ",\"n\":"; expr(*X->getArraySize(), o, depth + 1); }
            if (auto *CE = X->getConstructExpr()) {
                o << ",\"a\":[";
                for (unsigned i = 0; i < CE->getNumArgs(); ++i) { if (i) o << ","; expr(CE->getArg(i), o, depth + 1); }
                o << "]";
            }
            o << "}"; return;
        }
        if (auto *X = dyn_cast<CXXDeleteExpr>(E)) { o << "{\"k\":\"delete\",\"e\":"; expr(X->getArgument(), o, depth + 1); o << "}"; return; }
        if (auto *X = dyn_cast<BinaryOperator>(E)) {
            o << "{\"k\":\"bin\",\"op\":\"" << X->getOpcodeStr() << "\"";
            intWidth(o, X->getType());
            if (!X->isAssignmentOp()) tryConst(E, o);
            o << ",\"l\":"; expr(X->getLHS(), o, depth + 1);
            o << ",\"r\":"; expr(X->getRHS(), o, depth + 1); o << "}"; return;
        }
        if (auto *X = dyn_cast<CXXRewrittenBinaryOperator>(E)) { ++budget; expr(X->getSemanticForm(), o, depth); return; }
        if (auto *X = dyn_cast<UnaryOperator>(E)) {
            const char *op = "?";
            switch (X->getOpcode()) {
            case UO_PostInc: op = "p++"; break; case UO_PostDec: op = "p--"; break;
            case UO_PreInc: op = "++"; break; case UO_PreDec: op = "--"; break;
            case UO_AddrOf: op = "&"; break; case UO_Deref: op = "*"; break;
            case UO_Plus: op = "+"; break; case UO_Minus: op = "-"; break;
            case UO_Not: op = "~"; break; case UO_LNot: op = "!"; break;
            default: break;
            }
            o << "{\"k\":\"un\",\"op\":\"" << op << "\"";
            intWidth(o, X->getType());
            if (!X->isIncrementDecrementOp()) tryConst(E, o);
            o << ",\"e\":"; expr(X->getSubExpr(), o, depth + 1); o << "}"; return;
        }
        if (auto *X = dyn_cast<AbstractConditionalOperator>(E)) {
            o << "{\"k\":\"cond\"";
            tryConst(E, o);
            o << ",\"c\":"; expr(X->getCond(), o, depth + 1);
            o << ",\"t\":"; expr(X->getTrueExpr(), o, depth + 1);
            o << ",\"f\":"; expr(X->getFalseExpr(), o, depth + 1); o << "}"; return;
        }
        if (auto *X = dyn_cast<ArraySubscriptExpr>(E)) {
            o << "{\"k\":\"idx\",\"t\":"; jstr(o, typeStr(X->getType())); intWidth(o, X->getType());
            o << ",\"b\":"; expr(X->getBase(), o, depth + 1);
            o << ",\"i\":"; expr(X->getIdx(), o, depth + 1); o << "}"; return;
        }
        if (auto *X = dyn_cast<UnaryExprOrTypeTraitExpr>(E)) {
            o << "{\"k\":\"sizeof\"";
            tryConst(E, o);
            if (X->getKind() == UETT_SizeOf) {
                o << ",\"of\":";
                if (X->isArgumentType()) jstr(o, typeStr(X->getArgumentType()));
                else expr(X->getArgumentExpr(), o, depth + 1);
            }
            o << "}"; return;
        }
        if (auto *X = dyn_cast<ExplicitCastExpr>(E)) {
            o << "{\"k\":\"cast\",\"to\":"; jstr(o, typeStr(X->getTypeAsWritten())); intWidth(o, X->getType());
            tryConst(E, o);
            o << ",\"e\":"; expr(X->getSubExpr(), o, depth + 1); o << "}"; return;
        }
        if (auto *X = dyn_cast<LambdaExpr>(E)) { o << "{\"k\":\"lambda\",\"l\":" << line(X->getBeginLoc()) << "}"; return; }
        if (auto *X = dyn_cast<InitListExpr>(E)) {
            o << "{\"k\":\"init\",\"a\":[";
            for (unsigned i = 0; i < X->getNumInits(); ++i) { if (i) o << ","; expr(X->getInit(i), o, depth + 1); }
            o << "]}"; return;
        }
        if (auto *X = dyn_cast<CXXThrowExpr>(E)) { o << "{\"k\":\"throw\",\"e\":"; expr(X->getSubExpr(), o, depth + 1); o << "}"; return; }
        if (auto *X = dyn_cast<CXXStdInitializerListExpr>(E)) { ++budget; expr(X->getSubExpr(), o, depth); return; }
        if (auto *X = dyn_cast<OpaqueValueExpr>(E)) { if (X->getSourceExpr()) { ++budget; expr(X->getSourceExpr(), o, depth); return; } }
        if (auto *X = dyn_cast<ParenListExpr>(E)) {
            o << "{\"k\":\"init\",\"a\":[";
            for (unsigned i = 0; i < X->getNumExprs(); ++i) { if (i) o << ","; expr(X->getExpr(i), o, depth + 1); }
            o << "]}"; return;
        }
        if (isa<CXXScalarValueInitExpr>(E) || isa<ImplicitValueInitExpr>(E)) { o << "{\"k\":\"lit\",\"v\":0,\"zi\":1}"; return; }
        // generic
        o << "{\"k\":\"x\",\"c\":\"" << E->getStmtClassName() << "\"";
        tryConst(E, o);
        o << ",\"ch\":[";
        bool c = false;
        for (const Stmt *S : E->children()) {
            if (auto *CE = dyn_cast_or_null<Expr>(S)) { if (c) o << ","; c = true; expr(CE, o, depth + 1); }
        }
        o << "]}";
    }

    void tree(const Expr *E, llvm::raw_ostream &o) { budget = 600; expr(E, o, 0); }
};

struct IdxFn {
    std::set<std::pair<std::string, unsigned>> calls;
    std::set<std::string> writes; // pre-rendered JSON rows
    std::set<std::pair<std::string, unsigned>> refs;
};

class Visitor : public RecursiveASTVisitor<Visitor> {
public:
    ASTContext &Ctx;
    Emitter Em;
    llvm::raw_ostream &cfgOut, &idxOut;
    std::set<std::string> seen;
    unsigned nfn = 0, ncfg = 0;

    Visitor(ASTContext &C, llvm::raw_ostream &c, llvm::raw_ostream &i) : Ctx(C), Em(C), cfgOut(c), idxOut(i) {}

    bool shouldVisitTemplateInstantiations() const { return true; }
    bool shouldVisitImplicitCode() const { return false; }

    bool underRoot(const std::string &f) { return f.compare(0, gRoot.size(), gRoot) == 0 && f.size() > gRoot.size() && f[gRoot.size()] == '/'; }
    bool wantHdrCfg(const std::string &f) {
        for (auto &h : gHdr) if (f.find(h) != std::string::npos) return true;
        return false;
    }

    bool VisitFunctionDecl(FunctionDecl *FD) {
        if (!FD->doesThisDeclarationHaveABody()) return true;
        if (FD->isDefaulted() || FD->isDeleted()) return true;
        handle(FD, "");
        return true;
    }
    std::set<std::string> seenEnums;
    bool VisitEnumDecl(EnumDecl *ED) {
        if (!ED->isCompleteDefinition()) return true;
        std::string file = Em.fileOf(ED->getLocation());
        if (file.empty() || !underRoot(file)) return true;
        std::string n = Emitter::stripTmpl(Em.qname(ED));
        std::string key = file + ":" + std::to_string(Em.line(ED->getLocation()));
        if (!seenEnums.insert(key).second) return true;
        idxOut << "{\"enum\":"; jstr(idxOut, n); idxOut << ",\"f\":"; jstr(idxOut, file); idxOut << ",\"l\":" << Em.line(ED->getLocation()) << ",\"vals\":[";
        bool c = false;
        for (const EnumConstantDecl *EC : ED->enumerators()) {
            if (c) idxOut << ",";
            c = true;
            llvm::SmallString<32> v; EC->getInitVal().toString(v, 10);
            idxOut << "["; jstr(idxOut, EC->getNameAsString()); idxOut << "," << v << "]";
        }
        idxOut << "]}\n";
        return true;
    }
    std::set<std::string> seenVars;
    bool VisitVarDecl(VarDecl *VD) {
        if (!VD->hasGlobalStorage() || VD->isStaticLocal() || !VD->hasInit() || isa<ParmVarDecl>(VD)) return true;
        if (VD->getDeclContext()->isDependentContext()) return true;
        std::string file = Em.fileOf(VD->getLocation());
        if (file.empty() || !underRoot(file)) return true;
        bool inMain = Ctx.getSourceManager().isInMainFile(Ctx.getSourceManager().getExpansionLoc(VD->getLocation()));
        if (!inMain && !wantHdrCfg(file)) return true;
        const Expr *I = VD->getInit();
        if (!I || I->isValueDependent() || I->isTypeDependent()) return true;
        std::string key = file + ":" + std::to_string(Em.line(VD->getLocation())) + ":" + Em.qname(VD);
        if (!seenVars.insert(key).second) return true;
        cfgOut << "{\"var\":"; jstr(cfgOut, Emitter::stripTmpl(Em.qname(VD))); cfgOut << ",\"f\":"; jstr(cfgOut, file);
        cfgOut << ",\"l\":" << Em.line(VD->getLocation()) << ",\"t\":"; jstr(cfgOut, Em.typeStr(VD->getType()));
        if (const auto *AT = Ctx.getAsConstantArrayType(VD->getType())) cfgOut << ",\"arr\":" << AT->getSize().getZExtValue();
        cfgOut << ",\"init\":"; Em.budget = 40000; Em.expr(I, cfgOut, 0); cfgOut << "}\n";
        return true;
    }
    bool VisitLambdaExpr(LambdaExpr *LE) {
        if (CXXMethodDecl *M = LE->getCallOperator())
            if (M->doesThisDeclarationHaveABody()) handle(M, "lambda");
        return true;
    }

    // root member/global written by an lvalue expression
    const Expr *strip(const Expr *E) {
        for (;;) {
            const Expr *P = E;
            E = E->IgnoreParenImpCasts();
            if (auto *X = dyn_cast<ExprWithCleanups>(E)) E = X->getSubExpr();
            else if (auto *X = dyn_cast<MaterializeTemporaryExpr>(E)) E = X->getSubExpr();
            else if (auto *X = dyn_cast<CXXBindTemporaryExpr>(E)) E = X->getSubExpr();
            if (E == P) return E;
        }
    }
    std::string lvalName(const Expr *E, std::string &kind) {
        E = strip(E);
        if (auto *M = dyn_cast<MemberExpr>(E)) { kind = "field"; return Emitter::stripTmpl(Em.qname(M->getMemberDecl())); }
        if (auto *M = dyn_cast<CXXDependentScopeMemberExpr>(E)) { kind = "field"; return "?::" + M->getMember().getAsString(); }
        if (auto *D = dyn_cast<DeclRefExpr>(E)) {
            if (auto *V = dyn_cast<VarDecl>(D->getDecl())) {
                if (V->isLocalVarDecl() && !V->isStaticLocal()) { kind = "local"; return V->getNameAsString(); }
                if (isa<ParmVarDecl>(V)) { kind = "param"; return V->getNameAsString(); }
                kind = "global"; return Emitter::stripTmpl(Em.qname(V));
            }
            if (isa<FieldDecl>(D->getDecl())) { kind = "field"; return Emitter::stripTmpl(Em.qname(D->getDecl())); }
        }
        if (auto *A = dyn_cast<ArraySubscriptExpr>(E)) return lvalName(A->getBase(), kind);
        if (auto *U = dyn_cast<UnaryOperator>(E)) if (U->getOpcode() == UO_Deref) { std::string k2; std::string n = lvalName(U->getSubExpr(), k2); kind = "deref-" + k2; return n; }
        if (auto *C = dyn_cast<CXXOperatorCallExpr>(E)) {
            if ((C->getOperator() == OO_Arrow || C->getOperator() == OO_Star || C->getOperator() == OO_Subscript) && C->getNumArgs() > 0) return lvalName(C->getArg(0), kind);
        }
        kind = "other"; return "";
    }

    void idxWrite(IdxFn &ix, const Expr *lhs, llvm::StringRef op, const Expr *rhs, SourceLocation L) {
        std::string kind;
        std::string n = lvalName(lhs, kind);
        if (n.empty() || kind == "local" || kind == "param") return;
        std::string row;
        llvm::raw_string_ostream o(row);
        o << "["; jstr(o, n); o << ",\"" << kind << "\",\"" << op << "\",";
        std::string cv;
        { llvm::raw_string_ostream c(cv); if (rhs && Em.tryConst(rhs, c)) { c.flush(); o << cv.substr(5); } else o << "null"; }
        o << "," << Em.line(L) << "]";
        o.flush();
        ix.writes.insert(row);
    }

    void scanIdx(const Stmt *S, IdxFn &ix, const Expr *directCallee) {
        if (!S) return;
        if (isa<LambdaExpr>(S)) return; // handled as own function
        const Expr *calleeOfThis = nullptr;
        if (auto *CE = dyn_cast<CallExpr>(S)) {
            if (const FunctionDecl *FD = CE->getDirectCallee()) {
                ix.calls.insert({Em.fname(FD), Em.line(CE->getBeginLoc())});
                if (auto *O = dyn_cast<CXXOperatorCallExpr>(CE)) {
                    if (O->isAssignmentOp() && O->getNumArgs() == 2) idxWrite(ix, O->getArg(0), getOperatorSpelling(O->getOperator()), O->getArg(1), O->getBeginLoc());
                    else if ((O->getOperator() == OO_PlusPlus || O->getOperator() == OO_MinusMinus) && O->getNumArgs() >= 1)
                        idxWrite(ix, O->getArg(0), getOperatorSpelling(O->getOperator()), nullptr, O->getBeginLoc());
                }
            } else {
                const Expr *C = CE->getCallee()->IgnoreParenImpCasts();
                std::string n;
                if (auto *U = dyn_cast<UnresolvedLookupExpr>(C)) n = U->getName().getAsString();
                else if (auto *U = dyn_cast<UnresolvedMemberExpr>(C)) n = U->getMemberName().getAsString();
                else if (auto *U = dyn_cast<CXXDependentScopeMemberExpr>(C)) n = U->getMember().getAsString();
                if (!n.empty()) ix.calls.insert({"?::" + n, Em.line(CE->getBeginLoc())});
            }
            calleeOfThis = CE->getCallee()->IgnoreParenImpCasts();
        } else if (auto *CE = dyn_cast<CXXConstructExpr>(S)) {
            if (CE->getConstructor()) ix.calls.insert({Em.fname(CE->getConstructor()), Em.line(CE->getBeginLoc())});
        } else if (auto *B = dyn_cast<BinaryOperator>(S)) {
            if (B->isAssignmentOp()) idxWrite(ix, B->getLHS(), B->getOpcodeStr(), B->getRHS(), B->getOperatorLoc());
        } else if (auto *U = dyn_cast<UnaryOperator>(S)) {
            if (U->isIncrementDecrementOp()) idxWrite(ix, U->getSubExpr(), U->isIncrementOp() ? "++" : "--", nullptr, U->getOperatorLoc());
        } else if (auto *D = dyn_cast<DeclRefExpr>(S)) {
            if (isa<FunctionDecl>(D->getDecl()) && S != directCallee && !(directCallee && directCallee->IgnoreParenImpCasts() == S))
                ix.refs.insert({Em.fname(cast<FunctionDecl>(D->getDecl())), Em.line(D->getBeginLoc())});
        } else if (auto *M = dyn_cast<MemberExpr>(S)) {
            if (isa<CXXMethodDecl>(M->getMemberDecl()) && S != directCallee)
                ix.refs.insert({Em.fname(cast<FunctionDecl>(M->getMemberDecl())), Em.line(M->getBeginLoc())});
        }
        if (!calleeOfThis && (isa<ImplicitCastExpr>(S) || isa<ParenExpr>(S))) calleeOfThis = directCallee;
        for (const Stmt *C : S->children()) scanIdx(C, ix, calleeOfThis);
    }

    void event(const Stmt *S, llvm::raw_ostream &o, bool &first) {
        SourceLocation L = S->getBeginLoc();
        if (Em.inMacro(L, "debugs")) return;
        std::string body;
        llvm::raw_string_ostream b(body);
        if (auto *E = dyn_cast<Expr>(S)) {
            const Expr *X = E;
            if (isa<CallExpr>(X) || isa<CXXConstructExpr>(X) || isa<CXXNewExpr>(X) || isa<CXXDeleteExpr>(X) || isa<CXXUnresolvedConstructExpr>(X)) {
                if (auto *CE = dyn_cast<CXXConstructExpr>(X)) {
                    const CXXConstructorDecl *CD = CE->getConstructor();
                    if (CD && CD->isCopyOrMoveConstructor()) return;
                }
                b << "{\"e\":\"call\",\"l\":" << Em.line(L) << ",\"x\":"; Em.tree(X, b); b << "}";
            } else if (auto *B = dyn_cast<BinaryOperator>(X)) {
                if (!B->isAssignmentOp()) return;
                b << "{\"e\":\"asg\",\"l\":" << Em.line(L) << ",\"op\":\"" << B->getOpcodeStr() << "\",\"lhs\":"; Em.tree(B->getLHS(), b);
                b << ",\"rhs\":"; Em.tree(B->getRHS(), b); b << "}";
            } else if (auto *U = dyn_cast<UnaryOperator>(X)) {
                if (!U->isIncrementDecrementOp()) return;
                b << "{\"e\":\"asg\",\"l\":" << Em.line(L) << ",\"op\":\"" << (U->isIncrementOp() ? "++" : "--") << "\",\"lhs\":"; Em.tree(U->getSubExpr(), b);
                b << ",\"rhs\":null}";
            } else if (auto *T = dyn_cast<CXXThrowExpr>(X)) {
                b << "{\"e\":\"throw\",\"l\":" << Em.line(L) << ",\"x\":"; Em.tree(T->getSubExpr(), b); b << "}";
            } else return;
        } else if (auto *R = dyn_cast<ReturnStmt>(S)) {
            b << "{\"e\":\"ret\",\"l\":" << Em.line(L) << ",\"x\":"; Em.tree(R->getRetValue(), b); b << "}";
        } else if (auto *D = dyn_cast<DeclStmt>(S)) {
            bool any = false;
            for (const Decl *d : D->decls()) {
                if (auto *V = dyn_cast<VarDecl>(d)) {
                    if (any) b << ",";
                    any = true;
                    b << "{\"e\":\"decl\",\"l\":" << Em.line(V->getLocation()) << ",\"d\":"; jstr(b, V->getNameAsString());
                    b << ",\"t\":"; jstr(b, Em.typeStr(V->getType()));
                    Em.intWidth(b, V->getType());
                    if (const auto *AT = Ctx.getAsConstantArrayType(V->getType())) b << ",\"arr\":" << AT->getSize().getZExtValue();
                    b << ",\"init\":"; Em.tree(V->getInit(), b); b << "}";
                }
            }
            if (!any) return;
        } else return;
        b.flush();
        if (!first) o << ",";
        first = false;
        o << body;
    }

    void handle(FunctionDecl *FD, const char *kind) {
        SourceLocation L = FD->getLocation();
        std::string file = Em.fileOf(L);
        if (file.empty() || !underRoot(file)) return;
        bool inMain = Ctx.getSourceManager().isInMainFile(Ctx.getSourceManager().getExpansionLoc(L));
        std::string name = Em.fname(FD);
        std::string full = Em.qname(FD);
        if (*kind) { name += "::(lambda)"; }
        unsigned ln = Em.line(L);
        int tmpl = 0;
        if (FD->isDependentContext()) tmpl = 1;
        else if (FD->isTemplateInstantiation()) tmpl = 2;
        else if (auto *MD = dyn_cast<CXXMethodDecl>(FD)) {
            if (auto *RD = dyn_cast<ClassTemplateSpecializationDecl>(MD->getParent())) { (void)RD; tmpl = 2; }
        }
        std::string key = file + ":" + std::to_string(ln) + ":" + full;
        if (!seen.insert(key).second) return;
        ++nfn;

        std::string sig;
        {
            llvm::raw_string_ostream so(sig);
            bool c = false;
            for (const ParmVarDecl *P : FD->parameters()) { if (c) so << ", "; c = true; so << Em.typeStr(P->getType()); }
        }

        // index
        IdxFn ix;
        scanIdx(FD->getBody(), ix, nullptr);
        if (auto *CD = dyn_cast<CXXConstructorDecl>(FD)) {
            for (const CXXCtorInitializer *I : CD->inits()) {
                if (!I->isWritten() && !I->isInClassMemberInitializer()) { if (I->getInit()) scanIdx(I->getInit(), ix, nullptr); continue; }
                if (I->getInit()) scanIdx(I->getInit(), ix, nullptr);
                if (I->isAnyMemberInitializer() && I->getAnyMember()) {
                    std::string row; llvm::raw_string_ostream o(row);
                    o << "["; jstr(o, Emitter::stripTmpl(Em.qname(I->getAnyMember()))); o << ",\"field\",\"init\",";
                    std::string cv; { llvm::raw_string_ostream c(cv); const Expr *IE = I->getInit();
                        if (IE && Em.tryConst(IE, c)) { c.flush(); o << cv.substr(5); } else o << "null"; }
                    o << "," << Em.line(I->getSourceLocation()) << "]"; o.flush();
                    ix.writes.insert(row);
                }
            }
        }
        idxOut << "{\"n\":"; jstr(idxOut, name); idxOut << ",\"full\":"; jstr(idxOut, full);
        idxOut << ",\"f\":"; jstr(idxOut, file); idxOut << ",\"l\":" << ln << ",\"tmpl\":" << tmpl << ",\"sig\":"; jstr(idxOut, sig);
        idxOut << ",\"c\":[";
        { bool c = false; for (auto &p : ix.calls) { if (c) idxOut << ","; c = true; idxOut << "["; jstr(idxOut, p.first); idxOut << "," << p.second << "]"; } }
        idxOut << "],\"w\":[";
        { bool c = false; for (auto &w : ix.writes) { if (c) idxOut << ","; c = true; idxOut << w; } }
        idxOut << "],\"r\":[";
        { bool c = false; for (auto &p : ix.refs) { if (c) idxOut << ","; c = true; idxOut << "["; jstr(idxOut, p.first); idxOut << "," << p.second << "]"; } }
        idxOut << "]}\n";

        if (!inMain && !wantHdrCfg(file)) return;

        // CFG
        CFG::BuildOptions BO;
        BO.setAllAlwaysAdd();
        BO.AddInitializers = true;
        BO.PruneTriviallyFalseEdges = true;
        std::unique_ptr<CFG> G = CFG::buildCFG(FD, FD->getBody(), &Ctx, BO);
        if (!G) return;
        ++ncfg;
        llvm::raw_ostream &o = cfgOut;
        o << "{\"n\":"; jstr(o, name); o << ",\"full\":"; jstr(o, full);
        o << ",\"f\":"; jstr(o, file); o << ",\"l\":" << ln << ",\"el\":" << Em.line(FD->getEndLoc());
        o << ",\"tmpl\":" << tmpl << ",\"sig\":"; jstr(o, sig);
        o << ",\"ret\":"; jstr(o, Em.typeStr(FD->getReturnType()));
        o << ",\"params\":[";
        { bool c = false; for (const ParmVarDecl *P : FD->parameters()) { if (c) o << ","; c = true; o << "{\"d\":"; jstr(o, P->getNameAsString()); o << ",\"t\":"; jstr(o, Em.typeStr(P->getType())); Em.intWidth(o, P->getType()); o << "}"; } }
        o << "],\"entry\":" << G->getEntry().getBlockID() << ",\"exit\":" << G->getExit().getBlockID();
        o << ",\"blocks\":[";
        bool fb = true;
        for (const CFGBlock *B : *G) {
            if (!B) continue;
            if (!fb) o << ",";
            fb = false;
            o << "{\"id\":" << B->getBlockID();
            if (B->hasNoReturnElement()) o << ",\"noret\":1";
            if (const Stmt *Lb = B->getLabel()) {
                if (auto *CS = dyn_cast<CaseStmt>(Lb)) {
                    o << ",\"case\":{";
                    std::string cv; llvm::raw_string_ostream c(cv);
                    if (Em.tryConst(CS->getLHS(), c)) { c.flush(); o << "\"v\":" << cv.substr(5) << ","; }
                    if (CS->getRHS()) { std::string cv2; llvm::raw_string_ostream c2(cv2); if (Em.tryConst(CS->getRHS(), c2)) { c2.flush(); o << "\"hi\":" << cv2.substr(5) << ","; } }
                    o << "\"x\":"; Em.tree(CS->getLHS(), o);
                    o << ",\"l\":" << Em.line(CS->getBeginLoc()) << "}";
                } else if (isa<DefaultStmt>(Lb)) o << ",\"default\":1";
                else if (auto *LS = dyn_cast<LabelStmt>(Lb)) { o << ",\"label\":"; jstr(o, LS->getName()); }
                else if (isa<CXXCatchStmt>(Lb)) o << ",\"catch\":1";
            }
            o << ",\"ev\":[";
            bool fe = true;
            bool hasThrow = false;
            for (const CFGElement &El : *B) {
                if (auto S = El.getAs<CFGStmt>()) {
                    if (isa<CXXThrowExpr>(S->getStmt())) hasThrow = true;
                    event(S->getStmt(), o, fe);
                } else if (auto I = El.getAs<CFGInitializer>()) {
                    const CXXCtorInitializer *CI = I->getInitializer();
                    if (CI->isAnyMemberInitializer() && CI->getAnyMember() && CI->getInit()) {
                        if (!fe) o << ",";
                        fe = false;
                        o << "{\"e\":\"asg\",\"l\":" << Em.line(CI->getSourceLocation()) << ",\"op\":\"init\",\"lhs\":{\"k\":\"mem\",\"m\":";
                        jstr(o, Emitter::stripTmpl(Em.qname(CI->getAnyMember()))); o << ",\"b\":{\"k\":\"this\"}},\"rhs\":"; Em.tree(CI->getInit(), o); o << "}";
                    }
                }
            }
            o << "]";
            if (hasThrow) o << ",\"throw\":1";
            // terminator
            const Stmt *T = B->getTerminatorStmt();
            if (T) {
                const char *tk = T->getStmtClassName();
                o << ",\"term\":{\"k\":\"" << tk << "\",\"l\":" << Em.line(T->getBeginLoc());
                std::string mac = Em.macroOf(T->getBeginLoc());
                if (!mac.empty()) { o << ",\"mac\":"; jstr(o, mac); }
                const Expr *C = B->getLastCondition();
                if (C) { o << ",\"c\":"; Em.tree(C, o); }
                o << "}";
            }
            o << ",\"succ\":[";
            bool fs = true;
            unsigned si = 0;
            bool isSwitch = T && isa<SwitchStmt>(T);
            bool twoWay = T && !isSwitch && B->succ_size() == 2;
            for (auto it = B->succ_begin(); it != B->succ_end(); ++it, ++si) {
                const CFGBlock *S = it->getReachableBlock();
                bool pruned = false;
                if (!S) { S = it->getPossiblyUnreachableBlock(); pruned = true; }
                if (!S) continue;
                if (!fs) o << ",";
                fs = false;
                o << "{\"to\":" << S->getBlockID();
                if (pruned) o << ",\"pruned\":1";
                if (twoWay) o << ",\"lab\":\"" << (si == 0 ? "T" : "F") << "\"";
                else if (isSwitch) {
                    const Stmt *Lb = S->getLabel();
                    if (Lb && isa<CaseStmt>(Lb)) o << ",\"lab\":\"case\"";
                    else if (Lb && isa<DefaultStmt>(Lb)) o << ",\"lab\":\"default\"";
                    else o << ",\"lab\":\"nodefault\"";
                }
                o << "}";
            }
            o << "]}";
        }
        o << "]}\n";
    }
};

class Consumer : public ASTConsumer {
public:
    void HandleTranslationUnit(ASTContext &Ctx) override {
        if (Ctx.getDiagnostics().hasErrorOccurred()) {
            llvm::errs() << "sqfacts: front end reported errors; no facts written\n";
            return;
        }
        std::error_code EC;
        llvm::raw_fd_ostream cfg(gOut + ".cfg.jsonl.tmp", EC);
        if (EC) { llvm::errs() << "sqfacts: cannot write " << gOut << "\n"; return; }
        llvm::raw_fd_ostream idx(gOut + ".idx.jsonl.tmp", EC);
        if (EC) { llvm::errs() << "sqfacts: cannot write " << gOut << "\n"; return; }
        SourceManager &SM = Ctx.getSourceManager();
        // dependency manifest
        idx << "{\"deps\":[";
        bool c = false;
        std::set<std::string> files;
        for (auto it = SM.fileinfo_begin(); it != SM.fileinfo_end(); ++it) {
            llvm::SmallString<256> p(it->first->getName());
            llvm::sys::fs::make_absolute(p);
            llvm::sys::path::remove_dots(p, true);
            files.insert(std::string(p.str()));
        }
        for (auto &f : files) { if (c) idx << ","; c = true; jstr(idx, f, 4000); }
        idx << "]}\n";
        Visitor V(Ctx, cfg, idx);
        V.TraverseDecl(Ctx.getTranslationUnitDecl());
        idx << "{\"done\":1,\"functions\":" << V.nfn << ",\"cfgs\":" << V.ncfg << "}\n";
        cfg.close(); idx.close();
        llvm::sys::fs::rename(gOut + ".cfg.jsonl.tmp", gOut + ".cfg.jsonl");
        llvm::sys::fs::rename(gOut + ".idx.jsonl.tmp", gOut + ".idx.jsonl");
    }
};

class Action : public ASTFrontendAction {
public:
    std::unique_ptr<ASTConsumer> CreateASTConsumer(CompilerInstance &, llvm::StringRef) override {
        return std::make_unique<Consumer>();
    }
};

} // namespace

static std::vector<std::pair<std::string, std::string>> gOverlay;

int main(int argc, const char **argv) {
    std::vector<std::string> flags;
    std::string src;
    int i = 1;
    for (; i < argc; ++i) {
        std::string a = argv[i];
        if (a == "--") { ++i; break; }
        if (a.rfind("--out=", 0) == 0) gOut = a.substr(6);
        else if (a.rfind("--root=", 0) == 0) gRoot = a.substr(7);
        else if (a.rfind("--hdr=", 0) == 0) {
            std::stringstream ss(a.substr(6)); std::string t;
            while (std::getline(ss, t, ',')) if (!t.empty()) gHdr.push_back(t);
        } else if (a.rfind("--overlay=", 0) == 0) {
            std::string v = a.substr(10); size_t eq = v.find('=');
            if (eq != std::string::npos) gOverlay.emplace_back(v.substr(0, eq), v.substr(eq + 1));
        } else src = a;
    }
    for (; i < argc; ++i) flags.push_back(argv[i]);
    if (src.empty() || gOut.empty()) { llvm::errs() << "usage: sqfacts <src> --out=<prefix> [--root=dir] [--hdr=a,b] -- flags\n"; return 2; }
    flags.push_back("-resource-dir=/usr/lib/llvm-14/lib/clang/14.0.6");
    flags.push_back("-fsyntax-only");
    flags.push_back("-Wno-everything");
    clang::tooling::FixedCompilationDatabase DB(".", flags);
    clang::tooling::ClangTool Tool(DB, {src});
    // --overlay=<path>=<file>: analyse as if <path> had the content of <file> (mutation self-validation; nothing on disk changes)
    std::vector<std::string> overlayContent;
    overlayContent.reserve(gOverlay.size());
    for (auto &ov : gOverlay) {
        auto buf = llvm::MemoryBuffer::getFile(ov.second);
        if (!buf) { llvm::errs() << "sqfacts: cannot read overlay " << ov.second << "\n"; return 2; }
        overlayContent.push_back((*buf)->getBuffer().str());
        Tool.mapVirtualFile(ov.first, overlayContent.back());
    }
    int rc = Tool.run(clang::tooling::newFrontendActionFactory<Action>().get());
    if (rc != 0) return 3;
    return 0;
}
