"""Check context: obligations, violations, known findings, evidence, exit codes."""
import json
import os
import re
import sys
import time

from . import expr as E
from . import flow as F
from . import units
from .facts import Facts
from .units import AnalysisBroken

VERIF = units.VERIF
# evidence/replay files describe /repo; runs against a scratch copy (SQ_REPO) write theirs elsewhere
OUT = (VERIF if os.path.realpath(units.REPO) == "/repo" and not units.OVERLAY else
       os.environ.get("SQ_OUT", os.path.join(units.OVERLAY_CACHE or os.environ.get("SQ_CACHE", "/tmp/sqcheck-scratch"), "out")))
KNOWN = os.path.join(VERIF, "known_findings.txt")


def load_known():
    out = {}
    if not os.path.exists(KNOWN):
        return out
    for ln in open(KNOWN):
        ln = ln.strip()
        m = re.match(r"finding:\s+property=(\S+)\s+key=(\S+)\s*(.*)$", ln)
        if m:
            out[(m.group(1), m.group(2))] = m.group(3)
    return out


class Check:
    def __init__(self, pid, tier="quick", seed=0, replay=None):
        self.pid = pid
        self.tier = tier
        self.seed = seed
        self.replay = replay
        self.t0 = time.time()
        self.obligations = []   # dicts
        self.violations = []
        self.known_hits = []
        self.samples = []
        self.rules_used = []
        self.assumptions = []
        self.stats = {"functions": set(), "sites": 0, "product_nodes": 0, "edges_pruned": 0, "units": 0, "reextracted": 0,
                      "callers_checked": 0, "writers_checked": 0}
        self.known = load_known()
        self._facts = None
        self.fn_objs = {}
        self.facts_objs = []

    # ------------------------------------------------------------------ facts / flows
    def facts(self, unit_list, whole=False):
        f = Facts(unit_list, whole_program=whole)
        self.stats["units"] = max(self.stats["units"], len(f.all_units))
        self.stats["reextracted"] += f.stats.get("reextracted", 0)
        self._facts = f
        self.facts_objs.append(f)
        return f

    def flow(self, fn, **kw):
        fl = F.Flow(fn, **kw)
        self.stats["functions"].add(fn.name)
        self.fn_objs[(fn.name, fn.file, fn.line)] = fn
        self.stats["product_nodes"] += len(fl.IN)
        self.stats["edges_pruned"] += fl.edges_pruned
        self.stats["sites"] += len(fl.sites)
        return fl

    def rule(self, text):
        """register a rule description (goes to evidence.coverage.explanation)"""
        self.rules_used.append(text)

    def assume(self, text):
        if text not in self.assumptions:
            self.assumptions.append(text)

    # ------------------------------------------------------------------ recording
    def ok(self, rule, where, what, nontrivial=True):
        self.obligations.append({"rule": rule, "where": where, "what": what, "status": "ok", "nontrivial": nontrivial})

    def violation(self, rule, key, where, what, path=None):
        key = re.sub(r"\s+", "_", key)
        rec = {"property": self.pid, "rule": rule, "key": key, "where": where, "what": what, "path": path or []}
        if any(v["key"] == key and v["where"] == where for v in self.violations + self.known_hits):
            return
        self.obligations.append({"rule": rule, "where": where, "what": what, "status": "violation", "nontrivial": True})
        if (self.pid, key) in self.known:
            self.known_hits.append(rec)
        else:
            self.violations.append(rec)

    def broken(self, msg):
        raise AnalysisBroken(msg)

    def need(self, cond, msg):
        if not cond:
            raise AnalysisBroken(msg)

    # ------------------------------------------------------------------ rule helpers
    def sites(self, fl, pred, name, min_sites=1):
        ss = fl.find(pred)
        if len(ss) < min_sites:
            raise AnalysisBroken("%s: selector '%s' matched %d site(s) in %s, expected >= %d (anchor moved?)"
                                 % (self.pid, name, len(ss), fl.fn.name, min_sites))
        return ss

    def require_fact(self, rule, fl, pred, matcher, val, name, min_sites=1, why="", history=False):
        """every site selected by pred is reached only with atom `matcher` == val established (dominance by guard);
        history=True: the most recent evaluation counts even if the atom's operands were modified afterwards"""
        ss = self.sites(fl, pred, name, min_sites)
        for s in ss:
            if (s.had(matcher, val) if history else s.has(matcher, val)):
                self.ok(rule, s.where(), "%s: %s requires %s=%s" % (fl.fn.name, s.desc()[:80], matcher.desc, "T" if val else "F"))
            else:
                self.violation(rule, "%s|%s|%s|needs:%s=%s" % (rule, fl.fn.name, name, matcher.desc, "T" if val else "F"), s.where(),
                               "%s: '%s' is reachable without %s being %s on every path (facts here: %s) %s"
                               % (fl.fn.name, s.desc()[:100], matcher.desc, "true" if val else "false", ", ".join(s.fact_keys())[:300], why),
                               fl.witness(s))
        return ss

    def require_any_fact(self, rule, fl, pred, alts, name, min_sites=1, why=""):
        """every selected site holds at least one of the alternative facts [(matcher,val)|('P',marker)]"""
        ss = self.sites(fl, pred, name, min_sites)
        for s in ss:
            good = False
            for a in alts:
                if a[0] == "P":
                    good = good or s.passed(a[1])
                elif a[0] == "T":
                    good = good or (s.tracked(a[1]) == a[2])
                else:
                    good = good or s.has(a[0], a[1])
            desc = " | ".join(("passed:" + a[1]) if a[0] == "P" else (("tracked:%s=%s" % (a[1], a[2])) if a[0] == "T" else "%s=%s" % (a[0].desc, "T" if a[1] else "F")) for a in alts)
            if good:
                self.ok(rule, s.where(), "%s: %s requires one of [%s]" % (fl.fn.name, s.desc()[:80], desc))
            else:
                self.violation(rule, "%s|%s|%s|needs-any" % (rule, fl.fn.name, name), s.where(),
                               "%s: '%s' reachable with none of [%s] established (facts: %s) %s"
                               % (fl.fn.name, s.desc()[:100], desc, ", ".join(s.fact_keys())[:300], why), fl.witness(s))
        return ss

    def require_any(self, rule, fn, pred, alts, name, min_sites=1, why="", **flowkw):
        """path-sensitive disjunction: every path to a selected site has, as the *last* evaluation of at least one of
        the alternative atoms, the required value (alts: (matcher, val)) or has passed an event (alts: ('P', label, event-pred))"""
        ta = {}
        mk = {}
        spec = []
        for i, a in enumerate(alts):
            if a[0] == "P":
                mk["m%d" % i] = a[2]
                spec.append(("P", "m%d" % i, a[1]))
            else:
                ta["a%d" % i] = a[0]
                spec.append(("T", "a%d" % i, a[1], a[0].desc))
        kw = dict(flowkw)
        kw.setdefault("markers", {}).update(mk)
        kw["track_markers"] = list(kw.get("track_markers", [])) + list(mk)
        kw.setdefault("track_atoms", {}).update(ta)
        fl = self.flow(fn, **kw)
        ss = self.sites(fl, pred, name, min_sites)
        desc = " | ".join(("passed:" + a[2]) if a[0] == "P" else "%s=%s" % (a[3], "T" if a[2] else "F") for a in spec)
        for s in ss:
            good = any((s.passed(a[1]) if a[0] == "P" else s.tracked(a[1]) == a[2]) for a in spec)
            if good:
                self.ok(rule, s.where(), "%s: %s requires one of [%s]" % (fn.name, s.desc()[:80], desc))
            else:
                self.violation(rule, "%s|%s|%s|needs-any" % (rule, fn.name, name), s.where(),
                               "%s: '%s' reachable on a path where none of [%s] holds %s" % (fn.name, s.desc()[:100], desc, why), fl.witness(s))
        return ss

    def require_passed(self, rule, fl, pred, marker, name, min_sites=1, why=""):
        """every path to the selected sites passes marker event (must-pass / ORDER)"""
        ss = self.sites(fl, pred, name, min_sites)
        for s in ss:
            if s.passed(marker):
                self.ok(rule, s.where(), "%s: %s is preceded by %s on all paths" % (fl.fn.name, s.desc()[:80], marker))
            else:
                self.violation(rule, "%s|%s|%s|must-pass:%s" % (rule, fl.fn.name, name, marker), s.where(),
                               "%s: '%s' reachable without passing %s %s" % (fl.fn.name, s.desc()[:100], marker, why), fl.witness(s))
        return ss

    def require_unreachable(self, rule, fl, pred, name, assumption, why=""):
        """under the flow's assumptions no selected site is reachable"""
        ss = fl.find(pred)
        if not ss:
            self.ok(rule, fl.fn.where(), "%s: no path to %s under %s" % (fl.fn.name, name, assumption))
        for s in ss:
            self.violation(rule, "%s|%s|%s|under:%s" % (rule, fl.fn.name, name, assumption), s.where(),
                           "%s: '%s' is reachable under %s %s" % (fl.fn.name, s.desc()[:100], assumption, why), fl.witness(s))
        return ss

    # ---- closure of a condition through local definitions ------------------------------------
    def local_defs(self, fn):
        """{local name: [defining expression trees]} from declarations and assignments in fn"""
        c = getattr(fn, "_local_defs", None)
        if c is not None:
            return c
        d = {}
        for b in fn.blocks.values():
            for ev in b["ev"]:
                if ev.get("e") == "decl" and ev.get("init") is not None:
                    d.setdefault(ev["d"], []).append(ev["init"])
                elif ev.get("e") == "asg":
                    l = E.strip(ev.get("lhs"))
                    if isinstance(l, dict) and l.get("k") == "ref" and l.get("dk") in ("local", "static") and ev.get("rhs") is not None:
                        d.setdefault(l["d"], []).append(ev["rhs"])
        fn._local_defs = d
        return d

    def closure_mentions(self, fn, tree, depth=3):
        defs = self.local_defs(fn)
        out = set(E.mentions(tree))
        frontier = set(out)
        for _ in range(depth):
            nxt = set()
            for n in frontier:
                for t in defs.get(n, []):
                    nxt |= E.mentions(t)
            nxt -= out
            if not nxt:
                break
            out |= nxt
            frontier = nxt
        return out

    def m_closure(self, fn, *names):
        """atom mentions all `names`, looking through the definitions of locals it uses"""
        s = set(names)
        return E.M(lambda t: s <= self.closure_mentions(fn, t), "mentions*(%s)" % ",".join(names))

    def pred_summary(self, name):
        """summary of a guard wrapper `bool F(params)`: {True: [(atom, val)], False: [...]} = the comparison atoms over its parameters and constants
        that hold on every path to each `return <that constant>`; None when F is not a loaded function returning boolean constants only"""
        cache = self.__dict__.setdefault("_pred_summaries", {})
        if name in cache:
            return cache[name]
        cache[name] = None
        cands = []
        for fo in self.facts_objs:
            cands = [f for f in fo.fns(name) if f.tmpl != 1]
            if cands:
                break
        if len({(f.file, f.line) for f in cands}) != 1:
            return None
        fn = cands[0]
        pnames = {p_["d"] for p_ in fn.params}
        fl = F.Flow(fn)
        out = {True: None, False: None}
        for st in fl.sites:
            if st.ev.get("e") != "ret":
                continue
            c = E.const(st.ev.get("x"))
            if c not in (0, 1):
                return None
            atoms = {}
            for f in st.facts:
                if f[0] == "A":
                    t = fl.trees[f[1]]
                    if all(n.get("k") != "call" and (n.get("k") != "ref" or n.get("dk") in ("enum",) or n.get("d") in pnames) and n.get("k") not in ("mem", "this")
                           for n in E.walk(t)) and any(n.get("k") == "ref" and n.get("d") in pnames for n in E.walk(t)):
                        atoms[(f[1], f[2])] = (t, f[2])
            out[bool(c)] = atoms if out[bool(c)] is None else {k: v for k, v in out[bool(c)].items() if k in atoms}
        cache[name] = {"fn": fn, True: list((out[True] or {}).values()), False: list((out[False] or {}).values())}
        return cache[name]

    @staticmethod
    def _subst(t, binding):
        if isinstance(t, dict):
            if t.get("k") == "ref" and t.get("d") in binding:
                return binding[t["d"]]
            return {k: Check._subst(v, binding) for k, v in t.items()}
        if isinstance(t, list):
            return [Check._subst(v, binding) for v in t]
        return t

    def interval(self, site, is_var):
        """GINT: [lo, hi] implied for an integer expression by the comparison facts that hold on every path to `site`
        (only `var < K`, `K < var`, `var == K` atoms with constant K are used; None = unbounded on that side).  A fact about a guard wrapper
        `F(var)` contributes F's summary (pred_summary) when the argument is passed without an integer narrowing conversion."""
        site.flow.need_names(is_var)
        st = {"lo": None, "hi": None}
        ne = set()
        tr = site.flow.trees

        def consume(t, val, depth=0):
            t = E.strip(t)
            if not isinstance(t, dict):
                return
            if t.get("k") == "call" and "o" not in t and depth < 2 and any(is_var(a) for a in t.get("a", [])):
                sm = self.pred_summary(t.get("f", ""))
                if sm:
                    binding = {}
                    for p_, a in zip(sm["fn"].params, t["a"]):
                        n, narrowing = a, False
                        while isinstance(n, dict) and n.get("k") in ("icast", "cast", "paren"):
                            inner = n.get("e")
                            if n.get("k") != "paren" and isinstance(inner, dict) and inner.get("iw") and n.get("iw") and abs(n["iw"]) < abs(inner["iw"]):
                                narrowing = True
                            n = inner
                        if not narrowing and abs(p_.get("iw") or 0) >= abs((n or {}).get("iw") or 64):
                            binding[p_["d"]] = n
                    for at, av in sm[bool(val)]:
                        if all(nd.get("k") != "ref" or nd.get("dk") == "enum" or nd.get("d") in binding for nd in E.walk(at)):
                            consume(self._subst(at, binding), av, depth + 1)
                return
            if t.get("k") != "bin" or t.get("op") not in ("<", "=="):
                return
            l, r = t.get("l"), t.get("r")
            lo, hi = st["lo"], st["hi"]
            if is_var(l) and E.const(r) is not None:
                k = E.const(r)
                if t["op"] == "<":
                    if val:
                        hi = k - 1 if hi is None else min(hi, k - 1)
                    else:
                        lo = k if lo is None else max(lo, k)
                elif val:
                    lo = k if lo is None else max(lo, k)
                    hi = k if hi is None else min(hi, k)
                else:
                    ne.add(k)
            elif is_var(r) and E.const(l) is not None:
                k = E.const(l)
                if t["op"] == "<":
                    if val:
                        lo = k + 1 if lo is None else max(lo, k + 1)
                    else:
                        hi = k if hi is None else min(hi, k)
            st["lo"], st["hi"] = lo, hi
        for f in site.facts:
            if f[0] == "A":
                consume(tr[f[1]], f[2])
        lo, hi = st["lo"], st["hi"]
        changed = True
        while changed:
            changed = False
            if lo is not None and lo in ne:
                lo += 1
                changed = True
            if hi is not None and hi in ne:
                hi -= 1
                changed = True
        return lo, hi

    def require_interval(self, rule, fl, pred, is_var, lo, hi, name, min_sites=1, why=""):
        """GINT obligation: at every selected site the guarded interval of the variable lies within [lo, hi]"""
        ss = self.sites(fl, pred, name, min_sites)
        for s in ss:
            a, b = self.interval(s, is_var)
            good = (lo is None or (a is not None and a >= lo)) and (hi is None or (b is not None and b <= hi))
            if good:
                self.ok(rule, s.where(), "%s: at '%s' %s is within [%s, %s] (guards give [%s, %s])" % (fl.fn.name, s.desc()[:60], is_var.desc, lo, hi, a, b))
            else:
                self.violation(rule, "%s|%s|%s|interval:%s..%s" % (rule, fl.fn.name, name, lo, hi), s.where(),
                               "%s: at '%s' the guards on every path only give %s in [%s, %s], required [%s, %s] %s"
                               % (fl.fn.name, s.desc()[:80], is_var.desc, "-inf" if a is None else a, "+inf" if b is None else b, lo, hi, why), fl.witness(s))
        return ss

    def m_result_of(self, fn, callee):
        """atom is a call of `callee`, or a local every definition of which is exactly such a call"""
        defs = self.local_defs(fn)

        def is_call(t):
            t = E.strip(t)
            return isinstance(t, dict) and t.get("k") == "call" and t.get("f") == callee

        def pred(t):
            t = E.strip(t)
            if is_call(t):
                return True
            if isinstance(t, dict) and t.get("k") == "ref" and t.get("dk") in ("local", "static"):
                ds = defs.get(t["d"], [])
                return bool(ds) and all(is_call(x) for x in ds)
            if isinstance(t, dict) and t.get("k") == "bin" and t.get("op") == "=":
                return is_call(t.get("r"))
            return False
        return E.M(pred, "result-of(%s)" % callee)

    def trigger_edges(self, fn, matcher, val, term_kinds=None):
        """[(block id, label, successor id)] of two-way edges on which atom `matcher` is implied to be `val`"""
        out = []
        for b in fn.blocks.values():
            term = b.get("term")
            if not term or term.get("c") is None:
                continue
            if term_kinds and term.get("k") not in term_kinds:
                continue
            lv = E.leaves(term["c"]) if term.get("k") not in ("BinaryOperator", "ConditionalOperator") else []
            for s in b["succ"]:
                if s.get("lab") in ("T", "F"):
                    hit = any(v == val and matcher(t) for t, v in E.implied(term["c"], s["lab"] == "T"))
                    if not hit and len(lv) >= 2:
                        # a compound condition closing a short-circuit evaluation (`!(!a && !b)`): the atom is decided on this edge for the
                        # paths on which one other leaf took a particular value (the edge as a whole is then the trigger: an over-approximation)
                        for other in lv:
                            for oval in (True, False):
                                known = lambda t, k=E.key(other), oval=oval: oval if E.key(t) == k else None
                                hit = hit or any(v == val and matcher(t) and E.key(t) != E.key(other) for t, v in E.implied(term["c"], s["lab"] == "T", known))
                    if hit:
                        out.append((b["id"], s["lab"], s["to"]))
        return out

    def edge_marks(self, fn, bid, lab):
        """initial environment for a flow started on the edge (bid, lab): if that edge is a short-circuit edge inside a larger condition, what it decided
        is carried into the statement-level branch that closes the expression (flow.py "@sc:" marks); empty otherwise"""
        term = fn.blocks[bid].get("term") or {}
        if term.get("k") in ("BinaryOperator", "ConditionalOperator") and term.get("c") is not None:
            return {"@sc:" + E.key(t): v for t, v in E.implied(term["c"], lab == "T")}
        return {}

    def require_response(self, rule, fn, matcher, val, response, name, min_edges=1, until=None, exits=("ret", "fall"), why="", term_kinds=None, **flowkw):
        """RESPONSE: after every edge on which atom `matcher`==val, each path passes an event satisfying `response`
        before the function returns, before `until` sites and before the atom is tested again"""
        edges = self.trigger_edges(fn, matcher, val, term_kinds)
        if len(edges) < min_edges:
            raise AnalysisBroken("%s: RESPONSE trigger %s=%s matched %d edge(s) in %s, expected >= %d" % (self.pid, matcher.desc, val, len(edges), fn.name, min_edges))
        for (bid, lab, to) in edges:
            kw = dict(flowkw)
            if "init_env" not in kw:
                kw["init_env"] = self.edge_marks(fn, bid, lab)
            fl = self.flow(fn, start=to, markers={"R": response}, **kw)
            bad = []
            for s in fl.sites:
                e = s.ev
                if (e.get("e") == "exit" and e.get("kind") in exits) or (until and until(e)):
                    if not s.passed("R"):
                        bad.append(s)
            for node, facts in fl.IN.items():
                if node[0] == bid and ("P", "R") not in facts:
                    bad.append(None)
            where = fn.where(fn.blocks[bid].get("term", {}).get("l"))
            if not bad:
                self.ok(rule, where, "%s: after %s=%s (B%d-%s) every path passes %s" % (fn.name, matcher.desc, "T" if val else "F", bid, lab, name))
            for s in bad:
                self.violation(rule, "%s|%s|response:%s|after:%s=%s" % (rule, fn.name, name, matcher.desc, "T" if val else "F"),
                               s.where() if s else where,
                               "%s: after %s=%s at %s there is a path to %s that does not pass %s %s"
                               % (fn.name, matcher.desc, "true" if val else "false", where, (s.desc() if s else "the re-evaluation of the condition"), name, why),
                               fl.witness(s) if s else [])
        return edges

    def who_calls(self, rule, facts, callee, allowed, why="", min_callers=1, kinds=("call", "ref"), prefixes=()):
        """whole-program: callers of `callee` are within `allowed` (dict caller-name -> reason)"""
        cs = [c for c in facts.callers(callee) if c[3] in kinds]
        self.stats["callers_checked"] += len(cs)
        real = [c for c in cs if "/tests/" not in c[1]]
        if len(real) < min_callers:
            raise AnalysisBroken("%s: WHO(%s) found %d caller(s), expected >= %d (renamed?)" % (self.pid, callee, len(real), min_callers))
        for (n, f, l, k, u) in real:
            where = "%s:%d" % (os.path.relpath(f, units.REPO), l)
            if n in allowed:
                self.ok(rule, where, "caller %s of %s is in the confirmed set (%s)" % (n, callee, allowed[n]))
            elif any(n.startswith(p) for p in prefixes):
                self.ok(rule, where, "caller %s of %s is inside the owning module (%s*)" % (n, callee, [p for p in prefixes if n.startswith(p)][0]))
            else:
                self.violation(rule, "%s|who-calls|%s|%s" % (rule, callee, n), where,
                               "%s %s %s outside the confirmed caller set {%s} %s" % (n, "calls" if k == "call" else "takes the address of", callee, ", ".join(sorted(allowed)), why))
        return real

    def who_writes(self, rule, facts, field, allowed, why="", min_writers=1, value=None, ops=None):
        ws = facts.writers(field)
        if ops is not None:
            ws = [w for w in ws if w[3] in ops]
        if value is not None:
            ws = [w for w in ws if value(w[4])]
        ws = [w for w in ws if "/tests/" not in w[1]]
        self.stats["writers_checked"] += len(ws)
        if len(ws) < min_writers:
            raise AnalysisBroken("%s: WHO-writes(%s) found %d writer(s), expected >= %d (renamed?)" % (self.pid, field, len(ws), min_writers))
        for (n, f, l, op, cv) in ws:
            where = "%s:%d" % (os.path.relpath(f, units.REPO), l)
            if n in allowed:
                self.ok(rule, where, "writer %s of %s (%s %s) is in the confirmed set (%s)" % (n, field, op, cv, allowed[n]))
            else:
                self.violation(rule, "%s|who-writes|%s|%s" % (rule, field, n), where,
                               "%s writes %s (%s %s) outside the confirmed writer set {%s} %s" % (n, field, op, cv, ", ".join(sorted(allowed)), why))
        return ws

    # ------------------------------------------------------------------ finish
    def finish(self, broken=None):
        wall = time.time() - self.t0
        oks = [o for o in self.obligations if o["status"] == "ok"]
        distinct = len({(o["rule"], o["where"], o["what"]) for o in self.obligations if o["nontrivial"]})
        samples = []
        for o in self.obligations[:3] + self.obligations[len(self.obligations) // 2: len(self.obligations) // 2 + 2] + self.obligations[-2:]:
            samples.append({"rule": o["rule"], "where": o["where"], "obligation": o["what"][:300], "status": o["status"]})
        ev = {
            "property_id": self.pid,
            "tier": self.tier,
            "seed": int(self.seed),
            "level": "other",
            "coverage": {
                "explanation": ("static analysis of /repo's working tree (clang-14 AST + CFG facts, path-sensitive must-fact dataflow, "
                                "whole-program call/write index). Rules: " + " || ".join(self.rules_used))[:6000],
                "evaluations": len(self.obligations),
                "distinct_nontrivial": distinct,
                "rule": "one evaluation = one (rule instance, site) obligation decided on the current source; distinct = distinct (rule, file:line, obligation text)",
                "samples": samples or [{"note": "no obligation evaluated"}],
                "obligations": len(self.obligations),
                "discharged": len(oks),
                "functions_analysed": sorted(self.stats["functions"]),
                "units_with_fresh_facts": self.stats["units"],
                "units_reextracted_this_run": self.stats["reextracted"],
                "product_graph_nodes": self.stats["product_nodes"],
                "sites_examined": self.stats["sites"],
                "infeasible_edges_pruned": self.stats["edges_pruned"],
                "callers_checked": self.stats["callers_checked"],
                "writers_checked": self.stats["writers_checked"],
                "known_findings_matched": [k["key"] for k in self.known_hits],
                "exhaustive": False,
            },
            "assumptions": self.assumptions + [
                "decides only the structural clauses named in DESIGN.md for this property, not the runtime behaviour",
                "clang CFG without exception edges; callee bodies are not inlined unless stated",
                "facts about an atom are invalidated by writes to what it mentions inside the same function only",
            ],
            "wall_s": round(wall, 3),
            "violations": len(self.violations),
        }
        for k, v in getattr(self, "extra", {}).items():
            ev["coverage"][k] = v
        if broken:
            ev["coverage"]["analysis_broken"] = str(broken)[:2000]
        os.makedirs(os.path.join(OUT, "evidence"), exist_ok=True)
        with open(os.path.join(OUT, "evidence", self.pid + ".json"), "w") as f:
            json.dump(ev, f, indent=1)
        print("[%s] tier=%s obligations=%d ok=%d violations=%d known=%d functions=%d units=%d wall=%.1fs" % (
            self.pid, self.tier, len(self.obligations), len(oks), len(self.violations), len(self.known_hits),
            len(self.stats["functions"]), self.stats["units"], wall))
        for k in self.known_hits:
            print("KNOWN-FINDING: property=%s %s at %s: %s" % (self.pid, k["key"], k["where"], k["what"][:400]))
        if broken:
            print("ANALYSIS-BROKEN property=%s: %s" % (self.pid, broken))
            if not self.violations:
                return 2
        if self.violations:
            os.makedirs(os.path.join(OUT, "replay"), exist_ok=True)
            for i, v in enumerate(self.violations):
                rp = os.path.join(OUT, "replay", "%s-%d.json" % (self.pid, i))
                with open(rp, "w") as f:
                    json.dump(v, f, indent=1)
                print("  rule=%s key=%s\n  at %s: %s" % (v["rule"], v["key"], v["where"], v["what"]))
                for p in v["path"][:40]:
                    print("      " + p)
                print("VIOLATION property=%s replay=%s" % (self.pid, rp))
            return 1
        return 0
