"""Per-property registry: what is claimed (and how) or why it is not applicable.
bin/genmanifest turns this into MANIFEST.json."""

NOTE = ("Trusted base: clang-14 front end (AST, CFG, constant evaluation), the sqfacts extractor, the python rule engine, and the rule "
        "instance tables confirmed by reading. Decides structural necessary conditions on /repo's current source; does not execute squid.")

CLAIMED = {
    "C04": dict(
        text="For every path of the request-header filter, no hop-by-hop id (Connection, TE, Keep-Alive, Proxy-Authenticate, Trailer, "
             "Transfer-Encoding, Upgrade, Proxy-Connection) reaches a header mutator; Proxy-Authorization only to non-origin peers with "
             "login=PASS*; Connection-listed names dropped; the builder's own emissions are within a confirmed id table; on the reply side "
             "removeHopByHopEntries()/delById(Proxy-Authenticate) are on all paths and the registered-header table flags the hop-by-hop set. "
             "Total over CFG paths and header ids; says nothing about list-token parsing.",
        technique="CFG case-exclusion/dominance/must-pass (path-sensitive must-fact dataflow) + whole-program who-calls + constant table folding",
        design="5/C04"),
}

NOT_APPLICABLE = {
}
