"""Per-property registry: what is claimed (and how) or why it is not applicable.
bin/genmanifest turns this into MANIFEST.json."""

NOTE = ("Trusted base: clang-14 front end (AST, CFG, constant evaluation), the sqfacts extractor, the python rule engine, and the rule "
        "instance tables confirmed by reading. Decides structural necessary conditions on /repo's current source; does not execute squid.")

CLAIMED = {
    "C04": dict(
        text="For every path of the request-header filter, no hop-by-hop id (Connection, TE, Keep-Alive, Proxy-Authenticate, Trailer, "
             "Transfer-Encoding, Upgrade, Proxy-Connection) reaches a header mutator; Proxy-Authorization only to non-origin peers with "
             "login=PASS*; Connection-listed names dropped; the builder's own emissions are within a confirmed id table; on the reply side "
             "removeHopByHopEntries()/delById(Proxy-Authenticate) are on all paths and the registered-header table flags the hop-by-hop set. "
             "Total over CFG paths and header ids; says nothing about list-token parsing.",
        technique="CFG case-exclusion/dominance/must-pass (path-sensitive must-fact dataflow) + whole-program who-calls + constant table folding",
        design="5/C04"),
    "C03": dict(
        text="Framing gates on all CFG paths: HttpHeader::parse accepts a block only without NUL, rejects folded/bare-CR Content-Length/"
             "Transfer-Encoding and CR-only request lines, removes Content-Length whenever Transfer-Encoding is present or a bad length was seen, "
             "flags unsupported codings; checkEntityFraming returns 'ok' only past those flags; clientProcessRequest reaches doCallouts/"
             "expectRequestBody only past the framing check and otherwise closes + replies; the upstream header builder never copies "
             "Transfer-Encoding and copies Content-Length only when not re-chunking; kick() never parses after an error stop. "
             "Does not compare message boundaries with a reference parser.",
        technique="CFG dominance / response (must-pass after edge) / path-sensitive disjunction over atoms + call-argument constants",
        design="5/C03"),
    "C07": dict(
        text="For all paths of FwdState::checkRetry/checkRetriable/reforward/retryOrBail/complete: a retry or re-forward is started only when "
             "the body was not nibbled, the connection is not pinned, dont_retry is unset and (no server connection was ever used or the method "
             "classifiers say safe/idempotent and there is no body); the classifiers' true-sets (enumerated per enumerator over the switch) "
             "exclude POST/CONNECT/LOCK/PURGE/OTHER; connected_okay is set before every protocol start and written nowhere else.",
        technique="CFG dominance + per-enumerator switch folding + ORDER (must-pass) + whole-program who-writes/who-calls",
        design="5/C07"),
    "C63": dict(
        text="Every FwdState::Start call on the client reply side must be dominated by loopDetected==false (holds in processMiss; fails in "
             "processExpired: recorded known finding); Via hit sets loopDetected on all paths; OPTIONS/TRACE with Max-Forwards 0 never reach "
             "doCallouts/doGetMoreData; Max-Forwards is only ever emitted as hops-1 under hops>0.",
        technique="CFG dominance at every resolved call site of the forwarding entry point + response rule + call-argument shape",
        design="5/C63"),
    "C54": dict(
        text="Exact per-path effect summaries of all 11 Ipc::ReadWriteLock methods (every acyclic path, callee methods inlined by summary): "
             "each return class has exactly the contract's net effect on readLevel/writeLevel/readers/writing/appending/updating (failed "
             "acquisitions are net zero, unlocks are inverses); announce-then-check order (++readLevel before reading writeLevel; the "
             "writeLevel++ RMW result itself is the tested value; readLevel read before writing=true); all six members are std::atomic with "
             "default-order operations. Mutual exclusion over interleavings is NOT decided.",
        technique="exhaustive acyclic-path effect summaries (BALANCE) against a contract table + per-path operation order + type facts",
        design="5/C54"),
    "C55": dict(
        text="Lock protocol of Ipc::StoreMap over all acyclic paths of 16 open*/close*/abort*/free* functions: a non-null/true return holds "
             "exactly the contract's shared/exclusive/header locks, every failure return released what it took, closes are inverses; a reader "
             "is handed an anchor only after lockShared, !empty, !waitingToBeFreed, sameKey; every freeChain call is dominated by exclusive "
             "ownership; raw lock primitives are called only from the map classes (whole program). Cross-process visibility is NOT decided.",
        technique="BALANCE path summaries with lock-primitive contracts + CFG dominance + whole-program who-calls",
        design="5/C55"),
    "C58": dict(
        text="For every class with pack(TypedMsgHdr&) (>=20 classes in ipc/, mgr/, snmp/, DiskIO, SBufStats) the source-ordered sequence of "
             "message operations in pack() and in its unpack()/unpacking constructor correspond one-to-one (type tag value, pod operand type, "
             "fixed size expression, string/fd/raw, nested member class); getRaw/putRaw copy only past the size Must(); getString bounds the "
             "length by the stack buffer size before copying; checkType throws on mismatch. Value round-trip itself is not decided.",
        technique="sibling-implementation agreement (SIBLING) over linearised AST operations + CFG dominance of bounded copies",
        design="5/C58"),
    "C27": dict(
        text="Overflow obligation of the strtol-style accumulate idiom in Parser::Tokenizer::int64: every constant limit flowing into `cutoff` "
             "fits the accumulator's type, the multiply/add are dominated by the cutoff guard and the digit<base test, overflow is sticky, the consumed "
             "length is the scanned length; httpHeaderParseOffset returns true only past its errno/ERANGE/empty gates; anchored parsers must not use "
             "atoi-class functions (httpHeaderParseInt does: known finding). Found and repaired: the 2^63 limit was accumulated in int64_t (UB).",
        technique="ACC obligation on front-end-evaluated constants and declared types + CFG dominance + banned-callee (LOSSY) rule",
        design="5/C27, 6(a),(f)"),
    "C28": dict(
        text="In HttpHdrRangeSpec::parseInit every signed `parsed + constant` is dominated by an upper bound on the parsed operand (found and "
             "repaired: last_pos + 1 for last_pos == INT64_MAX), a range is built only after both offsets parsed, are >= 0 and last >= first, and "
             "every failing parse/unknown value returns false. Covered-byte-set equality and canonize/merge arithmetic are not decided.",
        technique="ARITH: dominating-bound obligation for arithmetic on parse results (guard intervals from must-facts) + response rules",
        design="5/C28, 6(b)"),
    "C30": dict(
        text="At the point AnyP::Uri::parse stores the port, the guards on every path confine it to [1,65535] and the host passed the empty-label "
             "rejection; parsePort returns only past the zero-prefix throw, a strict decimal int64 and the 65535 bound; the port must not come "
             "from atoi (it does in parse(): known finding with replay). Canonical-form idempotence is not decided.",
        technique="guard-interval (GINT) from must-facts + CFG dominance/response + banned-callee (LOSSY) rule",
        design="5/C30, 6(g)"),
    "C40": dict(
        text="At addr.port(port) in Ftp::ParseProtoIpPort and Ftp::ParseIpPort the configuration-independent guards on every path give a port in "
             "[1,65535] (octets in [0,255], port = (p1<<8)+p2 > 0, all 6 fields converted; the EPSV port keeps strtol's full width until checked). "
             "Ftp::Client::handleEpsvReply hands a port within [1,65535] to the data address; ParseIpPort returns true only with all six components in [0,255]; every "
             "integer sscanf conversion in these parsers has a field width that cannot overflow its destination (no silent wrap before the range checks). "
             "Found and repaired: ParseProtoIpPort accepted 0, 70000, 4294967317; handleEpsvReply accepted 70000 as 4464; ParseIpPort accepted wrapped and unchecked "
             "components. Listing-parser memory safety is not decided.",
        technique="guard-interval (GINT) from must-facts + narrowing-cast check on declared types + scanf format/destination-width analysis (LOSSY)",
        design="5/C40, 6(c)"),
    "C52": dict(
        text="Guard structure of both IncreaseSumInternal overloads on all paths (raw a+b only after a>=0, b>=0, !Less(max-a,b); unsigned result only "
             "if no wrap and <= max(S)), plus compile-time witnesses against the current header: the API instantiates for all 64 integer type pairs, "
             "Less() equals exact 128-bit comparison and the constexpr signed sum equals exact sum-or-nothing on 8x8 boundary grids per type pair "
             "(constant-evaluated by clang), and float/enum misuse fails to compile. Not a proof for all values.",
        technique="CFG dominance on the template pattern + compile-time witness TU (static_assert grids, compile-fail witnesses)",
        design="5/C52"),
    "C53": dict(
        text="Atomic discipline of Ipc::Mem::IdSet/PageStack: the non-atomic node alias is reachable only from the pre-sharing initialisation chain "
             "(whole program), every node access in innerPush/innerPop/leafPush/leafPop is an atomic RMW/load, CAS loops pass the loaded local as "
             "expected and recompute the desired value after every failed attempt, push sets the leaf bit before inner counters, pop takes inner "
             "counters before the leaf and fails only at the root, size_ is decremented only after a successful pop and incremented before push. "
             "Linearizability under interleavings is NOT decided.",
        technique="whole-program who-calls + resolved-callee operation whitelist + response rule on CAS retry edges + ORDER (must-pass)",
        design="5/C53"),
    "C56": dict(
        text="SPSC discipline of Ipc::OneToOneUniQueue (template pattern): push copies only when !full(), copies before theSize++ publishes, "
             "wasEmpty is the result of that RMW and drives the wake-up; pop copies only after the last empty() test was false, re-tests empty() "
             "after announcing block() before giving up, copies before --theSize; theIn/theOut have a single writer each and theSize is only "
             "changed by ++/-- (whole program); raiseSignal uses exchange, clearSignal unblocks first. FIFO/no-lost-wakeup over schedules is NOT decided.",
        technique="CFG dominance/ORDER with an event hook for announce-then-retest + whole-program who-writes",
        design="5/C56"),
    "C35": dict(
        text="tmSaneValues() returns 1 only with sec/min/hour/mday/mon inside their calendar ranges on every path (guard intervals), and "
             "parse_date_elements() returns a tm only through tmSaneValues() and a successful make_month(). Round-trip over all times, "
             "calendar correctness and the atoi()-based field conversion are not decided.",
        technique="guard-interval (GINT) from must-facts + CFG dominance/response",
        design="5/C35"),
    "C37": dict(
        text="Bounded reads of the rfc1035 decoders: every memcpy/dereference at buf + *off in NameUnpack/HeaderUnpack/RRUnpack/QueryUnpack is "
             "covered on its own path by a byte budget established by a guard against sz after the last cursor change and not yet spent by "
             "`*off += c`; compression recursion requires rdepth <= 64, ptr < sz and passes rdepth+1 and the remaining destination; a label is "
             "copied only if it fits ns - no - 1; rdata is copied with the checked rdlength; answers are unpacked only while off < sz. "
             "Decoded == encoded is not decided.",
        technique="BUDGET: path-sensitive byte-budget dataflow over the cursor idiom + CFG dominance + call-argument shape",
        design="5/C37"),
    "C38": dict(
        text="PROXY protocol rejection gates on all paths: v1 ports only from an unsigned decimal <= 65535 and after the declared/actual family "
             "match; nothing of a v1 line is interpreted before the <=107-byte CRLF-terminated interior was isolated, 'need more' only at the "
             "tokenizer end; v2 reads the header block only after version/command/family/proto bounds (against the named enumerators) and parses "
             "addresses/TLVs from a tokenizer over that length-delimited block; consumed sizes come from the tokenizers; bad magic only when "
             "enough bytes are buffered. Prefix-consistency and decoded == encoded are not decided.",
        technique="CFG dominance with history facts (status of tokenizer calls) + guard intervals + definition-shape checks",
        design="5/C38"),
    "C39": dict(
        text="HTCP: the (buf, sz) shrinking-window unpackers move buf and sz in lockstep, each 2-byte length field is consumed only after a fresh "
             "successful parseUint16, each variable-length move only after l > sz was rejected, in-place terminators only overwrite owned bytes; "
             "htcpHandleMsg copies header structs only after the matching size comparison and trusts hdr.length only within both bounds; receive "
             "buffers keep a spare byte. ICP: minimum size before dispatch, header copy only if len >= sizeof, len == header.length, URL must end "
             "exactly at the packet end. SNMP and use-after-free/abort freedom are not decided.",
        technique="LOCKSTEP/BUDGET path-sensitive window accounting + CFG dominance + array-size facts",
        design="5/C39"),
    "C22": dict(
        text="The character classes the request-line parser uses, folded from their defining source expressions, equal the RFC 9110/9112/3986 sets "
             "(TCHAR, DIGIT, ALPHA, HEXDIG, unreserved, URI characters, strict request-target set, strict delimiter {SP}, relaxed delimiters "
             "{SP,HTAB,VT,FF,CR}; the relaxed target set admits no other control byte); method = prefix(TCHAR, 32) + delimiter, URI = "
             "prefix(RequestTargetCharacters()); strict mode accepts exactly one delimiter and exactly one CR; parseRequestFirstLine returns 1 only "
             "after all four field parsers succeeded, the version delimiter was checked unless HTTP/0.9, and nothing is left after the URI. "
             "Full language equivalence with the ABNF is not decided.",
        technique="constant folding of CharacterSet-defining expressions (ENUMTABLE) against RFC oracle sets + CFG dominance with history facts + guard intervals",
        design="5/C22"),
    "C05": dict(
        text="The pipeline list is a strict FIFO (only push_back in add, pop_front in popMe guarded by which==front; whole-program callers confirmed); "
             "a response is handed to the connection only for the stream equal to pipeline.front() with no 1xx pending, the HTTP/1 sender writes only "
             "through pipeline.front(), deferred replies are replayed only for the head stream with its own saved parameters and at most one deferral "
             "per stream; new requests are parsed only below the prefetch limit. Which body belongs to which response, the FTP server path and async "
             "re-entrancy between gates are not decided.",
        technique="whole-program who-calls/who-writes + operation table on one member + CFG dominance and definition provenance of call arguments",
        design="5/C05"),
    "C06": dict(
        text="Wiring of the blind relay: every copy/copyRead call uses one of the two mirrored (from,to,handler) triples with the byte count accepted "
             "by keepGoingAfterRead, copy() writes exactly from.buf/len, only copy() and the CONNECT-200 writer write to tunnel sockets, a buffer is "
             "read into only when empty and refilled only after its write was accounted in full, data is relayed only after a successful non-empty "
             "read to an open peer, and on EOF/closure the peer is closed only when nothing is queued / no write is pending; in clientProcessRequest the request-body machinery is unreachable for CONNECT (bytes after the header stay in "
             "inBuf for the tunnel). Payload equality and "
             "ordering under segmentation are not decided.",
        technique="call-argument table (mirrored sibling directions) + whole-program who-calls/who-writes + CFG dominance/must-pass",
        design="5/C06"),
    "C15": dict(
        text="Http::Stream::buildRangeHeader turns a reply into 206 only for status 200 (decided per StatusCode enumerator) with a known, consistent "
             "length, no Content-Range, successfully canonised non-complex ranges, a matching If-Range on hits and within the offset limit; otherwise "
             "ignoreRange(); a 206 always gets Content-Length from prepPartialResponseGeneration and Content-Range/multipart framing. packRange "
             "appends and accounts exactly lengthToSend() bytes and advances both cursors by it; lengthToSend is bounded by the remaining debt unless "
             "open-ended. The bytes delivered and canonize() itself are not decided.",
        technique="CFG dominance with flag-local constant propagation, per-enumerator case exclusion, path-sensitive disjunctions, must-pass, same-variable argument checks",
        design="5/C15"),
    "C32": dict(
        text="On all CFG paths of EscapeSequences()/html_quote(): the table holds a well-formed, pairwise distinct entity for each of < > \" & ' and a "
             "bounded numeric form for the control/8-bit range; a byte is copied raw only when its own table entry is empty; the output buffer is sized "
             "strlen*M+1 with M (and the copy bound) >= the longest escape and the cursor advances by the copied length. Reversibility beyond distinct "
             "well-formed entities is not decided.",
        technique="must-pass + dominance over the CFG, constant folding of table stores, guard-interval check of the allocation multiplier",
        design="5/C32"),
    "C33": dict(
        text="For every %code case of ErrorState::compileLegacyCode (37 cases + default, flag local propagated) any non-literal value reaches the page only "
             "through html_quote(), except in the confirmed table {D,g,l,L,O,S,W,NUL,default} where only that entry's confirmed source may go unquoted; "
             "build.output has no other writers; the FTP listing producer html/URL-escapes every use of entry names and link targets. Template files, "
             "@Squid{logformat} output and raw unparsed listing lines (server content) are not decided.",
        technique="per-case switch folding with flag-local constant propagation and path-sensitive taint markers; who-writes; sink whitelist with carrier closure",
        design="5/C33"),
    "C34": dict(
        text="For every Format::Quoting enumerator the record write in Format::assemble is preceded by that enumerator's quoting call; and, decided for each "
             "of the 256 input byte values over the CFG of QuoteMimeBlob, log_quoted_string, strwordquote and rfc1738_do_escape (with the exact flags "
             "passed), CR/LF and other control/8-bit bytes and each scheme's escape introducers are never copied raw, CR/LF are written as two-byte "
             "escapes, and output buffers are sized >= the per-byte expansion. Exactly-one-record and full reversibility are not decided.",
        technique="enumerator-wise switch folding + must-pass; per-byte concrete branch evaluation (exhaustive over 0..255) on the CFG; expansion bound vs allocation multiplier",
        design="5/C34"),
    "C48": dict(
        text="Copy-on-write discipline of SBuf: in every SBuf method a write through store_ (store_->mem[..], store_->size, MemBlob mutators) or through the "
             "pointer handed out by rawSpace()/bufEnd() happens only after cow()/rawSpace()/reAlloc()/reserve*() on all paths, or with store_->LockCount()==1 or "
             "canAppend() established; cow() returns without reallocating only for an exclusively owned blob; reAlloc installs a fresh blob; rawSpace hands out "
             "the tail only after canAppend() or cow(); MemBlob::append/appended/syncSize modify the blob only past their Must() guards. Equivalence with "
             "std::string over histories is not decided. append/assign/Printf pin their source before any reallocation of the destination; operator=='s identity "
             "fast path requires equal store, offset and length.",
        technique="store-write site enumeration over resolved member accesses + must-pass/dominance facts per site",
        design="5/C48"),
    "C45": dict(
        text="For every CFG path of clientAccessCheck, clientAccessCheckDone and doCallouts: the http_access step always starts a check on Config.accessList.http "
             "(constant denial when unset); a non-allowed answer always becomes a 403/407/401 error before doCallouts; processRequest() and all later callout steps "
             "run only with the error last seen null and the http_access step marked done; the error is cleared only after delivery. Whole-program, processRequest "
             "has one caller and http_access_done / error have only the confirmed writers. ACL evaluation itself (C44) is not decided.",
        technique="path-sensitive must-fact dataflow with last-seen flag values in the product environment, RESPONSE/ORDER, whole-program who-calls/who-writes",
        design="5/C45"),
    "C46": dict(
        text="On all paths of the proxy_auth chain (AuthenticateAcl, the two auth ACL match()es, matchProxyAuth, authenticateUserAuthenticated, UserRequest::authenticated, "
             "static UserRequest::authenticate, tryToAuthenticateAndSetAuthUser): an allow/match verdict is produced only when the state machine reported AUTH_AUTHENTICATED, "
             "which requires credentials()==Ok on a valid request; pending/challenge answers become -1 plus markFinished(answer); ACCESS_AUTH_REQUIRED is answered with 407 "
             "for non-bumped forward-proxy requests. Identity mixing across schedules, credential caches and scheme decoders are not decided.",
        technique="CFG dominance, per-enumerator switch folding, path-sensitive disjunction, constant propagation of the status local, who-calls/who-writes",
        design="5/C46"),
    "C44": dict(
        text="For every path of the four inner-node doMatch() functions, Tree's action lookups and the checklist match/resume/implicit-answer functions: a rule counts as "
             "mismatched only when its child mismatched while the checklist could keep matching (a suspended or failed child yields -1); the winning action is the one at the "
             "matched rule's index; suspension records a breadcrumb and resumption continues from it; the implicit answer is the exact reversal table and is computed only for "
             "an unfinished, idle check; the async retry budget is reset per visited tree position and refuses a lookup only at the same position. "
             "Equality with a reference evaluator over all rule lists is not decided.",
        technique="verdict tables checked against path-sensitive must-facts, RESPONSE/ORDER, reaching-value tracking, structural definition checks",
        design="5/C44"),
    "C61": dict(
        text="On all paths of CacheManager::start no action is created, run or forwarded and no menu page is built unless CheckPassword() returned 0 for the parsed command; "
             "CheckPassword returns 0 only for a configured \"none\", denies on \"disable\", and otherwise returns isPwReq (no line) or the comparison with the supplied "
             "password; PasswdGet returns only the matching line's password. Password extraction from URL/Authorization and the http_access part (C45) are not decided.",
        technique="CFG dominance, RESPONSE, return-kind table, who-calls",
        design="5/C61"),
    "C62": dict(
        text="For all paths of the HTTP/1 parser and its callers: a MIME block is accepted only below the limit the caller passed (Config.maxRequestHeaderSize / "
             "maxReplyHeaderSize); an over-limit block or request line always sets 601/414 and fails the parse; that failure always becomes an aborted request with "
             "parsed_ok == 0, an ERR_TOO_BIG 431/414 reply and no clientProcessRequest(); on the server side it becomes a status that can only end in fwd->fail(). "
             "firstLineSize() counts every stored request-line component; boundary behaviour under incremental arrival is not decided.",
        technique="CFG dominance over normalised comparison atoms, RESPONSE chains parser -> client/server, call-argument provenance, who-calls/who-writes",
        design="5/C62"),
    "C20": dict(
        text="For every path from Client::setFinalReply through (all overrides of) haveParsedReplyHeaders to maybePurgeOthers: a reply with status < 400 to a method for "
             "which purgesOthers() holds (true for POST/PUT/DELETE/OTHER, per enumerator) always triggers eviction of the request URL and of same-host or relative Location "
             "and Content-Location URLs, for every method key with respMaybeCacheable(); other-host absolute URLs are never purged. What evictIfFound() removes across stores "
             "and replies bypassing setFinalReply are not decided.",
        technique="path-sensitive disjunction over guards and passed-events (must-pass on all exits), whole-program override enumeration, per-enumerator switch folding, RESPONSE on the loop",
        design="5/C20"),
    "C36": dict(
        text="At every base64_decode_update() in the HTTP core the destination was obtained with capacity BASE64_DECODE_LENGTH(len) (+1 where a terminator is "
             "written) over the same len passed as input length; decoded text is terminated/kept only if decode_update and decode_final both succeeded; decoded "
             "credentials containing CR or LF are released before returning; the user name ends at the first colon and the password is the text after it. "
             "The codec's own round-trip (lib/base64.c) and helper programs are not decided.",
        technique="call-argument/allocation-expression agreement (ARGS) + CFG dominance with history facts + response rule",
        design="5/C36"),
    "C21": dict(
        text="Commit discipline of the incremental request parser: buf_ and parsingStage_ change only at checkpoints reached after every field parser, the LF "
             "search or the MIME terminator succeeded; failures and need-more verdicts leave them untouched; each stage step runs only under its own stage on the "
             "caller's whole buffer; the parser object and inBuf stay in sync across reads; leading-empty-line skipping never becomes final for lack of a lookahead "
             "byte (found and repaired: a CRLF split between reads gave 400). Equality of outcomes over all inputs and splits is not decided.",
        technique="commit-discipline dominance/response rules + lookahead rule over the incremental parser CFGs + unit-local who-writes",
        design="5/C21"),
    "C23": dict(
        text="Status comes from int64(v,10,false,3) and is bounded to [100,599] on every normal return, the version from int64(v,10,false,1); the HTTP/0.9 "
             "fallback is reachable only when neither magic matched nor buf_ is a proper prefix of one; msgProtocol_, buf_ and completedStatus_ are committed "
             "together in program order after the throwing step, with handlers leaving state untouched. Reason-phrase grammar and outcome equality across splits "
             "are not decided.",
        technique="guard-interval, argument-constant and checkpoint-order rules on ResponseParser",
        design="5/C23"),
    "C24": dict(
        text="parseChunkSize: 0x/0X rejection precedes int64(.,16,false) and a hit always throws; sizes are stored only from the parsed non-negative value with "
             "atEnd false; need-more only at end of input. parseChunkBody: copy, consume and decrement use one min()-bounded amount in a fixed order. CRLF is "
             "required before every chunk-end/suffix checkpoint, every stage change follows a buf_ checkpoint, InsufficientInput only at end of input. Decoded-byte "
             "equality is not decided.",
        technique="ORDER/ARGS/response rules and an all-or-nothing sequence check on TeChunkedParser",
        design="5/C24"),
    "C25": dict(
        text="HttpHeader::parse never accepts a block with NUL, a missing LF, a CR-only request line, a blank continuation, an unparsable field, or a folded/"
             "bare-CR Content-Length/Transfer-Encoding; HttpHeaderEntry::parse returns nullptr for every listed malformation, trims only bounded whitespace and "
             "stores exactly the (name, value) spans; packInto emits name, ': ', value, CRLF for every stored entry. parse-pack identity is not decided.",
        technique="rejection-gate response/dominance rules + pack-sequence (SIBLING) comparison",
        design="5/C25"),
    "C26": dict(
        text="ContentLengthInterpreter: value/sawGood are written only by checkValue after the findDigits, httpHeaderParseOffset, non-negative and goodSuffix "
             "gates and never once a value exists; a second value is flagged bad unless equal under relaxed parsing; lists are never kept and are bad under strict "
             "parsing; nobody else writes the verdict fields (whole program); HttpHeader::parse keeps a Content-Length only if checked, removes/flags bad ones and "
             "re-adds only clen.value with sawGood and !sawBad. Numeric exactness (C27) is not decided.",
        technique="gate dominance/response, provenance (ARGS) and whole-program who-writes",
        design="5/C26"),
    "C29": dict(
        text="Every HttpHdrCcType has its table row, RFC name and a case in both parse and packInto; a numeric directive's bit is set only after a successful "
             "non-negative conversion into its own member, an invalid value must run the directive's clear method (fails for max-stale: known finding), pack "
             "prints the same member; flags use their own setter, list values are appended only after a successful quoted-string parse, duplicates are skipped; "
             "the converter must not be atoi-class (it is: known finding). Value round-trip equality is not decided.",
        technique="enum/table/switch exhaustiveness (ENUMTABLE), per-case dominance/response, banned-callee (LOSSY) rule",
        design="5/C29"),
    "C01": dict(
        text="Completeness clause ('a shortened body is never presented as complete') on all paths: HttpStateData::writeReplyBody marks the virgin reply whole only "
             "with a reason set under one of the three framing-complete conditions and otherwise fails on EOF; the chunked path marks whole only after the decoder "
             "reported the last-chunk; the chain markParsedVirginReplyAsWhole -> completeForwarding -> markStoredReplyAsWhole -> FwdState::completed -> "
             "completeSuccessfully has only the confirmed callers/writers (whole program) and each link requires the previous mark; replyStatus returns "
             "STREAM_COMPLETE only for a non-aborted, good-length, fully transferred reply; writeComplete never reuses the connection after UNPLANNED_COMPLETE/FAILED; "
             "packChunk uses one length. Byte equality and segmentation are not decided.",
        technique="CFG dominance with flag-local constant propagation + path-sensitive disjunctions + whole-program who-calls/who-writes chain + case exclusion",
        design="5/C01"),
    "C02": dict(
        text="Framing-end clause: the chunked terminator is emitted (two sites) only with receivedWholeRequestBody established and sentLastChunk recorded first; "
             "that flag is set only by the producer's end-of-body notification (whole program); a data chunk's size line and payload use one non-zero length; BodyPipe "
             "buffer changes are always followed by the matching postAppend/postConsume with the same amount and only those write the produced/consumed counters; the "
             "chunked request body is declared finished only when the chunk parser reported completion, after the size-limit verdict. Byte equality is not decided.",
        technique="CFG dominance at every emitter of the terminator literal + response (must-pass after event) + same-variable argument checks + whole-program who-writes",
        design="5/C02"),
    "C31": dict(
        text="AnyP::Uri::Encode emits each non-ignored byte as \"%%%02X\" of that byte cast through unsigned char and copies raw only what prefix(_, ignore) matched; "
             "Decode appends (hex1 << 4) | hex2 only after '%' and two single-digit hex int64() reads and returns nullopt on any other sequence; rfc1738_unescape reads "
             "s[j+2] only after fromhex(s[j+1]) >= 0 (fromhex is negative for NUL), writes only s[i] with i advancing by one and j never moving back. "
             "decode(encode(x)) == x is not decided.",
        technique="call-argument shape (format literal, cast chain, operator tree) + CFG dominance with history facts + guard intervals",
        design="5/C31"),
    "C08": dict(
        text="Descriptor-table bookkeeping: Number_FD changes only in fd_open(+1)/fd_close(-1) and fd_close/comm_close_complete have only the confirmed callers (whole program); "
             "comm_close_complete releases the table entry and the OS descriptor of the same fd on every path; file_close releases both or neither; once _comm_close set "
             "close_request every path runs the close handlers and schedules comm_close_complete, and a closing descriptor is never closed twice; accepted/created sockets are "
             "registered on every path after the failure check. Leak freedom over job lifetimes and liveness are not decided.",
        technique="whole-program who-writes/who-calls + ORDER (must-pass on all exits) + response rules",
        design="5/C08"),
    "C09": dict(
        text="Bounded-write clause in the 11 anchored parser/forwarding files: every memcpy/xstrncpy/strncpy/strncat/snprintf/memset into a destination of constant array type "
             "has a size the front end evaluates to <= the array size (or a conditional bounded by it), writes into locally allocated buffers are limited by the allocation "
             "size expression, and unbounded strcpy/strcat/sprintf/gets into fixed arrays are banned. Use-after-free, assertion reachability and SBuf/Tokenizer internals are "
             "not decided.",
        technique="resolved-callee site enumeration + declared array sizes and front-end constant evaluation of size arguments (GINT) + allocation/limit agreement (ARGS)",
        design="5/C09"),
    "C10": dict(
        text="Hit-validation gates on all CFG paths: clientReplyContext::cacheHit serves/revalidates an entry only with no read error, mayStartHitting(), not ENTRY_ABORTED and "
             "a matching store id, else processMiss(); validToSend()/checkCachable refuse released, aborted and bad-length entries; truncation is sticky (lengthWentBad -> "
             "ENTRY_BAD_LENGTH + releaseRequest; STORE_OK has only the confirmed writers); replyStatus returns STREAM_COMPLETE only for an unaborted, good-length entry that "
             "delivered the expected size; swap-in validates URL/key metadata before any disk byte is used; disk/shared-memory/rock read completions hand bytes out only "
             "after their error and identity checks. Version mixing under concurrent replacement is not decided.",
        technique="CFG dominance / response / must-pass from switch cases + whole-program who-calls/who-writes",
        design="5/C10"),
    "C11": dict(
        text="HttpStateData::reusableReply cannot reach a caching decision with request or reply CC no-store, reply CC private, or an authenticated request lacking exactly "
             "the public/must-revalidate/s-maxage exemptions; haveParsedReplyHeaders makes such entries private on all paths and is the only consumer of the decision; "
             "HttpRequest::maybeCacheable/clientInterpretRequestHeaders/storeCreateEntry give a public key only to cachable requests; HttpHdrCc::parse sets the restrictive "
             "directive bits on every path of their cases. Default settings (refresh_pattern ignore-*, Surrogate-Control cut).",
        technique="CFG unreachability under assumed atoms + exact guard matching + must-set from switch cases + whole-program who-calls",
        design="5/C11"),
    "C12": dict(
        text="Staleness gates: FRESH_*/STALE_* reason constants are ordered around the refreshCheckHTTP cut; refreshCheck returns a fresh reason only with the matching "
             "freshness fact established and never with ENTRY_REVALIDATE_ALWAYS, a stale ENTRY_REVALIDATE_STALE entry or an exceeded request max-age; s-maxage beats max-age "
             "beats Expires in hdrExpirationTime; cacheHit sends a hit only after refreshCheckHTTP() was false (listed exceptions), otherwise processExpired/processMiss, which "
             "always forward or answer with an error; no-cache requests bypass the lookup; must-revalidate/s-maxage replies get the revalidation flags. Clock/age arithmetic "
             "is not decided.",
        technique="enumerator table ordering + CFG dominance/unreachability/response + definition closure of locals",
        design="5/C12"),
    "C13": dict(
        text="Variant-selection gates: cacheHit consults varyEvaluateMatch on all paths and serves nothing under VARY_OTHER/VARY_CANCEL; VARY_MATCH is returned only after the "
             "request's mark compared equal to the entry's; the public key digests the request's vary mark; the mark is assembled from the reply's Vary list and the request's "
             "header values; Vary:* forces ENTRY_REVALIDATE_ALWAYS; MemObject::vary_headers has only the confirmed writers. Equality semantics of the mark are not decided.",
        technique="CFG dominance / response / per-enumerator switch unreachability + whole-program who-writes + definition closure",
        design="5/C13"),
    "C14": dict(
        text="Validator gates: processConditional sends 304/412 only with the matching precondition facts (IMS not modified and no If-None-Match; matching If-None-Match; "
             "failed If-Match) and only for a stored 200; the full response is unreachable after a failed If-Match, matching If-None-Match or unsatisfied IMS; 304 only for "
             "GET/HEAD (per-enumerator), 412 otherwise; strong/weak comparison selection in hasOneOfEtags/etagIsStrongEqual; modifiedSince comparison direction; a 304 from the "
             "origin updates the old entry before it is served. Entity-tag string comparison and date parsing are not decided.",
        technique="CFG dominance / unreachability / response + per-enumerator switch folding + whole-program who-calls",
        design="5/C14"),
    "C16": dict(
        text="Publish-after-write gates of the rock store: the anchor/slice links and the writing->reading switch happen only in handleWriteCompletionSuccess, reached only for "
             "an expected, error-free write completion (else the entry is freed); the slot header is filled before it is copied and written; the rebuild (C57) and swap-in "
             "metadata validation gates reject incomplete chains; ufs logs SWAP_LOG_ADD only after an error-free complete swap-out and rebuild accepts only sane, "
             "size-consistent, public-key records. Crash points are not enumerated.",
        technique="whole-program who-calls/who-writes + CFG dominance / response / ORDER (must-pass)",
        design="5/C16"),
    "C57": dict(
        text="Rock::Rebuild gates: an entry is validated/closed only when its chain ended and the mapped payload sizes add up to the recorded entry size; each slot is marked "
             "and used once (no loops, no sharing); slots are loaded only from sane non-empty headers within bounds; a second inode, failed import or size disagreement frees "
             "the entry and nothing is mapped afterwards. DbCellHeader::sane() body and value flow of sizes are not decided.",
        technique="CFG dominance / response / unreachability-after-event + who-calls within the unit",
        design="5/C57"),
    "C60": dict(
        text="ICAP bypass/echo gates of Adaptation::Icap::ModXact: failure bypass only while canStartBypass and not retriable; canStartBypass has only the confirmed writers and is "
             "cleared before any adapted byte or virgin-body consumption; 204 responses always echo through prepEchoing, which copies the packed virgin header; sendingVirgin "
             "is set only by the echo preparers. Message integrity across ICAP server behaviours is not decided.",
        technique="CFG dominance / ORDER / response + whole-program who-calls/who-writes",
        design="5/C60"),
    "C59": dict(
        text="EventScheduler list discipline: schedule() links the new node where the scan ended or broke on the strict `>` comparison (ties keep submission order) with "
             "next set before the link; checkEvents fires only the head, only when timeRemaining() == 0, and unlinks it; cancel deletes only a node matching func/arg after "
             "unlinking exactly it; ev_entry::next and EventScheduler::tasks have only the confirmed writers. Histories are not decided.",
        technique="CFG dominance with comparison-operator exactness + ORDER + whole-program who-writes",
        design="5/C59"),
    "C47": dict(
        text="Reply-to-request binding in helper.cc: popRequest returns only the request indexed under the given ID (or the queue front without concurrency); helperHandleRead "
             "binds a request only when not ignoring, none is bound, and the channel ID is complete (needsMore false), with the ID taken from strtol(msg); an unknown ID makes "
             "the reply ignored to its end; helperReturnBuffer calls back only the bound request, only for a complete reply and valid callback data, then clears the binding; "
             "the request queue changes only in the confirmed functions. Stateful helpers and reply parsing are not decided.",
        technique="CFG dominance / response + whole-program who-writes on the queue members",
        design="5/C47"),
    "C51": dict(
        text="ClpMap capacity/LRU gates on the template: add() inserts only past the ttl/limit/size checks, after del(key) and trim(wantSpace), at the front, with memCounted and "
             "memUsed_ updated by the same amount; erase subtracts exactly memCounted and removes from both containers; trim removes only the least-recently-used end and "
             "only while space is short; find moves hits to the front and erases expired ones; memUsed_/memLimit_ have only the confirmed writers. Reference-model agreement "
             "over histories is not decided.",
        technique="CFG dominance / ORDER / response on the instantiated template + who-writes over all members",
        design="5/C51"),
    "C41": dict(
        text="Decides (a) the gate/argument-role protocol of Acl::SplayInserter<T>::Merge on every loop-body path (new value dropped only if covered by the old one, old "
             "value removed only if covered or merged, one comparator, loop ends only on a successful insert), (b) that SplayInserter<char*>::IsSubset and the "
             "equal-suffix/mismatch parts of matchDomainName(h,d,mdnNone) are pure decision tables over their comparison atoms equal to a reference table on "
             "representatives of every region, (c) Compare<char*>'s gate and operand roles, (d) the match/parse lookup wiring and two-sided tolower() comparisons. "
             "It does not decide that these tables together realise set membership for all domain lists and insertion orders, the splay tree, or matchDomainName's prologue.",
        technique="path-enumerated loop-body protocol + finite decision-table folding over comparison atoms (abstract evaluation of the CFG over ordering representatives)",
        design="5/C41 (revised in 0.5)"),
    "C42": dict(
        text="Decides the Merge gate/role protocol for acl_ip_data*; that Compare, IsSubset, aclIpAddrNetworkCompare and ACLIP::match touch their operands only through "
             "Ip::Address orderings and family flags and equal a reference decision table on every ordering of the range ends; the operand roles of MakeCombinedValue, "
             "firstAddress/lastAddress, the constructor, parse and parseGlobal (all/ipv4/ipv6). It does not decide that insertion order and lookup order agree for all "
             "address sets, Ip::Address arithmetic (applyMask, turnMaskedBitsOn, matchIPAddr), FactoryParse's text decoding, or the splay tree.",
        technique="exhaustive ordering-table folding + loop-body path protocol + operand-role checks",
        design="5/C42 (revised in 0.5)"),
    "C43": dict(
        text="Decides that ACLIntRange::parse stores [port1, port2+1) exactly when port2 >= port1 (port2 = port1 without '-'), that match(i) probes [i, i+1) against every "
             "element of the same list and answers true exactly on a non-empty intersection, and that Range<int>'s constructor, size() and intersection() are (start,end), "
             "max(0,end-start) and (max of starts, min of ends), by folding the code over representatives of every ordering and compared constant. xatos() text decoding, "
             "token splitting and overflow at INT_MAX are not decided.",
        technique="decision-table folding over ordering representatives with a small abstract interpreter for the parse loop body",
        design="5/C43 (revised in 0.5)"),
    "C49": dict(
        text="Decides, on every CFG path of mem_hdr and mem_node: argument roles and bounds of both memcpy()s; that node length, the high-water mark and the returned "
             "count move by exactly the copied amount; the ordering tables that gate node removal (only nodes ending at or below the release offset, never the last, never "
             "write-pending), node reuse (canAccept), lookup equality (NodeCompare) and contiguity; that the copy and write loops look up the node for the current offset and "
             "advance each cursor once per iteration by the returned count; closed by who-calls over removal and the worker functions. Byte-for-byte conformance over "
             "write/free/read histories, the splay container and integer conversions are not decided.",
        technique="symbolic linear normal forms of expressions + ordering decision tables over path-sensitive must-facts + loop bookkeeping checks in the product CFG + whole-program who-calls",
        design="5/C49 (revised in 0.5)"),
    "C50": dict(
        text="Decides from the loop shape that every CharacterSet mutator is pointwise (single constant store gated by the tested source element, cursors in lock-step from "
             "begin() to end(), addRange inclusive, 256-slot zeroed storage, complement = logical_not over the whole table): exactly what the folding model used for C22 "
             "assumes. For each Tokenizer operation: which SBuf search runs with which set, the zero-length/no-match failure gates, that the amount consumed is the matched "
             "length and the consumed piece is what is returned, and that failure paths consume nothing (token() restores its copy). Set algebra and maximal munch over all "
             "byte values, CharacterSet::operator[] and the SBuf search primitives are taken as specified.",
        technique="loop-shape recognition with lock-step cursor checks + ordering decision tables (path-sensitive for disjunctions) + structural argument-role patterns",
        design="5/C50 (revised in 0.5)"),
    "C17": dict(
        text="Completeness gates of the ufs clean swap.state path on all CFG paths: the clean-log walk writes every entry canLog() accepts and canLog refuses only for the six "
             "confirmed reasons (no disk file, not swapped out, unsized, release-requested, private, special); the record image is fully set and checksummed before it is "
             "buffered, the buffer advances and resets only after a successful write; the new log carries its header and is installed (renamed over swap.state) only after "
             "an error-free final flush; replay drops a record only for the confirmed reasons (end of log, insane, not ADD, bad file number, private, file number in use, "
             "newer indexed entry) and the record's fields reach addDiskRestore/hashInsert positionally unchanged. Not decided: rock cache_dirs (Rock::Rebuild "
             "conservatively drops overwritten entries), that the walker visits every entry, sane() value ranges, the dirty-log writer, the directory-scan rebuild, "
             "file-system failures, byte identity of object files, and the restart history itself.",
        technique="RESPONSE + reason tables (path-sensitive disjunction) + ORDER + positional sibling agreement over the clang CFG",
        design="5/C17 (revised in 0.5)"),
    "C18": dict(
        text="Structural preconditions of sharing one fetch, on all CFG paths: a cachable GET/HEAD miss that may initiate collapsing is always offered via allowCollapsing "
             "before its fetch starts, with the requires-collapsing flag set before the key goes public; a request allowed to collapse keeps the found entry and reaches no "
             "forgetHit(); a revalidation slave never calls FwdState::Start; the refusal reasons of startCollapsingOn/onCollapsingPath are exact; a collapsed reader's "
             "synchronisation ends only as synced, aborted, or still waiting for a live writer on an entry not marked for deletion; writer end, abandonment and IPC queue "
             "messages always trigger Broadcast, Notify and syncCollapsed. The count 'at most one origin request' over schedules is NOT decided, nor are writer "
             "collisions, exception handlers, IPC delivery, or byte identity/truncation (C01/C10).",
        technique="reason tables with unit propagation over short-circuit conditions + RESPONSE/ORDER + path-sensitive outcome table",
        design="5/C18 (revised in 0.5)"),
    "C19": dict(
        text="Program-order gates of sharing entries through shared memory and rock anchors, on all CFG paths and with whole-program caller sets: the shared-memory writer "
             "is reached only for non-aborted entries and publishes (closeForWriting, in completeWriting only) only a STORE_OK entry after copying everything received; "
             "readers are admitted before completion only for known-size entries and after the anchor basics are set; a slice's size grows only by, and after, a "
             "successful copy into its page; copyFromShm takes the eof snapshot before the size snapshot, uses only the snapshot for lengths and advances only over a "
             "slice seen stable; a failed anchored load throws; rock anchoring derives STORE_OK/SWAPOUT_DONE solely from anchor.complete() under a read lock. "
             "Interleavings and memory ordering are NOT decided (locks: C53-C55; reader completion: C10 M1; rock publish: C16), nor cross-worker invalidation, "
             "IpcIoFile or byte identity.",
        technique="ORDER / dominance / case exclusion / whole-program who-calls on publish-after-copy and snapshot discipline",
        design="5/C19 (revised in 0.5)"),
}





NOT_APPLICABLE = {
}

# clauses added while strengthening the modules against seeded changes (appended to the claim text by bin/genmanifest)
ADDENDA = {
    "C18": "A displaced in-progress entry stays shareable for the clients already collapsed on it (release(true) at the four displacement sites).",
    "C40": "Directory listings: token-array subscripts are inside [0, count) with count <= the array size, and a cursor into the line is advanced only off a non-NUL byte. Address strings: a width-limited last field is followed by a test on the next byte (found and repaired: \"...,0,1000\" was accepted as port 100).",
    "C43": "parse()/match() are decided by a concrete Range interpreter: the integers covered after a token are those before plus [port1, port2]; match(i) is true exactly for start <= i < end.",
    "C48": "Limit tests over caller-supplied 32-bit sizes cannot wrap (found and repaired: SBuf::chop and SBuf::rawSpace); backward-scan cursors start inside the content.",
    "C50": "The pointwise-mutator rule also accepts the index form (i < N, N >= 256 or chars_.size()).",
    "C51": "trim(wantSpace) runs only after the value being replaced was deleted.",
    "C01": "The 'stored whole' verdict is cleared whenever FwdState re-forwards (a discarded 502's verdict cannot complete the retry's truncated reply).",
    "C02": "A server connection is judged persistent only with the whole request sent; identity request bodies are consumed from inBuf by exactly the amount the body pipe accepted.",
    "C05": "kick() always consults pipeline.front() once the connection is known open and releases a deferred front regardless of readMore; no request is parsed while a request body is being read. Responses queued behind the one in progress survive: only the two confirmed callers may stopReceiving(); the size of the request body just read is attributed to pipeline.back() (found and repaired: finishDechunkingRequest stamped it on pipeline.front()).",
    "C06": "The write-completion handlers close their own side only when the other side is established gone (mirrored).",
    "C08": "IdleConnList::push copies every live entry when the array grows and appends at theList_[size_]. checkTimeouts() sweeps the descriptor table up to and including Biggest_FD.",
    "C09": "Plus two crash preconditions: every function deleting header entries repairs the HttpHeader mask before returning (delById asserts on a stale mask) and every consumeInput() caller establishes a positive amount. In HttpStateData nothing but return follows mustStop().",
    "C10": "The rock reader issues a disk read only with the requested offset inside the current slice (the slot walk is a loop); ufs/aufs/diskd write failures must end the swap-out with an error (two known findings: BlockingFile and DiskThreadsDiskFile drop them).",
    "C13": "The mark value is escaped with flags that make the encoding injective ('%' and the double quote escaped).",
    "C14": "A match in an entity-tag list is sticky; a 304 is merged into the freshest reply.",
    "C15": "The first body chunk handed to the client stream is labelled with its true object offset (found and repaired: an advanced chunk labelled 0 corrupted 200 replies when the Range was ignored on a disk hit).",
    "C20": "The URL purged for a relative Location/Content-Location is rebuilt through Uri mutators that clear the cached canonical forms (found and repaired: addRelativePath did not).",
    "C21": "Buffer tests made before skipGarbageLines() do not count after it.",
    "C22": "Version digit strings are read through their first digit only when they have exactly one.",
    "C25": "Only the single CR of a CRLF line end is dropped before the bare-CR guards run.",
    "C26": "The list scan stops early only with sawBad.",
    "C28": "canonize() clips length to the representation after offset got its final value; only canonical specs are kept and none is dropped by merge(). The '-' of a range-spec counts only inside its own list item.",
    "C30": "The canonical path keeps every byte legal in path-and-query verbatim, in particular '?' (found and repaired: it was percent-encoded); every Uri mutator clears the cached canonical forms. Every trailing dot is removed before the empty-label rejection.",
    "C32": "The output cursor of html_quote is handed only to the escape copy. The quoted string is terminated only after the scan reached the source's NUL.",
    "C34": "terminateAll forgets leftover body/CONNECT bytes so that they are not logged as a second record.",
    "C35": "The formatter renders gmtime() with the IMF-fixdate layout and the parser inverts with timegm(); the month table is Jan..Dec in order.",
    "C38": "The TLV loop ends only at the end of the header block; addressFamily() is the exact both-IPv4 / both-IPv6 table. BinaryTokenizer::want asks for more input only when more is expected.",
    "C46": "Basic scheme: credentials become Ok only on helper result Okay; a changed password always resets the cached state. The credentials-cache key includes the request's key_extras; a helper verdict must be bound to the password it was computed for (known finding: HandleReply applies it to whatever password the shared record holds).",
    "C47": "Structural form: with concurrency a request leaves the queue only when its channel ID was found in the index.",
    "C57": "Publishing also requires the inode slot and agreement of the recorded entry size with the loaded size (found and repaired: truncated and inode-less chains were validated); the total compared with the loaded size is read after its last possible change. Known finding: walked slots are not checked to belong to the entry.",
    "C60": "The virgin-body cursors advance by exactly the amount handed on (accepted by the adapted pipe / appended to the write buffer).",
    "C61": "The built-in manager ACL of cf.data.pre matches the cache-manager URL of every known scheme."
}
