"""C12 Stale responses are not served without revalidation (DESIGN.md section 5, C12): staleness-decision and stale-hit gates."""
import json

from .. import expr as E
from .. import units
from ..flow import ev_call, ev_return, ev_assign, ev_any, ev_exit
from .C11 import ev_ebit_set

CC = "Http::Message::cache_control"
FRESH_NEEDS = {  # FRESH_* reason -> the only guard that may justify it
    "FRESH_EXPIRES": "fresh", "FRESH_LMFACTOR_RULE": "fresh", "FRESH_MIN_RULE": "fresh",
    "FRESH_REQUEST_MAX_STALE_ALL": "max-stale", "FRESH_REQUEST_MAX_STALE_VALUE": "max-stale",
    "FRESH_OVERRIDE_EXPIRES": "override-expire", "FRESH_OVERRIDE_LASTMOD": "override-lastmod",
}


def anon_enum_with(ck, facts, enumerator):
    """{name: value} of the (possibly unnamed) enum that declares `enumerator` (facts.enum() cannot address unnamed enums)"""
    for u in facts.units:
        with open(units.cache_prefix(u) + ".idx.jsonl") as f:
            for ln in f:
                if ln.startswith('{"enum"') and json.dumps(enumerator) in ln:
                    d = dict((a, b) for a, b in json.loads(ln)["vals"])
                    if enumerator in d:
                        return d
    ck.broken("%s: enumerator %s not found" % (ck.pid, enumerator))


def run(ck):
    facts = ck.facts(["src/refresh.cc", "src/client_side_reply.cc", "src/client_side_request.cc", "src/http.cc", "src/store.cc", "src/HttpReply.cc"], whole=False)
    codes = anon_enum_with(ck, facts, "STALE_MUST_REVALIDATE")
    LIMIT = codes["STALE_MUST_REVALIDATE"]

    # ------------------------------------------------------------------ E: reason-code classes
    ck.rule("E1 ENUMTABLE: every FRESH_* reason < STALE_MUST_REVALIDATE <= every STALE_* reason; refreshCheckHTTP returns 0 only if Config.onoff.offline or "
            "refreshCheck(entry, request, 0) < that limit, and 1 otherwise")
    ck.need(set(FRESH_NEEDS) <= set(codes), "C12: FRESH_* reason set changed: %s" % sorted(set(FRESH_NEEDS) - set(codes)))
    for n, v in sorted(codes.items()):
        good = (v < LIMIT) if n.startswith("FRESH_") else (v >= LIMIT) if n.startswith("STALE_") else False
        (ck.ok if good else lambda r, w, t: ck.violation(r, "E1|reason-class|%s" % n, w, t))("E1.reason-classes", "src/refresh.cc", "%s = %d is on the %s side of %d" % (
            n, v, "right" if good else "WRONG", LIMIT))
        if n.startswith("FRESH_") and n not in FRESH_NEEDS:
            ck.violation("E1.reason-classes", "E1|unknown-fresh-reason|%s" % n, "src/refresh.cc", "new FRESH reason %s has no confirmed guard" % n)
    http = facts.fn("refreshCheckHTTP")
    reason = ck.m_result_of(http, "refreshCheck")
    rets = ck.sites(ck.flow(http), ev_return(), "return", 1)
    for s in rets:
        x = E.strip(s.ev["x"])
        ok = isinstance(x, dict) and x.get("k") == "cond" and E.const(x.get("t")) == 0 and E.const(x.get("f")) == 1
        leaves = E.leaves(x["c"]) if ok else []
        lim = [t for t in leaves if E.m_cmp("<", reason, E.m_const(LIMIT))(t)]
        rest = [t for t in leaves if t not in lim]
        ok = ok and len(lim) == 1 and all(E.m_is_mem("offline")(t) for t in rest) and E.strip(x["c"]).get("op", "||") == "||"
        if ok:
            ck.ok("E1.http-threshold", s.where(), "refreshCheckHTTP = (offline || reason < %d) ? 0 : 1" % LIMIT)
        else:
            ck.violation("E1.http-threshold", "E1|refreshCheckHTTP|result-expr", s.where(), "refreshCheckHTTP result is '%s', expected (offline || reason < %d) ? 0 : 1" % (E.key(x)[:120], LIMIT))
    calls = ck.sites(ck.flow(http), ev_call("refreshCheck"), "refreshCheck()", 1)
    for s in calls:
        a = E.strip(s.ev["x"])["a"]
        if len(a) == 3 and E.const(a[2]) == 0 and E.m_is_ref(http.params[1]["d"])(a[1]):
            ck.ok("E1.http-checks-now", s.where(), "refreshCheckHTTP evaluates staleness at delta 0 for the client's request")
        else:
            ck.violation("E1.http-checks-now", "E1|refreshCheckHTTP|delta", s.where(), "refreshCheckHTTP calls %s (expected the request and delta 0)" % E.key(s.ev["x"]))

    # ------------------------------------------------------------------ F: refreshCheck
    rc = facts.fn("refreshCheck")
    stale = ck.m_result_of(rc, "refreshStaleness")
    guards = {"fresh": (E.m_cmp("==", stale, E.m_const(-1)), "refreshStaleness() == -1"),
              "max-stale": (E.m_calls("HttpHdrCc::hasMaxStale"), "request CC max-stale"),
              "override-expire": (E.m_mentions("RefreshPattern::(anonymous struct)::override_expire"), "refresh_pattern override-expire"),
              "override-lastmod": (E.m_mentions("RefreshPattern::(anonymous struct)::override_lastmod"), "refresh_pattern override-lastmod")}
    ck.rule("F1 refreshCheck: return FRESH_EXPIRES/LMFACTOR_RULE/MIN_RULE only with refreshStaleness()==-1 established; FRESH_REQUEST_MAX_STALE_* only with "
            "hasMaxStale() true; FRESH_OVERRIDE_* only under the matching refresh_pattern override flag; every return is a reason constant")
    fl = ck.flow(rc)
    rets = ck.sites(fl, ev_return(), "return", 10)
    byval = {v: n for n, v in codes.items()}
    nfresh = 0
    for s in rets:
        c = E.const(s.ev.get("x"))
        ck.need(c in byval, "C12: refreshCheck returns a non-reason value %s" % E.key(s.ev.get("x")))
        if c >= LIMIT:
            continue
        nfresh += 1
        m, text = guards[FRESH_NEEDS[byval[c]]]
        if s.has(m, True):
            ck.ok("F1.fresh-needs-guard", s.where(), "return %s requires %s" % (byval[c], text))
        else:
            ck.violation("F1.fresh-needs-guard", "F1|refreshCheck|%s|needs:%s" % (byval[c], FRESH_NEEDS[byval[c]]), s.where(),
                         "refreshCheck: 'return %s' is reachable without %s (facts: %s)" % (byval[c], text, ", ".join(s.fact_keys())[:300]), fl.witness(s))
    ck.need(nfresh >= 7, "C12: expected 7 FRESH return sites in refreshCheck, found %d" % nfresh)

    ck.rule("F2 UNREACH(refreshCheck -> any FRESH return) when (a) ENTRY_REVALIDATE_ALWAYS is set, (b) staleness > -1 and ENTRY_REVALIDATE_STALE is set, "
            "(c) request CC max-age=N with age > N, (d) request CC max-age=0 [reply CC immutable, flags.ignoreCc and refresh_pattern ignore-reload cut]")
    req = [p["d"] for p in rc.params if "HttpRequest" in p["t"]]
    ck.need(len(req) == 1, "C12: refreshCheck has no HttpRequest parameter")
    req_set = E.m_is_ref(req[0])
    always = ck.m_closure(rc, "ENTRY_REVALIDATE_ALWAYS")
    max_age = None
    for b in rc.blocks.values():
        for ev in b["ev"]:
            if ev_call("HttpHdrCc::hasMaxAge")(ev):
                max_age = E.root_decl(E.strip(E.strip(ev["x"])["a"][0]).get("e"))[1]
    ck.need(max_age, "C12: refreshCheck no longer reads request CC max-age into a local")
    req_cc = E.M(lambda t: E.strip(t).get("k") == "ref" and E.strip(t).get("dk") == "local", "local") & ck.m_closure(rc, CC, req[0])
    client = [(req_set, True), (E.m_is_mem("RequestFlags::ignoreCc"), False), (req_cc, True), (E.m_calls("HttpHdrCc::hasMaxAge"), True),
              (E.m_calls("HttpHdrCc::hasImmutable"), False), (E.m_mentions("RefreshPattern::(anonymous struct)::ignore_reload"), False)]
    scenarios = [
        ("F2.revalidate-always", "ENTRY_REVALIDATE_ALWAYS is set", [(always, True)]),
        ("F2.must-revalidate-stale", "the entry is stale and ENTRY_REVALIDATE_STALE is set",
         [(always, False), (E.m_cmp("<", E.m_const(-1), stale), True), (E.m_mentions("ENTRY_REVALIDATE_STALE"), True)]),
        ("F2.request-max-age", "the request has CC max-age=N and age > N", client + [(E.m_cmp("<", E.m_is_ref(max_age), E.m_any()), True)]),
        ("F2.request-max-age", "the request has CC max-age=0", client + [(E.m_is_ref(max_age), False)]),
    ]
    for rule, text, assume in scenarios:
        for m, v in assume:
            ck.need(ck.trigger_edges(rc, m, v), "C12: refreshCheck no longer tests %s (scenario %s)" % (m.desc, rule))
        fl = ck.flow(rc, assume=assume)
        bad = [s for s in fl.find(ev_return()) if (E.const(s.ev.get("x")) or 0) < LIMIT]
        if not bad:
            ck.ok(rule, rc.where(), "refreshCheck: only STALE reasons are reachable when %s" % text)
        for s in bad:
            ck.violation(rule, "%s|refreshCheck|fresh-reachable|%s" % (rule, byval.get(E.const(s.ev.get("x")), "?")), s.where(),
                         "refreshCheck: '%s' is reachable although %s (the hit would be served without contacting the origin)" % (s.desc(), text), fl.witness(s))

    ck.rule("F3 refreshStaleness: with an explicit expiry (entry->expires > -1) `return -1` (fresh) only with entry->expires > check_time established")
    rs = facts.fn("refreshStaleness")
    has_exp = E.m_cmp("<", E.m_const(-1), E.m_is_mem("StoreEntry::expires"))
    ck.need(ck.trigger_edges(rs, has_exp, True), "C12: refreshStaleness no longer tests entry->expires > -1")
    ck.sites(ck.flow(rs), ev_return(E.m_const(-1)), "return -1", 2)
    fl = ck.flow(rs, assume=[(has_exp, True)])
    when = [p["d"] for p in rs.params if p["t"] == "time_t"]
    ck.need(when, "C12: refreshStaleness lost its check_time parameter")
    ck.require_fact("F3.expiry-compared", fl, lambda ev: ev.get("e") == "ret" and (E.const(ev.get("x")) or 0) < 0,
                    E.m_cmp("<", E.m_is_ref(when[0]), E.m_is_mem("StoreEntry::expires")), True, "return <fresh>", why="(an expired entry would be reported fresh)")

    # ------------------------------------------------------------------ L: where the explicit lifetime comes from
    ck.rule("L1 PRIORITY(HttpReply::hdrExpirationTime): hasMaxAge() is consulted only with hasSMaxAge() established false (s-maxage wins for a shared cache); "
            "the Expires header is read only with cache_control null or hasMaxAge() false; a return computed from the directive value needs hasSMaxAge() or hasMaxAge() true")
    het = facts.fn("HttpReply::hdrExpirationTime")
    hdr = facts.enum("Http::HdrType")
    smax, maxa = E.m_calls("HttpHdrCc::hasSMaxAge"), E.m_calls("HttpHdrCc::hasMaxAge")
    fl = ck.flow(het)
    ck.require_fact("L1.s-maxage-first", fl, ev_call("HttpHdrCc::hasMaxAge"), smax, False, "hasMaxAge()",
                    why="(max-age would override s-maxage: a shared cache would serve the entry beyond its s-maxage lifetime)")
    uses_expires = ev_call({"HttpHeader::has", "HttpHeader::getTime"}, arg={0: E.m_const(hdr["EXPIRES"])})
    ck.require_any("L1.expires-last", het, uses_expires, [(E.m_is_mem(CC), False), (maxa, False)], "header.has|getTime(EXPIRES)", min_sites=2,
                   why="(Expires would override an explicit max-age/s-maxage lifetime)")
    age_local = set()
    for b in het.blocks.values():
        for ev in b["ev"]:
            if ev_call({"HttpHdrCc::hasSMaxAge", "HttpHdrCc::hasMaxAge"})(ev):
                for a in E.strip(ev["x"]).get("a", []):
                    n = E.root_decl(E.strip(a).get("e"))[1] if E.strip(a).get("k") == "un" else None
                    if n:
                        age_local.add(n)
    ck.need(len(age_local) == 1, "C12: hdrExpirationTime no longer reads s-maxage/max-age into one local (%s)" % sorted(age_local))
    ck.require_any("L1.lifetime-from-directive", het, lambda ev: ev.get("e") == "ret" and (age_local & E.mentions(ev.get("x"))), [(smax, True), (maxa, True)],
                   "return <date + directive value>", why="(the lifetime would be computed from a directive that is absent)")

    ck.rule("L2 HttpReply::hdrCacheInit sets expires from hdrExpirationTime(); StoreEntry::timestampsSet writes StoreEntry::expires only from a local every definition of "
            "which is derived from the reply's expires")
    hci = facts.fn("HttpReply::hdrCacheInit")
    ws = ck.sites(ck.flow(hci), ev_assign("HttpReply::expires"), "expires =", 1)
    for s in ws:
        if E.m_calls("HttpReply::hdrExpirationTime")(E.strip(s.ev.get("rhs"))):
            ck.ok("L2.expires-from-headers", s.where(), "hdrCacheInit: expires = hdrExpirationTime()")
        else:
            ck.violation("L2.expires-from-headers", "L2|hdrCacheInit|expires-source", s.where(), "hdrCacheInit sets expires from %s" % E.key(s.ev.get("rhs")))
    ts = facts.fn("StoreEntry::timestampsSet")
    from_reply = lambda t: t is not None and "HttpReply::expires" in E.mentions(t)
    for s in ck.sites(ck.flow(ts), ev_assign("StoreEntry::expires"), "expires =", 1):
        r = E.strip(s.ev.get("rhs"))
        if isinstance(r, dict) and r.get("k") == "ref" and r.get("dk") == "local":
            # the local's declaration may carry a placeholder constant only if an assignment derived from reply->expires is passed on every path
            asg = [ev for bb in ts.blocks.values() for ev in bb["ev"] if ev.get("e") == "asg" and E.m_is_ref(r["d"])(E.strip(ev.get("lhs")))]
            decl = [ev for bb in ts.blocks.values() for ev in bb["ev"] if ev.get("e") == "decl" and ev.get("d") == r["d"]]
            fl2 = ck.flow(ts, markers={"derived": lambda ev, asg=asg: any(ev is a for a in asg) and from_reply(ev.get("rhs"))})
            s2 = [x for x in fl2.find(ev_assign("StoreEntry::expires")) if x.bid == s.bid and x.idx == s.idx]
            good = bool(asg) and all(from_reply(ev.get("rhs")) for ev in asg) and all(from_reply(ev.get("init")) or (s2 and all(x.passed("derived") for x in s2)) for ev in decl)
            src = [E.key(ev.get("rhs")) for ev in asg] + [E.key(ev.get("init")) for ev in decl if ev.get("init") is not None]
        else:
            good, src = from_reply(r), [E.key(r)]
        if good:
            ck.ok("L2.entry-expiry-from-reply", s.where(), "timestampsSet: expires = %s, defined on every path from reply->expires" % E.key(r))
        else:
            ck.violation("L2.entry-expiry-from-reply", "L2|timestampsSet|expires-source", s.where(),
                         "timestampsSet sets StoreEntry::expires from %s, which is not derived from the reply's expires on every path (definitions: %s)" % (E.key(r), src))

    ck.rule("L1b HttpReply::hdrExpirationTime: a present Expires header always yields an explicit expiry: a value read with getTime(EXPIRES) is returned only through "
            "`e < 0 ? squid_curtime : e` (a malformed Expires such as \"0\" means expired now, not -1 = no explicit expiry, which would hand the decision to the "
            "last-modified heuristic), and the constant -1 is returned only with has(EXPIRES) established false or on the vary_ignore_expire Date == Expires path")
    hdefs = ck.local_defs(het)
    is_exp_time = lambda t: E.strip(t).get("k") == "call" and E.strip(t).get("f") == "HttpHeader::getTime" and E.const(E.strip(t)["a"][0]) == hdr["EXPIRES"]
    exp_locals = {n for n, ds in hdefs.items() if ds and all(is_exp_time(d) for d in ds)}
    has_exp = ev_call("HttpHeader::has", arg={0: E.m_const(hdr["EXPIRES"])})
    m_has_exp = E.M(lambda t: has_exp({"e": "call", "x": t}), "header.has(EXPIRES)")
    rfl = ck.flow(het)
    nret = 0
    for st in rfl.find(ev_return()):
        x = E.strip(st.ev.get("x"))
        mentions_exp = isinstance(x, dict) and (any(is_exp_time(n) for n in E.walk(x)) or bool(exp_locals & E.mentions(x)))
        if mentions_exp:
            nret += 1
            good = False
            if x.get("k") == "cond":
                c, pol = E.norm(x["c"])
                c = E.strip(c)
                neg_branch, other = (x["t"], x["f"]) if pol else (x["f"], x["t"])
                good = isinstance(c, dict) and c.get("k") == "bin" and c.get("op") == "<" and E.const(c["r"]) == 0 and bool(exp_locals & E.mentions(c["l"])) and \
                    "squid_curtime" in E.mentions(neg_branch) and bool(exp_locals & E.mentions(other))
            if good:
                ck.ok("L1b.malformed-expires-is-expired", st.where(), "hdrExpirationTime: Expires is returned as e < 0 ? squid_curtime : e")
            else:
                ck.violation("L1b.malformed-expires-is-expired", "L1b|hdrExpirationTime|raw-expires", st.where(), "hdrExpirationTime returns %s: an unparsable Expires value (getTime() == -1) "
                             "becomes 'no explicit expiry' instead of 'expired now', and the heuristic lifetime serves the entry without contacting the origin" % E.key(x)[:80], rfl.witness(st))
        elif E.const(x) == -1:
            nret += 1
            if st.has(m_has_exp, False) or any(fc[0] == "A" and fc[2] is True and E.strip(rfl.trees[fc[1]]).get("k") == "bin" and E.strip(rfl.trees[fc[1]]).get("op") == "==" and
                                                bool(exp_locals & E.mentions(rfl.trees[fc[1]])) for fc in st.facts):
                ck.ok("L1b.malformed-expires-is-expired", st.where(), "hdrExpirationTime: -1 only without an Expires header (or Date == Expires under vary_ignore_expire)")
            else:
                ck.violation("L1b.malformed-expires-is-expired", "L1b|hdrExpirationTime|minus-one-with-expires", st.where(), "hdrExpirationTime can return -1 (no explicit expiry) "
                             "although header.has(EXPIRES) was not established false on the path", rfl.witness(st))
    ck.need(nret >= 2, "C12: hdrExpirationTime no longer has an Expires return and a `return -1`")

    ck.rule("L2b label consistency in StoreEntry::timestampsSet: the explicit lifetime (reply->expires - reply->date) is added to the same corrected reception date that "
            "becomes StoreEntry::timestamp (served_date: Date clamped to now, corrected by Age and the peer response time); anchoring it at squid_curtime "
            "instead lengthens the lifetime by the Date skew while timestamp stays correct")
    stamp = [E.strip(ev.get("rhs")) for bb in ts.blocks.values() for ev in bb["ev"] if ev_assign("StoreEntry::timestamp")(ev)]
    ck.need(len(stamp) == 1 and stamp[0].get("k") == "ref" and stamp[0].get("dk") == "local", "C12: timestampsSet no longer sets timestamp from one local")
    BASE = stamp[0]["d"]
    nsum = 0
    for bb in ts.blocks.values():
        for ev in bb["ev"]:
            r = E.strip(ev.get("rhs") if ev.get("e") == "asg" else ev.get("init")) if ev.get("e") in ("asg", "decl") else None
            if not (isinstance(r, dict) and r.get("k") == "bin" and r.get("op") == "+"):
                continue
            parts = [E.strip(r["l"]), E.strip(r["r"])]
            life = [p_ for p_ in parts if p_.get("k") == "bin" and p_.get("op") == "-" and "HttpReply::expires" in E.mentions(p_) and "HttpReply::date" in E.mentions(p_)]
            if len(life) != 1:
                continue
            nsum += 1
            base = [p_ for p_ in parts if p_ is not life[0]][0]
            if base.get("k") == "ref" and base.get("d") == BASE:
                ck.ok("L2b.lifetime-anchored-at-timestamp", ts.where(ev["l"]), "timestampsSet: expiry = %s + (expires - date), and timestamp = %s" % (BASE, BASE))
            else:
                ck.violation("L2b.lifetime-anchored-at-timestamp", "L2b|timestampsSet|lifetime-base|%s" % E.key(base)[:40], ts.where(ev["l"]), "timestampsSet adds the explicit lifetime "
                             "to %s while the entry's timestamp is %s: the two disagree by the Date/Age correction" % (E.key(base)[:60], BASE))
    ck.need(nsum >= 1, "C12: timestampsSet no longer computes <base> + (reply->expires - reply->date)")

    # ------------------------------------------------------------------ H: the hit path
    ck.rule("H1 clientReplyContext::cacheHit: sendMoreData() only if refreshCheckHTTP() was false (or flags.internal, didCollapse, or a negative hit); "
            "RESPONSE(refreshCheckHTTP() true -> processExpired() or processMiss())")
    hit = facts.fn("clientReplyContext::cacheHit")
    rch = E.m_calls("refreshCheckHTTP")
    ck.require_any("H1.stale-not-sent", hit, ev_call("clientReplyContext::sendMoreData"),
                   [(rch, False), (E.m_is_mem("RequestFlags::internal"), True), (E.m_is_mem("StoreClient::didCollapse"), True),
                    (E.m_calls("StoreEntry::checkNegativeHit"), True)], "sendMoreData()", min_sites=2, why="(a stale hit would be sent as is)")
    ck.require_response("H1.stale-revalidated", hit, rch, True, ev_any(ev_call("clientReplyContext::processExpired"), ev_call("clientReplyContext::processMiss")),
                        "processExpired()|processMiss()", term_kinds=("IfStmt",), why="(a stale hit would neither be revalidated nor refetched)")

    ck.rule("H1b StoreEntry::checkNegativeHit (the negative-hit exception of H1): a non-zero return only with ENTRY_NEGCACHED set and expires > squid_curtime established")
    neg = facts.fn("StoreEntry::checkNegativeHit")
    fl = ck.flow(neg)
    nonzero = lambda ev: ev.get("e") == "ret" and E.const(ev.get("x")) != 0
    ck.require_fact("H1b.negative-hit-unexpired", fl, nonzero, E.m_mentions("ENTRY_NEGCACHED"), True, "return <non-zero>")
    ck.require_fact("H1b.negative-hit-unexpired", fl, nonzero, E.m_cmp("<", E.m_mentions("squid_curtime"), E.m_is_mem("StoreEntry::expires")), True, "return <non-zero>",
                    why="(an expired negatively cached reply would be served without the staleness check)")

    ck.rule("H2 clientReplyContext::processExpired: every return has passed FwdState::Start, processOnlyIfCachedMiss or processMiss (which forwards or answers with an error; used for looping requests), or collapsedRevalidation == crSlave")
    pe = facts.fn("clientReplyContext::processExpired")
    slave = E.M(lambda t: E.strip(t).get("op") == "==" and "clientReplyContext::collapsedRevalidation" in E.mentions(t) and "clientReplyContext::crSlave" in E.mentions(t), "collapsedRevalidation==crSlave")
    ck.require_any("H2.revalidation-contacts-origin", pe, ev_exit(), [("P", "FwdState::Start", ev_call("FwdState::Start")),
                   ("P", "processOnlyIfCachedMiss", ev_call("clientReplyContext::processOnlyIfCachedMiss")),
                   ("P", "processMiss", ev_call("clientReplyContext::processMiss")), (slave, True)], "return",
                   why="(a stale hit would wait for a revalidation that nobody started)")

    ck.rule("H3 no-cache requests: clientInterpretRequestHeaders RESPONSE(request CC hasNoCache() -> flags.noCache=true or flags.nocacheHack=true); identifyStoreObject looks "
            "the store up only with !flags.noCache or flags.internal; identifyFoundObject with flags.noCache reaches doGetMoreData only after forgetHit() "
            "(offline mode, ENTRY_SPECIAL, a missing entry excepted)")
    cih = facts.fn("clientInterpretRequestHeaders")
    flag_local = {n for n, ds in ck.local_defs(cih).items() if any(E.const(d) is not None for d in ds) and ck.trigger_edges(cih, E.m_is_ref(n), True)}
    nc = ev_any(ev_assign("RequestFlags::noCache", E.m_const(1)), ev_assign("RequestFlags::nocacheHack", E.m_const(1)))
    ck.require_response("H3.no-cache-flagged", cih, E.m_calls("HttpHdrCc::hasNoCache"), True, nc, "flags.noCache|nocacheHack = true", tracked=flag_local,
                        until=ev_call("HttpRequest::maybeCacheable"), why="(a no-cache request could be answered from the cache)")
    iso = facts.fn("clientReplyContext::identifyStoreObject")
    no_cache = E.m_is_mem("RequestFlags::noCache")
    ck.require_any("H3.no-cache-skips-lookup", iso, ev_call("storeGetPublicByRequest"), [(no_cache, False), (E.m_is_mem("RequestFlags::internal"), True)], "storeGetPublicByRequest()")
    ifo = facts.fn("clientReplyContext::identifyFoundObject")
    fl = ck.flow(ifo, assume=[(no_cache, True), (E.m_is_mem("offline"), False), (E.m_mentions("ENTRY_SPECIAL"), False)], markers={"forget": ev_call("clientReplyContext::forgetHit")})
    ck.need(ck.trigger_edges(ifo, no_cache, True), "C12: identifyFoundObject no longer tests flags.noCache")
    for s in ck.sites(fl, ev_call("clientReplyContext::doGetMoreData"), "doGetMoreData()", 2):
        entry_nil = any(f[0] == "A" and f[2] is False and E.strip(fl.trees[f[1]]).get("k") == "ref" for f in s.facts)
        if s.passed("forget") or entry_nil:
            ck.ok("H3.no-cache-forgets-hit", s.where(), "doGetMoreData() for a no-cache request follows forgetHit() or has no entry")
        else:
            ck.violation("H3.no-cache-forgets-hit", "H3|identifyFoundObject|doGetMoreData-with-entry", s.where(),
                         "identifyFoundObject: doGetMoreData() is reachable for a flags.noCache request that still holds the found entry", fl.witness(s))

    ck.rule("M1 HttpStateData::haveParsedReplyHeaders: RESPONSE(reply CC must-revalidate/proxy-revalidate or s-maxage -> EBIT_SET ENTRY_REVALIDATE_STALE or _ALWAYS)")
    hp = facts.fn("HttpStateData::haveParsedReplyHeaders")
    mark = ev_any(ev_ebit_set("ENTRY_REVALIDATE_STALE"), ev_ebit_set("ENTRY_REVALIDATE_ALWAYS"))
    local = E.M(lambda t: E.strip(t).get("k") == "ref" and E.strip(t).get("dk") == "local", "local")
    ck.sites(ck.flow(hp), mark, "EBIT_SET(ENTRY_REVALIDATE_*)", 2)
    for callee in ("HttpHdrCc::hasMustRevalidate", "HttpHdrCc::hasProxyRevalidate", "HttpHdrCc::hasSMaxAge"):
        if not ck.trigger_edges(hp, local & ck.m_closure(hp, callee), True, ("IfStmt", "BinaryOperator")):
            ck.violation("M1.must-revalidate-marked", "M1|haveParsedReplyHeaders|%s|not-consulted" % callee, hp.where(),
                         "haveParsedReplyHeaders marks entries for revalidation but no branch depends on reply CC %s() any more (such a response would be served stale)" % callee.split("::")[-1])
            continue
        ck.require_response("M1.must-revalidate-marked", hp, local & ck.m_closure(hp, callee), True, mark, "EBIT_SET(ENTRY_REVALIDATE_*)", term_kinds=("IfStmt", "BinaryOperator"),
                            why="(a must-revalidate response would be served stale)")
    ck.assume("default refresh rules: refresh_pattern override-expire/override-lastmod/ignore-reload/reload-into-ims, max-stale, offline_mode and flags.ignoreCc are cut or listed as guards")
    ck.assume("exceptions kept as guards: client max-stale, internal requests, collapsed hits (didCollapse), negative hits, reply CC immutable versus request max-age (RFC 8246)")
    ck.assume("the arithmetic of age/expires/Date (timestampsSet, hdrExpirationTime) and the clock are not analysed; processMiss()/FwdState are C01/C63 territory")
