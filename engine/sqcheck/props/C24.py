"""C24 Chunked decoding is exact and rejects malformed framing: Http1::TeChunkedParser gates (DESIGN.md 5/C24)."""
from .. import expr as E
from ..flow import ev_call, ev_return, ev_assign, ev_exit, ev_throw, ev_any
from .C21 import mutates, forbid_after, local_who, require_any, ret_const, stage_write, on_member, PA, BUF, STAGE, TOK
from .C23 import in_order

TE = "Http::One::TeChunkedParser::"
LEFT, CHUNK = TE + "theLeftBodySize", TE + "theChunkSize"


def commit_value(ck, rule, fn, s, tok_key=None):
    """the buf_ change at site s is `buf_ = <tokenizer>.remaining()`"""
    x = E.strip(s.ev["x"])
    a = E.strip(x["a"][0]) if x.get("f") == "SBuf::operator=" and x.get("a") else {}
    if a.get("f") == TOK + "remaining" and (tok_key is None or E.key(a.get("o")) == tok_key):
        ck.ok(rule, s.where(), "%s: buf_ = %s" % (fn.name, E.key(a)))
    else:
        ck.violation(rule, "%s|%s" % (rule, fn.name), s.where(), "%s changes buf_ by %s, not by assigning the tokenizer's remaining()" % (fn.name, s.desc()[:100]))


def handlers(ck, rule, fn, state_w):
    """the catch handlers of fn (analysed from the try dispatch block) change no parser state and return false"""
    tries = [b["id"] for b in fn.blocks.values() if (b.get("term") or {}).get("k") == "CXXTryStmt"]
    ck.need(len(tries) == 1, "C24: try dispatch block not found in %s" % fn.name)
    hfl = ck.flow(fn, start=tries[0])
    ck.require_unreachable(rule, hfl, state_w, "parser state write", "exception handlers")
    for s in ck.sites(hfl, ev_return(), "handler return", 1):
        if E.const(s.ev.get("x")) == 0:
            ck.ok(rule, s.where(), "%s: handler returns false" % fn.name)
        else:
            ck.violation(rule, "%s|%s|handler-return" % (rule, fn.name), s.where(), "%s: an exception handler returns %s" % (fn.name, E.key(s.ev.get("x"))))


def run(ck):
    facts = ck.facts(["src/http/one/TeChunkedParser.cc", "src/http/one/Tokenizer.cc", "src/http/one/Parser.cc"], whole=False)
    st = facts.enum("Http::One::ParseState")
    buf_w = mutates(BUF)
    any_stage = stage_write(st)
    state_w = ev_any(buf_w, any_stage, ev_assign(LEFT, None, ops=None), ev_assign(CHUNK, None, ops=None))
    insufficient = lambda ev: ev.get("e") == "throw" and "InsufficientInput" in E.strip(ev.get("x")).get("f", "")

    # ---------------------------------------------------------------- parseChunkSize
    pcs = facts.fn(TE + "parseChunkSize")
    ck.rule("K1 parseChunkSize: both skip(\"0x\")/skip(\"0X\") are evaluated before int64(size, 16, false) and a successful one always throws; chunk sizes are assigned only from "
            "`size` with int64() true, atEnd() false and size < 0 false; buf_ = tok.remaining() then parsingStage_ = CHUNK_EXT precede `return true`; `return false` only at "
            "tok.atEnd() and never after a state change; a failed int64() ends in throw or `return false`")
    fl = ck.flow(pcs, markers={"skip": ev_call(TOK + "skip")})
    skips = ck.sites(fl, ev_call(TOK + "skip"), "tok.skip(banned prefix)", 2)
    defs = ck.local_defs(pcs)
    banned = set()
    for s in skips:
        for d in defs.get(E.strip(E.strip(s.ev["x"])["a"][0]).get("d"), []):
            banned |= {n.get("v") for n in E.walk(d) if n.get("k") == "str"}
    if banned == {"0x", "0X"}:
        ck.ok("K1.hex-prefix-banned", pcs.where(), "skip() is tried with %s" % sorted(banned))
    else:
        ck.violation("K1.hex-prefix-banned", "K1.hex-prefix-banned|prefixes", pcs.where(), "banned chunk-size prefixes are %s, expected 0x and 0X" % sorted(banned))
    ck.require_response("K1.hex-prefix-banned", pcs, E.m_calls(TOK + "skip"), True, ev_throw(), "throw", min_edges=2, until=state_w, why="(a 0x-prefixed chunk size would be accepted by base-16 int64())")
    in_order(ck, "K1.hex-prefix-banned", pcs, ev_call(TOK + "int64"), [ev_call(TOK + "skip"), ev_call(TOK + "skip")], "int64()", "skip(0x), skip(0X)")
    i64 = ck.sites(fl, ev_call(TOK + "int64"), "int64()", 1)
    ck.need(len({s.line for s in i64}) == 1, "C24: expected one int64() call in parseChunkSize")
    a = E.strip(i64[0].ev["x"])["a"]
    size = E.strip(a[0]).get("d")
    if [E.const(x) for x in a[1:3]] == [16, 0] and (len(a) < 4 or (E.const(a[3]) or 0) >= 16):
        ck.ok("K1.size-args", i64[0].where(), "int64(%s, 16, false)" % size)
    else:
        ck.violation("K1.size-args", "K1.size-args|parseChunkSize", i64[0].where(), "chunk size is parsed by %s, expected int64(v, 16, false[, npos])" % i64[0].desc()[:100])
    size_w = ev_any(ev_assign(LEFT, None, ops=None), ev_assign(CHUNK, None, ops=None))
    for m, v, why in ((E.m_calls(TOK + "int64"), True, "no hex digits"), (E.m_calls(TOK + "atEnd"), False, "the number may continue in the next read"),
                      (E.m_cmp("<", E.m_is_ref(size), E.m_const(0)), False, "negative size")):
        ck.require_fact("K1.size-gates", fl, ev_any(size_w, buf_w, any_stage), m, v, "chunk size / buf_ / stage write", min_sites=1, why="(%s)" % why)
    for s in fl.find(size_w):
        r = E.strip(s.ev.get("rhs"))
        while isinstance(r, dict) and r.get("k") == "bin" and r.get("op") == "=":       # theChunkSize = theLeftBodySize = size
            r = E.strip(r.get("r"))
        if s.ev.get("op") == "=" and E.m_is_ref(size)(r):
            ck.ok("K1.size-args", s.where(), s.desc())
        else:
            ck.violation("K1.size-args", "K1.size-args|parseChunkSize|assignment", s.where(), "chunk size written as %s, not from the int64() result %s" % (s.desc()[:80], size))
    for s in fl.find(buf_w):
        commit_value(ck, "K1.commit", pcs, s, E.key(E.strip(i64[0].ev["x"]).get("o")))
    in_order(ck, "K1.commit", pcs, ret_const(lambda c: c != 0), [size_w, buf_w, stage_write(st, "HTTP_PARSE_CHUNK_EXT")], "return true", "chunk size, buf_ checkpoint, stage=CHUNK_EXT")
    need_more = ret_const(lambda c: c == 0)
    ck.require_fact("K1.need-more-only-at-end", fl, need_more, E.m_calls(TOK + "atEnd"), True, "return false", min_sites=1, why="(a malformed size would only ask for more data)")
    forbid_after(ck, "K1.need-more-keeps-state", pcs, need_more, state_w, "return false", "state-write")
    ck.require_response("K1.bad-size-rejected", pcs, E.m_calls(TOK + "int64"), False, ev_any(ev_throw(), need_more), "throw|return false", until=state_w)

    # ---------------------------------------------------------------- parseChunkBody
    pcb = facts.fn(TE + "parseChunkBody")
    ck.rule("K2 parseChunkBody: theOut->append(buf_.rawContent(), n), buf_.consume(n) and theLeftBodySize -= n use one local n = min(min(theLeftBodySize, buf_.length()), "
            "theOut->potentialSpaceSize()), in the order buf_ = tok.remaining(), append, consume, -=, tok.reset(buf_), all under theLeftBodySize > 0; "
            "parseChunkEnd() only with theLeftBodySize == 0")
    fl = ck.flow(pcb)
    app = ev_call("MemBuf::append", obj=E.m_is_mem(TE + "theOut"), arg={0: on_member("SBuf::rawContent", BUF)})
    cons = ev_call("SBuf::consume", obj=E.m_is_mem(BUF))
    dec = ev_assign(LEFT, None, ops=("-=",))
    ns = set()
    for s in ck.sites(fl, ev_any(app, cons, dec), "append/consume/-=", 3):
        t = s.ev.get("rhs") if s.ev.get("e") == "asg" else E.strip(s.ev["x"])["a"][-1]
        ns.add(E.key(t) if E.strip(t).get("dk") == "local" else "<%s>" % E.key(t))
    n = sorted(ns)[0]
    ldefs = ck.local_defs(pcb)

    def min_leaves(t, depth=0):
        """operands of the (nested) min() expression defining t, looking through single-definition locals"""
        t = E.strip(t)
        if t.get("k") == "call" and t.get("f") == "min":
            return [x for a in t["a"] for x in min_leaves(a, depth + 1)]
        if t.get("k") == "ref" and t.get("dk") == "local" and len(ldefs.get(t["d"], [])) == 1 and depth < 6:
            return min_leaves(ldefs[t["d"]][0], depth + 1)
        return [t]
    leaves = min_leaves({"k": "ref", "d": n, "dk": "local"})
    want = {"theLeftBodySize": E.m_is_mem(LEFT), "buf_.length()": on_member("SBuf::length", BUF), "theOut->potentialSpaceSize()": E.m_calls("MemBuf::potentialSpaceSize")}
    missing = sorted(k for k, m in want.items() if not any(m(l) for l in leaves))
    if len(ns) == 1 and not missing:
        ck.ok("K2.one-amount", pcb.where(), "append/consume/-= all use %s = min(...) over %s" % (n, sorted(want)))
    else:
        ck.violation("K2.one-amount", "K2.one-amount|parseChunkBody", pcb.where(),
                     "append/consume/theLeftBodySize-= use %s, a min() over [%s]; expected one local bounded by min() with %s" % (sorted(ns), ", ".join(E.key(l) for l in leaves)[:120], missing))
    ck.require_fact("K2.only-with-body-left", fl, ev_any(app, cons, dec), E.m_cmp("<", E.m_const(0), E.m_is_mem(LEFT)), True, "append/consume/-=", min_sites=3)
    seq = [buf_w, app, cons, dec, ev_call(TOK + "reset", arg={0: E.m_is_mem(BUF)})]
    for s in fl.find(lambda ev: buf_w(ev) and not cons(ev)):
        commit_value(ck, "K2.copy-order", pcb, s)

    def on_event(ev, env, facts):
        q = env.get("#q", 0)
        if q < len(seq) and seq[q](ev):
            env["#q"] = q + 1
    fl3 = ck.flow(pcb, on_event=on_event)
    for s in ck.sites(fl3, ev_any(ev_exit(("ret", "fall")), ev_call(TE + "parseChunkEnd")), "exit|parseChunkEnd()", 3):
        if s.env.get("#q", 0) in (0, len(seq)):
            ck.ok("K2.copy-order", s.where(), "copy sequence complete or not started at %s" % s.desc()[:40])
        else:
            ck.violation("K2.copy-order", "K2.copy-order|parseChunkBody|partial", s.where(), "'%s' is reachable after only %d of the 5 copy steps" % (s.desc()[:60], s.env.get("#q", 0)), fl3.witness(s))
    ck.require_fact("K2.end-needs-empty-chunk", fl, ev_call(TE + "parseChunkEnd"), E.m_is_mem(LEFT), False, "parseChunkEnd()", why="(the chunk CRLF would be looked for inside the chunk data)")

    # ---------------------------------------------------------------- parseChunkEnd / parseChunkMetadataSuffix / parseChunkExtensions
    ck.rule("K3 parseChunkEnd / parseChunkMetadataSuffix: `return true` only after skipRequired(.., CrLf()), then buf_ = tok.remaining(), then the stage write "
            "(CHUNK_SZ with theChunkSize = 0; `theChunkSize ? CHUNK : MIME` after ParseStrictBws and parseChunkExtensions); handlers change no state and return false; "
            "parseChunkExtensions commits buf_ only after skip(';') and parseOneChunkExtension() and returns only with skip(';') false")
    crlf = ev_call(TOK + "skipRequired", arg={1: E.m_calls("Http::One::CrLf")})
    pce = facts.fn(TE + "parseChunkEnd")
    in_order(ck, "K3.crlf-then-commit", pce, ret_const(lambda c: c != 0), [crlf, buf_w, ev_assign(CHUNK, E.m_const(0)), stage_write(st, "HTTP_PARSE_CHUNK_SZ")], "return true",
             "skipRequired(CRLF), buf_ checkpoint, theChunkSize=0, stage=CHUNK_SZ", why="(a chunk without its terminating CRLF would be accepted)")
    pms = facts.fn(TE + "parseChunkMetadataSuffix")
    in_order(ck, "K3.crlf-then-commit", pms, ret_const(lambda c: c != 0), [ev_call("Http::One::ParseStrictBws"), ev_call(TE + "parseChunkExtensions"), crlf, buf_w, any_stage], "return true",
             "ParseStrictBws, parseChunkExtensions, skipRequired(CRLF), buf_ checkpoint, stage write")
    for fn in (pce, pms):
        for s in ck.flow(fn).find(buf_w):
            commit_value(ck, "K3.crlf-then-commit", fn, s)
        handlers(ck, "K3.handlers-keep-state", fn, state_w)
    for s in ck.sites(ck.flow(pms), any_stage, "stage write", 1):
        r = E.strip(s.ev.get("rhs"))
        if r.get("k") == "cond" and E.m_is_mem(CHUNK)(r.get("c")) and (E.const(r.get("t")), E.const(r.get("f"))) == (st["HTTP_PARSE_CHUNK"], st["HTTP_PARSE_MIME"]):
            ck.ok("K3.next-stage", s.where(), "stage = theChunkSize ? CHUNK : MIME")
        else:
            ck.violation("K3.next-stage", "K3.next-stage|parseChunkMetadataSuffix", s.where(), "next stage is %s, expected theChunkSize ? HTTP_PARSE_CHUNK : HTTP_PARSE_MIME" % E.key(r))
    pcx = facts.fn(TE + "parseChunkExtensions")
    semi = ev_call(TOK + "skip", arg={0: E.m_const(59)})
    in_order(ck, "K3.extension-commit", pcx, buf_w, [semi, ev_call(TE + "parseOneChunkExtension")], "buf_ change", "skip(';'), parseOneChunkExtension()")
    fl = ck.flow(pcx)
    for s in fl.find(buf_w):
        commit_value(ck, "K3.extension-commit", pcx, s)
    ck.require_fact("K3.extension-commit", fl, ev_return(), E.m_calls(TOK + "skip"), False, "return", why="(extension parsing would stop before the list ended)")

    # ---------------------------------------------------------------- class-wide stage discipline, parse()
    ck.rule("K4 WHO (unit-local) + ORDER: buf_/parsingStage_/theChunkSize/theLeftBodySize are written only by the confirmed TeChunkedParser methods, and in the three chunk "
            "sub-parsers every parsingStage_ write is preceded on all paths by a buf_ checkpoint in the same function")
    te_fns = [f for f in facts.all_fns() if f.name.startswith(TE)]
    N = lambda *names: {TE + n: "confirmed" for n in names}
    local_who(ck, "K4.who-changes-buf", te_fns, buf_w, N("clear", "parse", "parseChunkSize", "parseChunkMetadataSuffix", "parseChunkExtensions", "parseChunkBody", "parseChunkEnd"), "changes buf_", 7)
    local_who(ck, "K4.who-changes-stage", te_fns, any_stage, N("clear", "parse", "parseChunkSize", "parseChunkMetadataSuffix", "parseChunkEnd"), "writes parsingStage_", 5)
    local_who(ck, "K4.who-changes-sizes", te_fns, ev_assign(LEFT, None, ops=None), N("clear", "parseChunkSize", "parseChunkBody"), "writes theLeftBodySize", 3)
    local_who(ck, "K4.who-changes-sizes", te_fns, ev_assign(CHUNK, None, ops=None), N("clear", "parseChunkSize", "parseChunkEnd"), "writes theChunkSize", 3)
    for fn in (pcs, pms, pce):
        ck.require_passed("K4.stage-after-checkpoint", ck.flow(fn, markers={"checkpoint": buf_w}), any_stage, "checkpoint", "parsingStage_ write",
                          why="(the next stage would restart on bytes of the previous one)")

    par = facts.fn(TE + "parse")
    ck.rule("K5 TeChunkedParser::parse: each sub-parser runs only under its own parsingStage_ test, on a tokenizer built from buf_ after buf_ = aBuf; a failed step returns false; "
            "NONE -> CHUNK_SZ is the only stage write; the result is false or !needsMoreData() && !needsMoreSpace()")
    stage_is = lambda nm: (E.m_cmp("==", E.m_is_mem(STAGE), E.m_const(st[nm])), True) if st[nm] else (E.m_is_mem(STAGE), False)
    entry_w = ev_call("SBuf::operator=", obj=E.m_is_mem(BUF), arg={0: E.M(lambda t: E.strip(t).get("dk") == "param", "parameter")})
    tok_decl = lambda ev: ev.get("e") == "decl" and E.strip(ev.get("init") or {}).get("k") == "ctor" and E.m_is_mem(BUF)((E.strip(ev["init"]).get("a") or [None])[0])
    steps = ((TE + "parseChunkMetadataSuffix", "HTTP_PARSE_CHUNK_EXT"), (TE + "parseChunkBody", "HTTP_PARSE_CHUNK"), (PA + "grabMimeBlock", "HTTP_PARSE_MIME"), (TE + "parseChunkSize", "HTTP_PARSE_CHUNK_SZ"))
    fl = ck.flow(par)
    for callee, stg in steps:
        ck.require_fact("K5.step-under-own-stage", fl, ev_call(callee), stage_is(stg)[0], stage_is(stg)[1], callee.split("::")[-1] + "()",
                        why="(a sub-parser would run on bytes belonging to another part of the chunk)")
        in_order(ck, "K5.parse-from-callers-buffer", par, ev_call(callee), [entry_w, tok_decl], callee.split("::")[-1] + "()", "buf_ = aBuf, Tokenizer(buf_)")
        if callee != TE + "parseChunkSize":
            ck.require_response("K5.failed-step-returns-false", par, E.m_calls(callee), False, ev_return(E.m_const(0)), "return false", until=ev_any(*[ev_call(c) for c, _ in steps]))
    for s in ck.sites(fl, any_stage, "stage write", 1):
        if E.const(s.ev.get("rhs")) == st["HTTP_PARSE_CHUNK_SZ"] and s.has(*stage_is("HTTP_PARSE_NONE")):
            ck.ok("K5.stage-values", s.where(), "NONE -> CHUNK_SZ")
        else:
            ck.violation("K5.stage-values", "K5.stage-values|parse", s.where(), "parse writes parsingStage_ by %s outside NONE -> CHUNK_SZ" % s.desc())
    for s in ck.sites(fl, ev_return(), "return", 4):
        x = s.ev.get("x")
        lv = [(E.key(t), v) for t, v in E.implied(x, True)]
        if E.const(x) == 0 or sorted(lv) == [("needsMoreData()", False), ("needsMoreSpace()", False)]:
            ck.ok("K5.result", s.where(), "parse returns %s" % E.key(x))
        else:
            ck.violation("K5.result", "K5.result|parse", s.where(), "TeChunkedParser::parse returns %s" % E.key(x))

    # ---------------------------------------------------------------- need-more only at end of input (token / quoted-string / BWS)
    ck.rule("K6 InsufficientInput is thrown by tokenOrQuotedString, parseQuotedStringSuffix and ParseBws_ only with tok.atEnd() established, and tokenOrQuotedString returns a "
            "bare token only with tok.atEnd() false (a token at the end of the buffer may continue)")
    for name in ("Http::One::tokenOrQuotedString", "parseQuotedStringSuffix", "Http::One::ParseBws_"):
        fn = facts.fn(name)
        ck.require_fact("K6.need-more-only-at-end", ck.flow(fn), insufficient, E.m_calls(TOK + "atEnd"), True, "throw InsufficientInput", why="(malformed input would only ask for more data)")
    toq = facts.fn("Http::One::tokenOrQuotedString")
    bare = lambda ev: ev.get("e") == "ret" and "parseQuotedStringSuffix" not in E.mentions(ev.get("x") or {})
    ck.require_fact("K6.token-needs-lookahead", ck.flow(toq), bare, E.m_calls(TOK + "atEnd"), False, "return <token>", why="(a token split across reads would be accepted truncated)")
    ck.assume("decoded-bytes equality, rejection of every malformed extension, Tokenizer::int64/skipRequired internals (C27) and MemBuf::append are not decided; "
              "exception edges are not in the CFG: ORDER rules rely on a throwing step preceding the checkpoint in program order")
