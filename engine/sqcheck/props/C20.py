"""C20 Successful unsafe requests invalidate cached responses: the purge gates on the server-reply path (DESIGN.md 5/C20)."""
import json

from .. import expr as E
from ..flow import ev_call, ev_return, ev_exit
from .C44 import local_from

MUST_INVALIDATE = ["METHOD_POST", "METHOD_PUT", "METHOD_DELETE", "METHOD_OTHER"]     # PATCH etc. are METHOD_OTHER in this build
THE_METHOD = "HttpRequestMethod::theMethod"


def returns_under(ck, fn, k, assume=()):
    """set of constant return values of a switch(theMethod) classifier when theMethod == k"""
    fl = ck.flow(fn, switch_assume=lambda cond: k if THE_METHOD in E.mentions(cond) else None, assume=list(assume))
    rets = fl.find(ev_return())
    ck.need(rets, "C20: %s has no return for method value %s" % (fn.name, k))
    return {E.const(s.ev.get("x")) for s in rets}


def overriders(facts, short):
    """qualified names of every function definition in the program whose last component is `short` (local helper over the index)"""
    out = set()
    for u, ln in facts._idx_lines("::" + short + '"'):
        d = json.loads(ln)
        if d.get("n", "").split("::")[-1] == short and "/tests/" not in d.get("f", ""):
            out.add(d["n"])
    return out


def run(ck):
    facts = ck.facts(["src/clients/Client.cc", "src/client_side_reply.cc", "src/http/RequestMethod.cc", "src/http.cc", "src/clients/FtpGateway.cc"], whole=True)
    hdr = facts.enum("Http::HdrType")
    meth = facts.enum("Http::_method_t")

    # ------------------------------------------------------------------ the purge decision
    ck.rule("I1 Client::maybePurgeOthers: every exit has purgesOthers() false, or reply status >= 400, or has passed purgeEntriesByUrl(request, reqUrl) and "
            "purgeEntriesByHeader(.., theFinalReply, LOCATION) and (.., CONTENT_LOCATION), with reqUrl derived from request->effectiveRequestUri()")
    mp = facts.fn("Client::maybePurgeOthers")
    unsafe = E.m_calls("HttpRequestMethod::purgesOthers")
    ok_status = E.m_cmp("<", E.m_calls("Http::StatusLine::status") & E.m_mentions("Client::theFinalReply"), E.m_const(400))
    from_request = ck.m_closure(mp, "HttpRequest::effectiveRequestUri")
    final = E.m_is_mem("Client::theFinalReply")
    by_hdr = lambda h: ev_call("purgeEntriesByHeader", arg={1: from_request, 2: final, 3: E.m_const(hdr[h])})
    for label, evp in (("purgeEntriesByUrl(reqUrl)", ev_call("purgeEntriesByUrl", arg={1: from_request})),
                       ("purgeEntriesByHeader(LOCATION)", by_hdr("LOCATION")), ("purgeEntriesByHeader(CONTENT_LOCATION)", by_hdr("CONTENT_LOCATION"))):
        ck.require_any("I1.purge-decision", mp, ev_exit(), [(unsafe, False), (ok_status, False), ("P", label, evp)], "exit",
                       why="(a successful unsafe request would leave %s undone)" % label)
    ck.need(ck.trigger_edges(mp, unsafe, False) and ck.trigger_edges(mp, ok_status, False), "C20: maybePurgeOthers lost its purgesOthers()/status tests")

    ck.rule("I2 ORDER: Client::haveParsedReplyHeaders passes maybePurgeOthers() on all paths; every override of haveParsedReplyHeaders in the program "
            "passes the base version on all paths; Client::setFinalReply passes haveParsedReplyHeaders() on all paths")
    base = "Client::haveParsedReplyHeaders"
    fl = ck.flow(facts.fn(base), markers={"purge": ev_call("Client::maybePurgeOthers")})
    ck.require_passed("I2.always-considered", fl, ev_exit(), "purge", "exit", why="(final reply headers would be accepted without considering invalidation)")
    kids = sorted(overriders(facts, "haveParsedReplyHeaders") - {base})
    ck.need(len(kids) >= 2, "C20: expected >= 2 overrides of haveParsedReplyHeaders, found %s" % kids)
    for k in kids:
        fns = facts.fns(k)
        if not fns:
            ck.violation("I2.always-considered", "I2|%s|not-analysed" % k, k, "override %s of haveParsedReplyHeaders is outside the analysed units" % k)
            continue
        fl = ck.flow(fns[0], markers={"base": ev_call(base)})
        ck.require_passed("I2.always-considered", fl, ev_exit(), "base", "exit", why="(this server type would skip invalidation)")
    fl = ck.flow(facts.fn("Client::setFinalReply"), markers={"hook": ev_call(base)})
    ck.require_passed("I2.always-considered", fl, ev_exit(), "hook", "exit")

    # ------------------------------------------------------------------ method classes
    ck.rule("I3 ENUMTABLE per enumerator of Http::_method_t: shouldInvalidate() returns only true for %s; purgesOthers() returns only true for them "
            "(with shouldInvalidate() taken at its computed value); respMaybeCacheable() can return true for GET and HEAD" % MUST_INVALIDATE)
    si, po, rc = (facts.fn("HttpRequestMethod::" + n) for n in ("shouldInvalidate", "purgesOthers", "respMaybeCacheable"))
    for name in MUST_INVALIDATE:
        ck.need(name in meth, "C20: enumerator %s vanished" % name)
        a = returns_under(ck, si, meth[name])
        b = returns_under(ck, po, meth[name], assume=[(E.m_calls("HttpRequestMethod::shouldInvalidate"), a == {1})])
        for fn, vals in ((si, a), (po, b)):
            if vals == {1}:
                ck.ok("I3.method-class", fn.where(), "%s is true for %s" % (fn.name, name))
            else:
                ck.violation("I3.method-class", "I3|%s|%s" % (fn.name, name), fn.where(), "%s can return %s for %s" % (fn.name, sorted(vals, key=str), name))
    for name in ("METHOD_GET", "METHOD_HEAD"):
        vals = returns_under(ck, rc, meth[name])
        if vals == {1}:
            ck.ok("I3.method-class", rc.where(), "respMaybeCacheable is true for %s (its key is evicted)" % name)
        else:
            ck.violation("I3.method-class", "I3|respMaybeCacheable|%s" % name, rc.where(), "respMaybeCacheable returns %s for %s" % (sorted(vals, key=str), name))

    # ------------------------------------------------------------------ Location / Content-Location
    ck.rule("I4 purgeEntriesByHeader(req, reqUrl, rep, hdr): hdrUrl := rep->header.getStr(hdr); purgeEntriesByUrl() only for a relative URL or with "
            "sameUrlHosts(reqUrl, hdrUrl) true; every exit has passed purgeEntriesByUrl(req, ..) unless the header is absent or sameUrlHosts() is false")
    ph = facts.fn("purgeEntriesByHeader")
    prm = [p["d"] for p in ph.params]
    hu = local_from(ck, ph, "getStr(hdr)", lambda n: n.get("k") == "call" and n.get("f") == "HttpHeader::getStr")
    d = [E.strip(x) for x in ck.local_defs(ph)[hu]]
    if len(d) == 1 and d[0].get("f") == "HttpHeader::getStr" and E.m_is_ref(prm[3])(d[0]["a"][0]) and prm[2] in E.mentions(d[0].get("o")):
        ck.ok("I4.header-url", ph.where(), "the URL is taken from the given header of the given reply")
    else:
        ck.violation("I4.header-url", "I4|purgeEntriesByHeader|hdrUrl-def", ph.where(), "hdrUrl is defined by %s" % [E.key(x) for x in d])
    same = E.m_calls("sameUrlHosts") & E.M(lambda t: E.m_is_ref(prm[1])(E.strip(t)["a"][0]) and E.m_is_ref(hu)(E.strip(t)["a"][1]), "(reqUrl, hdrUrl)")
    rel = E.m_calls("urlIsRelative") & E.M(lambda t: E.m_is_ref(hu)(E.strip(t)["a"][0]), "(hdrUrl)")
    purge = ev_call("purgeEntriesByUrl", arg={0: E.m_is_ref(prm[0])})
    ck.require_any("I4.same-host-only", ph, purge, [(rel, True), (same, True)], "purgeEntriesByUrl()", why="(a reply could evict another site's objects)")
    ck.require_any("I4.purged-unless-foreign", ph, ev_exit(), [("P", "purgeEntriesByUrl()", purge), (E.m_is_ref(hu), False), (same, False)], "exit",
                   why="(a same-host or relative Location/Content-Location would stay cached)")

    # ------------------------------------------------------------------ eviction loop
    ck.rule("I5 purgeEntriesByUrl(req, url): the method loop starts at METHOD_NONE, ends only with m == METHOD_ENUM_END, and "
            "RESPONSE(m.respMaybeCacheable() -> Store::Root().evictIfFound(key := storeKeyPublic(url, m)) before the next method)")
    pu = facts.fn("purgeEntriesByUrl")
    m = local_from(ck, pu, "HttpRequestMethod(METHOD_NONE)", lambda n: n.get("k") == "ctor" and n.get("f", "").startswith("HttpRequestMethod::"))
    inits = [E.strip(x) for x in ck.local_defs(pu)[m]]
    key = local_from(ck, pu, "storeKeyPublic()", lambda n: n.get("k") == "call" and n.get("f") == "storeKeyPublic")
    kd = [E.strip(x) for x in ck.local_defs(pu)[key]]
    if len(inits) == 1 and E.const(inits[0]["a"][0]) == meth["METHOD_NONE"] and len(kd) == 1 and kd[0].get("f") == "storeKeyPublic" and \
            E.m_is_ref(pu.params[1]["d"])(kd[0]["a"][0]) and E.m_is_ref(m)(kd[0]["a"][1]):
        ck.ok("I5.evict-all-keys", pu.where(), "loop variable starts at METHOD_NONE; key := storeKeyPublic(url, m)")
    else:
        ck.violation("I5.evict-all-keys", "I5|purgeEntriesByUrl|loop-defs", pu.where(), "m := %s, key := %s" % ([E.key(x) for x in inits], [E.key(x) for x in kd]))
    ck.require_fact("I5.evict-all-keys", ck.flow(pu), ev_exit(), E.m_cmp("==", E.m_is_ref(m), E.m_const(meth["METHOD_ENUM_END"])), True, "exit",
                    why="(some methods' keys would not be visited)")
    ck.require_response("I5.evict-all-keys", pu, E.m_calls("HttpRequestMethod::respMaybeCacheable") & E.M(lambda t: E.m_is_ref(m)(E.strip(t).get("o")), "of m"), True,
                        ev_call("Store::Controller::evictIfFound", arg={0: E.m_is_ref(key)}), "evictIfFound(key)", why="(a cacheable method's entry would survive)")
    steps = [ev for b in pu.blocks.values() for ev in b["ev"] if ev.get("e") == "call" and E.m_is_ref(m)(E.strip(ev["x"]).get("o")) and not E.strip(ev["x"]).get("cm")
             and E.strip(ev["x"]).get("f", "").split("::")[-1] not in ("HttpRequestMethod",)]
    if len(steps) == 1 and E.strip(steps[0]["x"])["f"].endswith("operator++"):
        ck.ok("I5.evict-all-keys", pu.where(steps[0]["l"]), "the loop variable is only advanced by ++m")
    else:
        ck.violation("I5.evict-all-keys", "I5|purgeEntriesByUrl|loop-step", pu.where(), "the method loop variable is modified by %s" % [E.key(e["x"]) for e in steps])
    ck.rule("I6 the URL purged for a *relative* Location/Content-Location is built from a copy of the request URL whose path was changed through AnyP::Uri "
            "mutators; every such mutator clears the cached canonical forms (touch()) after changing a component, otherwise tmpUrl.absolute() is still the request "
            "URL and the named URL is never invalidated (shared with C30 U5)")
    from .C30 import uri_cache_coherence
    uri_cache_coherence(ck, ck.facts(["src/anyp/Uri.cc"], whole=False), rule="I6.relative-target-canonical")
    ck.assume("what Store::Controller::evictIfFound() removes across stores, Vary-keyed variants, sameUrlHosts()/urlIsRelative() internals, and replies that never "
              "reach Client::setFinalReply() are not analysed")
