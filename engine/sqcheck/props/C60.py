"""C60 ICAP adaptation delivers exactly the virgin or the adapted message: bypass/echo gates of Adaptation::Icap::ModXact (DESIGN.md 5/C60)."""
from .. import expr as E
from ..flow import ev_call, ev_assign, ev_any, ev_exit

MX = "Adaptation::Icap::ModXact::"
BYPASS = MX + "canStartBypass"
RETRI = "Adaptation::Icap::Xaction::isRetriable"
SENDING = MX + "State::sending"


def run(ck):
    facts = ck.facts(["src/adaptation/icap/ModXact.cc"], whole=True)
    can = E.m_is_mem(BYPASS)
    retri = E.m_is_mem(RETRI)
    off = ev_call(MX + "disableBypass")
    sending = facts.enum(MX + "State::Sending")
    ck.need({"sendingVirgin", "sendingAdapted", "sendingUndecided"} <= set(sending), "C60: State::Sending enumerators not found")
    VIRGIN = sending["sendingVirgin"]

    # ------------------------------------------------------------------ bypass gate
    ck.rule("B1 ModXact::callException: bypassFailure() only with canStartBypass T and isRetriable F; WHO: bypassFailure is called only from callException")
    ce = facts.fn(MX + "callException")
    fl = ck.flow(ce)
    byp = ev_call(MX + "bypassFailure")
    ck.require_fact("B1.bypass-gates", fl, byp, can, True, "bypassFailure()", why="(a failure after adapted/virgin content was used would be bypassed)")
    ck.require_fact("B1.bypass-gates", fl, byp, retri, False, "bypassFailure()", why="(a retriable transaction would be bypassed and retried)")
    ck.who_calls("B1.who-bypasses", facts, MX + "bypassFailure", {MX + "callException": "gated by canStartBypass && !isRetriable"}, min_callers=1)

    ck.rule("B2 WHO-writes canStartBypass: only the ctor (false), start() (service bypass option), waitForService() (overload bypass) and disableBypass() (false only); "
            "disableBypass: RESPONSE(canStartBypass T -> canStartBypass = false)")
    ck.who_writes("B2.who-enables-bypass", facts, BYPASS, {MX + "ModXact": "initially off", MX + "start": "bypass option of the service", MX + "waitForService": "on-overload=bypass",
                                                          MX + "disableBypass": "switch off"}, min_writers=4, why="(bypass could be re-armed after content was used)")
    for (n, f, l, op, cv) in facts.writers(BYPASS):
        if n in (MX + "ModXact", MX + "disableBypass"):
            if cv == 0:
                ck.ok("B2.who-enables-bypass", "src/adaptation/icap/ModXact.cc:%d" % l, "%s only clears canStartBypass" % n)
            else:
                ck.violation("B2.who-enables-bypass", "B2|non-false-write|%s" % n, "src/adaptation/icap/ModXact.cc:%d" % l, "%s writes canStartBypass with %s" % (n, cv))
    db = facts.fn(MX + "disableBypass")
    ck.require_response("B2.disable-clears", db, can, True, ev_assign(BYPASS, E.m_const(0)), "canStartBypass = false")

    # ------------------------------------------------------------------ bypass is switched off before/when content is used
    ck.rule("B3 ORDER: startSending: disableBypass() precedes sendAnswer(); prepEchoing: disableBypass() precedes adapted.setHeader(); bypassFailure: disableBypass() then "
            "isRetriable F then prepEchoing() then startSending(); RESPONSE: virginConsume bp.consume() -> disableBypass(), echoMore putMoreData() -> disableBypass(), "
            "parseBody (adapted body has content) -> disableBypass(); virginConsume consumes only with isRetriable F")
    ss = facts.fn(MX + "startSending")
    ck.require_passed("B3.off-before-answer", ck.flow(ss, markers={"off": off}), ev_call("Adaptation::Initiate::sendAnswer"), "off", "sendAnswer()",
                      why="(a failure after the answer was sent could still start a bypass and send a second message)")
    pe = facts.fn(MX + "prepEchoing")
    set_hdr = ev_call("Adaptation::Icap::InOut::setHeader")
    fl = ck.flow(pe, markers={"off": off})
    ck.require_passed("B3.off-before-echo", fl, set_hdr, "off", "adapted.setHeader()")
    bf = facts.fn(MX + "bypassFailure")
    fl = ck.flow(bf, markers={"off": off, "echo": ev_call(MX + "prepEchoing")})
    ck.require_passed("B3.bypass-sequence", fl, ev_call(MX + "prepEchoing"), "off", "prepEchoing()", why="(a failure while bypassing would start another bypass)")
    ck.require_fact("B3.bypass-sequence", fl, ev_call(MX + "prepEchoing"), retri, False, "prepEchoing()")
    ck.require_passed("B3.bypass-sequence", fl, ev_call(MX + "startSending"), "echo", "startSending()", why="(the bypass answer would not be the virgin message)")
    vc = facts.fn(MX + "virginConsume")
    consume = ev_call("BodyPipe::consume")
    ck.require_fact("B3.consume-gate", ck.flow(vc), consume, retri, False, "bp.consume()", why="(virgin bytes needed for a retry would be dropped)")
    for fn, trig, nm in ((vc, consume, "bp.consume()"), (facts.fn(MX + "echoMore"), ev_call("BodyPipe::putMoreData"), "putMoreData()")):
        _response_after_event(ck, "B3.off-after-use", fn, trig, off, nm, "disableBypass()", "(virgin content already used, bypass still armed)")
    pb = facts.fn(MX + "parseBody")
    ck.require_response("B3.off-after-adapted-content", pb, E.m_cmp("<", E.m_const(0), E.m_calls("MemBuf::contentSize")), True, off, "disableBypass()",
                        why="(adapted body bytes were produced but a later failure could still echo the virgin message)")

    # ------------------------------------------------------------------ 204 / echo
    ck.rule("E1 parseIcapHead: under status 204 every path calls handle204NoContent(); handle204NoContent passes prepEchoing(); WHO: prepEchoing is called only from "
            "handle204NoContent and bypassFailure; prepEchoing sets adapted.header only with adapted.header null and fills it by parsing the packed virgin header")
    ph = facts.fn(MX + "parseIcapHead")
    sc = facts.enum("Http::(anonymous)")      # `typedef enum {...} StatusCode` is an unnamed enum to the front end
    ck.need("scNoContent" in sc and "scOkay" in sc, "C60: Http::StatusCode enumerators not found")
    on_status = lambda K: (lambda cond: K if "Http::StatusLine::status" in E.mentions(cond) else None)
    sw = [b["id"] for b in ph.blocks.values() if b.get("term", {}).get("k") == "SwitchStmt" and "Http::StatusLine::status" in E.mentions(b["term"]["c"])]
    ck.need(len(sw) == 1, "C60: parseIcapHead no longer switches on the ICAP status code")
    fl = ck.flow(ph, start=sw[0], switch_assume=on_status(sc["scNoContent"]), markers={"h204": ev_call(MX + "handle204NoContent")})
    ck.require_passed("E1.204-echoes", fl, ev_exit(), "h204", "return", why="(an ICAP 204 would not deliver the virgin message)")
    ck.require_unreachable("E1.204-echoes", fl, ev_call({MX + "handle200Ok", MX + "handle206PartialContent", MX + "handle100Continue"}), "handle200Ok|handle206PartialContent|handle100Continue", "status==204",
                           why="(an ICAP 204 would be treated as carrying an adapted message)")
    h204 = facts.fn(MX + "handle204NoContent")
    ck.require_passed("E1.204-echoes", ck.flow(h204, markers={"echo": ev_call(MX + "prepEchoing")}), ev_exit(), "echo", "return")
    ck.who_calls("E1.who-echoes", facts, MX + "prepEchoing", {MX + "handle204NoContent": "ICAP 204", MX + "bypassFailure": "bypass"}, min_callers=2)
    fl = ck.flow(pe, markers={"packed": ev_call(MX + "packHead", arg={1: E.m_is_ref("oldHead")})})
    adapted_hdr = E.m_is_mem("Adaptation::Icap::InOut::header") & E.m_mentions(MX + "adapted")
    ck.require_fact("E1.echo-is-virgin-only", fl, set_hdr, adapted_hdr, False, "adapted.setHeader()", why="(the virgin header would replace/mix with an adapted header)")
    ck.require_passed("E1.echo-is-virgin-only", fl, ev_call("Http::Message::parse"), "packed", "adapted.header->parse()")
    defs = ck.local_defs(pe).get("oldHead", [])
    if defs and all(E.m_is_mem("Adaptation::Icap::InOut::header")(d) and (MX + "virgin") in E.mentions(d) for d in defs):
        ck.ok("E1.echo-is-virgin-only", pe.where(), "oldHead is virgin.header")
    else:
        ck.violation("E1.echo-is-virgin-only", "E1|oldHead", pe.where(), "prepEchoing no longer clones virgin.header")

    ck.rule("E2 WHO-writes state.sending = sendingVirgin: only prepEchoing and prepPartialBodyEchoing; echoMore requires sending == sendingVirgin; "
            "prepPartialBodyEchoing is called only from parseBody with readyForUob T and sawUseOriginalBody() T")
    ck.who_writes("E2.who-sends-virgin", facts, SENDING, {MX + "prepEchoing": "204/bypass echo", MX + "prepPartialBodyEchoing": "206 use-original-body"},
                  value=lambda v: v == VIRGIN, min_writers=2, why="(virgin body bytes would be sent in another sending state)")
    em = facts.fn(MX + "echoMore")
    ck.require_fact("E2.echo-state", ck.flow(em), ev_call("BodyPipe::putMoreData"), (E.m_cmp("==", E.m_is_mem(SENDING), E.m_const(VIRGIN)) | E.m_cmp("==", E.m_const(VIRGIN), E.m_is_mem(SENDING))), True, "putMoreData()",
                    why="(virgin bytes would be appended to an adapted body)")
    ck.who_calls("E2.who-part-echoes", facts, MX + "prepPartialBodyEchoing", {MX + "parseBody": "206 use-original-body"}, min_callers=1)
    fl = ck.flow(pb)
    part = ev_call(MX + "prepPartialBodyEchoing")
    ck.require_fact("E2.part-echo-gates", fl, part, E.m_is_mem(MX + "State::readyForUob"), True, "prepPartialBodyEchoing()", why="(virgin suffix would be mixed into a non-206 adapted body)")
    ck.require_fact("E2.part-echo-gates", fl, part, ck.m_result_of(pb, "Adaptation::Icap::ChunkExtensionValueParser::sawUseOriginalBody"), True, "prepPartialBodyEchoing()")
    ck.rule("E3 virgin body accounting: the virgin-body cursors advance by exactly the amount that was handed on -- echoMore(): virginBodySending.progress(n) with n the "
            "result of adapted.body_pipe->putMoreData(virginContentData(virginBodySending), <offered>) (the bytes the adapted pipe *accepted*, not the bytes offered: "
            "virginConsume() discards everything below the cursor); writeSomeBody(): virginBodyWriting.progress(n) with the same n that was appended to the write "
            "buffer from virginContentData(virginBodyWriting)")
    MX_ = "Adaptation::Icap::ModXact::"
    em = facts.fn(MX_ + "echoMore")
    put = ck.m_result_of(em, "BodyPipe::putMoreData")
    prog = lambda obj: (lambda ev: ev.get("e") == "call" and E.strip(ev["x"]).get("f") == "Adaptation::Icap::VirginBodyAct::progress" and E.m_is_mem(obj)(E.strip(ev["x"]).get("o")))
    for st in ck.sites(ck.flow(em), prog("virginBodySending"), "virginBodySending.progress()", 1):
        a0 = E.strip(st.ev["x"])["a"][0]
        if put(a0):
            ck.ok("E3.echo-advances-by-accepted", st.where(), "echoMore advances the sending cursor by what putMoreData() accepted")
        else:
            ck.violation("E3.echo-advances-by-accepted", "E3|echoMore|progress-arg", st.where(),
                         "echoMore advances virginBodySending by %s, not by the amount adapted.body_pipe->putMoreData() accepted: when the adapted pipe is full the "
                         "unaccepted virgin bytes are skipped and then discarded by virginConsume()" % E.key(a0))
    ws = facts.fn(MX_ + "writeSomeBody")
    wfl = ck.flow(ws)
    apps = [E.strip(s_.ev["x"]) for s_ in wfl.find(lambda ev: ev.get("e") == "call" and E.strip(ev["x"]).get("f") == "MemBuf::append" and any(n.get("f") == MX_ + "virginContentData" for n in E.walk(ev["x"])))]
    ck.need(len(apps) == 1, "C60: writeSomeBody no longer appends virginContentData() to the write buffer exactly once")
    for st in ck.sites(wfl, prog("virginBodyWriting"), "virginBodyWriting.progress()", 1):
        a0 = E.strip(st.ev["x"])["a"][0]
        if E.key(a0) == E.key(apps[0]["a"][1]):
            ck.ok("E3.write-advances-by-written", st.where(), "writeSomeBody advances the writing cursor by the appended amount")
        else:
            ck.violation("E3.write-advances-by-written", "E3|writeSomeBody|progress-arg", st.where(), "writeSomeBody appends %s bytes but advances the cursor by %s" % (E.key(apps[0]["a"][1]), E.key(a0)))
    ck.assume("message integrity across ICAP server behaviours, preview negotiation and the Launcher retry/repeat logic are not decided; "
              "only the bypass/echo gates of ModXact are checked")


def _response_after_event(ck, rule, fn, trig, resp, trig_name, resp_name, why):
    """local helper (RESPONSE anchored at an event instead of a branch edge): after every event matching `trig`,
    each path passes an event matching `resp` before the function returns"""
    n = 0
    for b in fn.blocks.values():
        for i, ev in enumerate(b["ev"]):
            if not trig(ev):
                continue
            n += 1
            bad = None
            if not any(resp(e2) for e2 in b["ev"][i + 1:]):
                for s in b["succ"]:
                    sub = ck.flow(fn, start=s["to"], markers={"R": resp})
                    miss = [x for x in sub.find(ev_exit()) if not x.passed("R")]
                    if miss:
                        bad = (sub, miss[0])
                        break
            if bad:
                ck.violation(rule, "%s|%s|response:%s|after:%s" % (rule, fn.name, resp_name, trig_name), fn.where(ev.get("l")),
                             "%s: after %s a path returns without %s %s" % (fn.name, trig_name, resp_name, why), bad[0].witness(bad[1]))
            else:
                ck.ok(rule, fn.where(ev.get("l")), "%s: every return after %s passes %s" % (fn.name, trig_name, resp_name))
    ck.need(n >= 1, "C60: %s not found in %s" % (trig_name, fn.name))
