"""C05 Pipelined responses are delivered in request order: FIFO discipline of Pipeline / ConnStateData (DESIGN.md 5/C05)."""
from .. import expr as E
from ..flow import ev_call, ev_return, ev_assign, ev_any

REQ = "Pipeline::requests"
# every operation on the list, and the only Pipeline member allowed to perform it
LIST_OPS = {"push_back": {"Pipeline::add"}, "pop_front": {"Pipeline::popMe"}, "front": {"Pipeline::front", "Pipeline::popMe"},
            "back": {"Pipeline::back"}, "empty": {"Pipeline::front", "Pipeline::back", "Pipeline::popMe", "Pipeline::empty"},
            "size": {"Pipeline::count"}}
SENDERS = ("Http::Stream::sendStartOfMessage", "Http::Stream::sendBody")


def run(ck):
    facts = ck.facts(["src/Pipeline.cc", "src/client_side.cc", "src/servers/Http1Server.cc", "src/http/Stream.cc"], whole=True)
    front = "Pipeline::front"

    ck.rule("P1 ENUMTABLE/WHO: the only operations on Pipeline::requests anywhere are push_back (in Pipeline::add), pop_front (in Pipeline::popMe), "
            "front/back/empty/size in the accessors - no push_front/insert/erase/pop_back/splice/sort/assignment")
    n = 0
    for f in facts.all_fns():
        for b in f.blocks.values():
            for ev in b["ev"]:
                trees = [ev.get("x"), ev.get("lhs"), ev.get("rhs"), ev.get("init")]
                for t in trees:
                    for node in E.walk(t) if isinstance(t, dict) else ():
                        if node.get("k") == "mem" and node.get("m") == REQ:
                            n += 1
                for node in E.walk(ev.get("x")) if ev.get("e") == "call" else ():
                    if node.get("k") == "call" and "o" in node and E.m_is_mem(REQ)(node["o"]):
                        op = node.get("f", "").split("::")[-1]
                        if f.name in LIST_OPS.get(op, ()):
                            ck.ok("P1.list-ops", f.where(ev["l"]), "%s calls requests.%s()" % (f.name, op))
                        else:
                            ck.violation("P1.list-ops", "P1|requests.%s|in:%s" % (op, f.name), f.where(ev["l"]),
                                         "%s performs requests.%s(), which is outside the FIFO operation table (the response order could change)" % (f.name, op))
                if ev.get("e") == "asg" and E.root_decl(ev.get("lhs")) == ("mem", REQ) and not f.name == "Pipeline::Pipeline":
                    ck.violation("P1.list-ops", "P1|requests-assigned|in:%s" % f.name, f.where(ev["l"]), "%s assigns Pipeline::requests" % f.name)
    ck.need(n >= 8, "C05: Pipeline::requests is no longer used (renamed?)")
    for (w, fl_, ln, op, cv) in facts.writers(REQ):
        if w != "Pipeline::Pipeline":
            ck.violation("P1.list-ops", "P1|requests-written|in:%s" % w, "%s:%d" % (fl_, ln), "%s writes Pipeline::requests directly (%s)" % (w, op))

    ck.rule("P2 Pipeline::popMe: requests.pop_front() only with `which == requests.front()` established; Pipeline::front returns requests.front() or null")
    pop = facts.fn("Pipeline::popMe")
    ck.need(len(pop.params) == 1, "C05: Pipeline::popMe signature changed")
    which = pop.params[0]["d"]
    is_front_call = E.M(lambda t: E.strip(t).get("k") == "call" and E.strip(t)["f"].split("::")[-1] == "front" and E.m_is_mem(REQ)(E.strip(t)["o"]), "requests.front()")
    same = E.m_cmp("==", E.m_is_ref(which), is_front_call) | E.m_cmp("==", is_front_call, E.m_is_ref(which))
    ck.require_fact("P2.pop-only-front", ck.flow(pop), lambda ev: ev.get("e") == "call" and E.strip(ev["x"]).get("f", "").endswith("::pop_front"), same, True,
                    "requests.pop_front()", why="(a stream other than the oldest one could leave the pipeline: a later response would go out first)")
    fr = facts.fn(front)
    for s in ck.sites(ck.flow(fr), ev_return(), "return", 2):
        x = E.strip(s.ev["x"])
        if is_front_call(x) or (x.get("k") == "ctor" and not x.get("a")) or E.is_zero(x):
            ck.ok("P2.front-is-front", s.where(), "Pipeline::front returns %s" % E.key(x))
        else:
            ck.violation("P2.front-is-front", "P2|Pipeline::front|returns-other", s.where(), "Pipeline::front returns %s, not requests.front()/null" % E.key(x))

    ck.rule("P3 clientSocketRecipient: handleReply() only with `context == conn->pipeline.front()` established and cbControlMsgSent null; "
            "WHO(ConnStateData::handleReply) = {clientSocketRecipient}; Http::One::Server::handleReply sends through a local defined by pipeline.front() only; "
            "WHO(Http::Stream::sendStartOfMessage/sendBody) = {Http::One::Server::handleReply}")
    rcp = facts.fn("clientSocketRecipient")
    fl = ck.flow(rcp)
    is_head = E.M(lambda t: E.strip(t).get("k") == "bin" and E.strip(t)["op"] == "==" and front in E.mentions(t) and
                  any(E.strip(x).get("k") == "ref" and E.strip(x).get("dk") == "local" for x in (E.strip(t)["l"], E.strip(t)["r"])), "(context == pipeline.front())")
    deliver = ev_call("ConnStateData::handleReply")
    ck.require_fact("P3.deliver-only-head", fl, deliver, is_head, True, "handleReply()", why="(a response would be written before earlier requests were answered)")
    ck.require_fact("P3.deliver-only-head", fl, deliver, E.m_is_mem("HttpControlMsgSink::cbControlMsgSent"), False, "handleReply()",
                    why="(a final response would be interleaved with a pending 1xx control message)")
    ck.who_calls("P3.who-delivers", facts, "ConnStateData::handleReply", {"clientSocketRecipient": "the gated client-stream tail (P3)"}, kinds=("call", "ref"))
    h1 = facts.fn("Http::One::Server::handleReply")
    head = ck.m_result_of(h1, front)
    n = 0
    for s in ck.flow(h1).find(ev_any(ev_call(SENDERS[0]), ev_call(SENDERS[1]), ev_call("Http::Stream::writeComplete"))):
        n += 1
        o = E.strip(E.strip(s.ev["x"]).get("o"))
        while isinstance(o, dict) and o.get("k") == "call" and o.get("f", "").split("::")[-1] in ("operator->", "operator*"):
            o = E.strip(o.get("o"))
        if head(o):
            ck.ok("P3.send-through-head", s.where(), "Http::One::Server::handleReply: %s on the stream returned by pipeline.front()" % E.strip(s.ev["x"])["f"])
        else:
            ck.violation("P3.send-through-head", "P3|Http1::handleReply|sends-on-other-stream", s.where(),
                         "Http::One::Server::handleReply sends through %s, which is not defined by pipeline.front()" % E.key(o))
    ck.need(n >= 3, "C05: Http::One::Server::handleReply no longer sends through the stream")
    for snd in SENDERS:
        ck.who_calls("P3.who-sends", facts, snd, {"Http::One::Server::handleReply": "sends on pipeline.front() (P3)"}, kinds=("call", "ref"))

    ck.rule("P4 WHO: Pipeline::add is called only by ConnStateData::add; Pipeline::popMe only by Http::Stream::finished")
    ck.who_calls("P4.who-adds", facts, "Pipeline::add", {"ConnStateData::add": "registration of a freshly parsed request"}, kinds=("call", "ref"))
    ck.who_calls("P4.who-pops", facts, "Pipeline::popMe", {"Http::Stream::finished": "the stream has sent (or given up) its response"}, kinds=("call", "ref"))

    ck.rule("P5 prefetch limit: ConnStateData::parseRequests calls parseOneRequest() only with concurrentRequestQueueFilled() established false; "
            "concurrentRequestQueueFilled returns false only with pipeline.count() >= limit established false, limit defined from pipelinePrefetchMax()")
    pr = facts.fn("ConnStateData::parseRequests")
    ck.require_fact("P5.parse-only-below-limit", ck.flow(pr), ev_call("ConnStateData::parseOneRequest"), E.m_calls("ConnStateData::concurrentRequestQueueFilled"), False,
                    "parseOneRequest()", why="(more requests than pipeline_prefetch allows would be started concurrently)")
    qf = facts.fn("ConnStateData::concurrentRequestQueueFilled")
    below = ck.m_closure(qf, "Pipeline::count", "ConnStateData::pipelinePrefetchMax") & E.M(lambda t: E.strip(t).get("op") == "<", "(count < limit)")
    ck.require_fact("P5.limit", ck.flow(qf), ev_return(E.m_const(0)), below, True, "return false", why="(the queue would be reported as not full although it is)")

    ck.rule("P5b no pipelined parse inside a request body: parseOneRequest() only with bodyPipe established null (the bytes in inBuf belong to the body being "
            "received; parsing them as the next request answers 400 and abandons the upload)")
    ck.require_fact("P5b.no-parse-while-reading-body", ck.flow(pr), ev_call("ConnStateData::parseOneRequest"), E.m_is_mem("bodyPipe"), False, "parseOneRequest()",
                    why="(body bytes left in inBuf would be parsed as a pipelined request)")

    ck.rule("P7 ConnStateData::kick (a response finished): once the connection is known to be open after parseRequests(), every path consults pipeline.front(), and a "
            "non-null front is always handed to ClientSocketContextPushDeferredIfNeeded() -- in particular not only while flags.readMore is set: responses deferred "
            "behind the finished one must be released even after Squid stopped reading requests (e.g. after an error on a later pipelined request)")
    kk = facts.fn("ConnStateData::kick")
    opened = E.m_calls("ConnStateData::isOpen")
    ck.require_response("P7.kick-consults-front", kk, opened, True, ev_call(front), "pipeline.front()", term_kinds=("IfStmt",),
                        why="(deferred responses behind the finished one would never be pushed: the client waits forever)")
    ck.require_response("P7.kick-pushes-front", kk, ck.m_result_of(kk, front), True, ev_call("ClientSocketContextPushDeferredIfNeeded"), "PushDeferredIfNeeded()", term_kinds=("IfStmt",))

    ck.rule("P6 deferred delivery: every call of ClientSocketContextPushDeferredIfNeeded passes a local defined by pipeline.front(); inside, clientSocketRecipient is "
            "re-entered only with flags.deferred set and with that stream's own deferredparams; WHO(direct callers of clientSocketRecipient) = {that function}; "
            "deferRecipientForLater sets flags.deferred only when it was clear; WHO-writes(flags.deferred)")
    push = "ClientSocketContextPushDeferredIfNeeded"
    callers = ck.who_calls("P6.who-pushes", facts, push, {"ConnStateData::kick": "after a response finished", "ConnStateData::doneWithControlMsg": "after a 1xx was written"},
                           min_callers=2, kinds=("call", "ref"))
    for name in sorted({c[0] for c in callers}):
        fn = facts.fn(name)
        m = ck.m_result_of(fn, front)
        for s in ck.sites(ck.flow(fn), ev_call(push), push, 1):
            a0 = E.strip(s.ev["x"])["a"][0]
            while isinstance(E.strip(a0), dict) and E.strip(a0).get("k") == "ctor" and len(E.strip(a0).get("a", [])) == 1:
                a0 = E.strip(a0)["a"][0]        # copy of the smart pointer
            if m(a0):
                ck.ok("P6.push-head-only", s.where(), "%s pushes the deferred reply of pipeline.front()" % name)
            else:
                ck.violation("P6.push-head-only", "P6|%s|pushes-non-head" % name, s.where(), "%s pushes the deferred reply of %s, which is not defined by pipeline.front()" % (name, E.key(a0)))
    pf = facts.fn(push)
    ck.need(pf.params, "C05: %s lost its parameters" % push)
    st = pf.params[0]["d"]
    pfl = ck.flow(pf)
    dflag = "Http::Stream::(anonymous struct)::deferred"
    for s in ck.require_fact("P6.push-only-deferred", pfl, ev_call("clientSocketRecipient"), E.m_is_mem(dflag), True, "clientSocketRecipient()"):
        args = E.strip(s.ev["x"])["a"]
        roots = [{n["d"] for n in E.walk(a) if n.get("k") == "ref" and n.get("dk") in ("local", "param")} for a in args]
        if all(r == {st} for r in roots) and sum("Http::Stream::deferredparams" in E.mentions(a) for a in args) == 3:
            ck.ok("P6.push-own-params", s.where(), "the deferred call replays %s's own node/rep/buffer" % st)
        else:
            ck.violation("P6.push-own-params", "P6|push|foreign-params", s.where(), "the deferred clientSocketRecipient() call mixes parameters of different streams: %s" % E.key(s.ev["x"])[:160])
    ck.who_calls("P6.who-reenters", facts, "clientSocketRecipient", {push: "replays the deferred reply of the head stream"}, kinds=("call",))
    dfl = facts.fn("Http::Stream::deferRecipientForLater")
    ck.require_fact("P6.defer-once", ck.flow(dfl), ev_assign(dflag, E.m_const(1)), E.m_is_mem(dflag), False, "flags.deferred = 1",
                    why="(a second deferred reply would overwrite the first one: a response part would be lost)")
    ck.who_writes("P6.who-defers", facts, dflag, {"Http::Stream::Stream": "initialised clear", "Http::Stream::deferRecipientForLater": "set together with deferredparams"}, min_writers=2)
    ck.rule("P7b WHO(ConnStateData::stopReceiving): kick() closes the connection as soon as the response at the front has finished once stoppedReceiving() is set, so every "
            "response still queued behind it is dropped. Only the two confirmed callers may set it (connection-auth erased; the consumer of the request body being read "
            "aborted -- that body belongs to the last stream, nothing is queued behind it); an error on a later pipelined request must use flags.readMore = false instead")
    ck.who_calls("P7b.who-stops-receiving", facts, "ConnStateData::stopReceiving",
                 {"ConnStateData::setAuth": "connection-auth removed: graceful closure is the documented intent",
                  "Http::One::Server::noteBodyConsumerAborted": "the body being read belongs to pipeline.back(); closes ASAP by design"}, min_callers=2,
                 why="(responses queued behind the one in progress are never delivered once receiving is stopped)")

    ck.rule("P8 WHO-owner of the request body being read: by P5b no request is parsed while bodyPipe is set, so the body read from the client belongs to the most recently "
            "added stream, pipeline.back(). A ConnStateData member that attributes a property of that body to a pipelined request (HttpRequest::setContentLength with the "
            "dechunked size) must reach the request through a local defined by pipeline.back(): through pipeline.front() it lands on an *earlier* request that is still being "
            "served (a GET forwarded with the POST's Content-Length: the origin waits for a body that never comes, and both responses are lost)")
    nattr = 0
    for f in facts.all_fns(lambda f: f.name.startswith("ConnStateData::") and f.file.endswith("src/client_side.cc") and f.tmpl != 2):
        defs = ck.local_defs(f)
        for b in f.blocks.values():
            for ev in b["ev"]:
                x = E.strip(ev.get("x")) if ev.get("e") == "call" else None
                if not (isinstance(x, dict) and x.get("f", "").endswith("::setContentLength")):
                    continue
                roots = sorted({n_["d"] for n_ in E.walk(x.get("o")) if n_.get("k") == "ref" and n_.get("dk") == "local"})
                if len(roots) != 1:
                    continue
                ds = defs.get(roots[0], [])
                viaq = [E.strip(d).get("f") for d in ds if E.strip(d).get("k") == "call" and E.strip(d).get("f", "").startswith("Pipeline::")]
                if not viaq:
                    continue            # not reached through the pipeline (e.g. the request just parsed)
                nattr += 1
                if len(ds) == 1 and viaq == ["Pipeline::back"]:
                    ck.ok("P8.body-owner-is-back", f.where(ev["l"]), "%s: the body size goes to pipeline.back()'s request" % f.name)
                else:
                    ck.violation("P8.body-owner-is-back", "P8|%s|setContentLength|via:%s" % (f.name, ",".join(sorted(set(viaq)))), f.where(ev["l"]),
                                 "%s stamps the size of the body it has just read on the request of %s: with an earlier request still in the pipeline that is not the "
                                 "request this body belongs to (pipeline.back())" % (f.name, " / ".join(sorted(set(viaq)))))
    ck.need(nattr >= 1, "C05: no ConnStateData member attributes the dechunked body size through the pipeline any more (finishDechunkingRequest changed?)")

    ck.assume("which body is attached to which response is not decided; FTP (Ftp::Server::handleReply) relies on its Must(pipeline.count()==1); "
              "asynchronous re-entrancy between the gates is not modelled")
