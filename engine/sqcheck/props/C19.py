"""C19 SMP workers share cache entries consistently: publish-after-copy gates of the shared memory cache writer (dual of C16 W1-W3 for rock), the reader's
snapshot discipline in MemStore::copyFromShm and the completeness status a rock/shared-memory anchor gives a local entry."""
from .. import expr as E
from ..flow import ev_call, ev_return, ev_assign, ev_any, ev_exit, ev_decl, ev_throw

MS = "MemStore::"
MAP = "Ipc::StoreMap::"
SE = "StoreEntry::"
RSD = "Rock::SwapDir::"
IO = "MemObject::MemCache::io"


def atomic_op(member, ops):
    """local helper: `x.member op v` on a std::atomic member (the front end sees an operator call on the member)"""
    def p(ev):
        if ev.get("e") != "call":
            return False
        x = E.strip(ev.get("x"))
        if not isinstance(x, dict) or x.get("f", "").split("::")[-1] not in ops:
            return False
        o = E.strip(x.get("o") or {})
        return isinstance(o, dict) and o.get("k") == "mem" and o.get("m") == member
    return p


def need_locals(ck, fn, *names):
    have = {p.get("d") for p in fn.params} | {ev.get("d") for b in fn.blocks.values() for ev in b["ev"] if ev.get("e") == "decl"}
    ck.need(set(names) <= have, "C19: %s no longer has local(s) %s (renamed? re-confirm the rule instance)" % (fn.name, sorted(set(names) - have)))


def run(ck):
    facts = ck.facts(["src/MemStore.cc", "src/store_swapout.cc", "src/store/Controller.cc", "src/fs/rock/RockSwapDir.cc"], whole=True)
    io = facts.enum("Store::IoStatus")
    on_io = lambda K: (lambda cond: K if IO in E.mentions(cond) else None)

    # ------------------------------------------------------------------ P: who may publish and when
    ck.rule("P1 WHO: MemStore::write is called only by Store::Controller::memoryOut, memoryOut only by StoreEntry::swapOut, there only with ENTRY_ABORTED F "
            "(an aborted entry, which has store_status == STORE_OK, never reaches the shared-memory writer); MemStore::completeWriting is called only by MemStore::write; "
            "inside MemStore only completeWriting calls closeForWriting and nothing calls switchWritingToReading")
    ck.who_calls("P1.who-writes-shm", facts, MS + "write", {"Store::Controller::memoryOut": "the one memory-cache writer hook"}, kinds=("call", "ref"))
    ck.who_calls("P1.who-writes-shm", facts, "Store::Controller::memoryOut", {SE + "swapOut": "after the ENTRY_ABORTED test"}, kinds=("call", "ref"))
    ck.who_calls("P1.who-publishes-shm", facts, MS + "completeWriting", {MS + "write": "after copyToShm() of a STORE_OK entry (P2)"}, kinds=("call", "ref"))
    so = facts.fn(SE + "swapOut")
    aborted = E.M(lambda t: {SE + "flags", "ENTRY_ABORTED"} <= E.mentions(t), "ENTRY_ABORTED")
    ck.require_fact("P1.aborted-not-shared", ck.flow(so), ev_call("Store::Controller::memoryOut"), aborted, False, "memoryOut()",
                    why="(abort() sets STORE_OK, so MemStore::write would publish the truncated entry as complete)")
    n_close = 0
    for fn in facts.all_fns():
        if not fn.name.startswith(MS):
            continue
        for b in fn.blocks.values():
            for ev in b["ev"]:
                if ev_call({MAP + "closeForWriting", MAP + "switchWritingToReading", MAP + "closeForWritingAndSwitchToReading"})(ev):
                    n_close += 1
                    if fn.name == MS + "completeWriting" and E.strip(ev["x"])["f"] == MAP + "closeForWriting":
                        ck.ok("P1.who-publishes-shm", fn.where(ev["l"]), "closeForWriting inside completeWriting")
                    else:
                        ck.violation("P1.who-publishes-shm", "P1|publisher|%s" % fn.name, fn.where(ev["l"]), "%s makes a shared-memory entry readable as complete outside completeWriting" % fn.name)
    ck.need(n_close >= 1, "C19: MemStore no longer calls closeForWriting")

    ck.rule("P2 MemStore::write: completeWriting() only with e.store_status == STORE_OK and after copyToShm() on the same path; under memCache.io == ioDone/ioReading neither "
            "copyToShm() nor completeWriting() is reachable; copyToShm returns normally only with memCache.offset < eSize F (everything received so far was copied)")
    wr = facts.fn(MS + "write")
    done = ev_call(MS + "completeWriting")
    fl = ck.flow(wr, markers={"copied": ev_call(MS + "copyToShm")})
    # `e.store_status == STORE_OK` is normalised to the atom `e.store_status` == F because STORE_OK is the enumerator 0
    ck.need(any(cv == 0 for (n, f, l, op, cv) in facts.writers(SE + "store_status") if n == SE + "complete"),
            "C19: STORE_OK is no longer the zero enumerator written by StoreEntry::complete (re-confirm the P2 instance)")
    hoisted = E.M(lambda t: E.strip(t).get("k") == "ref" and E.strip(t).get("dk") == "local" and {SE + "store_status", "STORE_OK"} <= ck.closure_mentions(wr, t), "local(store_status == STORE_OK)")
    ck.require_any_fact("P2.publish-only-complete", fl, done, [(E.m_is_mem(SE + "store_status"), False), (hoisted, True),
                                                               (E.m_cmp("==", E.m_is_mem(SE + "store_status"), E.M(lambda t: "STORE_OK" in E.mentions(t), "STORE_OK")), True)],
                        "completeWriting()", why="(readers in other workers would take an entry that is still being received for a complete one)")
    ck.require_passed("P2.publish-only-complete", fl, done, "copied", "completeWriting()", why="(the last bytes would not be in shared memory when the entry becomes complete)")
    for st in ("ioDone", "ioReading"):
        ck.require_unreachable("P2.only-the-writer-writes", ck.flow(wr, switch_assume=on_io(io[st])), ev_call({MS + "copyToShm", MS + "completeWriting", MS + "startCaching"}),
                               "copyToShm|completeWriting", "memCache.io == " + st, why="(a reader of the entry would write into / close the writer's map slot)")
    ck.sites(ck.flow(wr, switch_assume=on_io(io["ioWriting"])), ev_call(MS + "copyToShm"), "copyToShm under ioWriting", 1)
    cts = facts.fn(MS + "copyToShm")
    need_locals(ck, cts, "eSize")
    ck.require_fact("P2.all-copied", ck.flow(cts), ev_exit(), E.m_cmp("<", E.m_is_mem("MemObject::MemCache::offset"), E.m_is_ref("eSize")), False, "return", min_sites=2,
                    why="(completeWriting() would follow a partial copy)")

    ck.rule("P3 MemStore::startCaching: the anchor basics are set (slot->set(e)) before map->startAppending() lets readers in, and startAppending() only with expectedReplySize() < 0 F "
            "(readers detect a truncated known-size entry by its length; an unknown-size entry stays invisible until closeForWriting); `return true` only with the write lock (slot)")
    stc = facts.fn(MS + "startCaching")
    slot = ck.m_result_of(stc, MAP + "openForWriting")
    app = ev_call(MAP + "startAppending")
    fl = ck.flow(stc, markers={"set": ev_call("Ipc::StoreMapAnchor::set")})
    ck.require_passed("P3.basics-before-readers", fl, app, "set", "startAppending()", why="(a reader would export an anchor without key/size/flags)")
    ck.require_fact("P3.unknown-size-not-appendable", fl, app, E.m_cmp("<", E.m_calls("MemObject::expectedReplySize"), E.m_const(0)), False, "startAppending()",
                    why="(readers could not tell a truncated EOF-delimited entry from a complete one)")
    ck.require_fact("P3.needs-write-lock", fl, ev_any(ev_return(E.m_const(1)), ev_call("Ipc::StoreMapAnchor::set")), slot, True, "slot->set()|return true", min_sites=2)

    ck.rule("P4 MemStore::copyToShmSlice: slice.size += copied only with copied <= 0 F and after data_hdr.copy() filled the page (bytes before the size that announces them); "
            "the added amount is the copy result; copyToShm sets anchor.start only with start < 0")
    css = facts.fn(MS + "copyToShmSlice")
    grow = atomic_op("Ipc::StoreMapSlice::size", ("operator+=", "fetch_add"))
    fl = ck.flow(css, markers={"bytes": ev_call("mem_hdr::copy")})
    copied = ck.m_result_of(css, "mem_hdr::copy")
    ck.require_passed("P4.bytes-before-size", fl, grow, "bytes", "slice.size +=", why="(another worker could read page bytes that were not written yet)")
    for s in ck.sites(fl, grow, "slice.size +=", 1):
        a = E.strip(s.ev["x"]).get("a", [])
        if len(a) == 1 and copied(a[0]) and s.has(E.m_cmp("<", E.m_const(0), copied), True):
            ck.ok("P4.size-is-copy-result", s.where(), "slice.size grows by the positive data_hdr.copy() result")
        else:
            ck.violation("P4.size-is-copy-result", "P4|copyToShmSlice|size-amount", s.where(), "copyToShmSlice announces %s bytes without (0 < copy result) established (facts: %s)"
                         % (E.key(a[0]) if a else "?", ", ".join(s.fact_keys())[:200]), fl.witness(s))
    ck.require_fact("P4.chain-head-once", ck.flow(cts), atomic_op("Ipc::StoreMapAnchor::start", ("operator=", "store")), E.m_cmp("<", E.m_mentions("Ipc::StoreMapAnchor::start"), E.m_const(0)), True,
                    "anchor.start =", why="(the head of a chain that readers already follow would be replaced)")

    # ------------------------------------------------------------------ R: the reader's snapshots
    ck.rule("R1 MemStore::copyFromShm, per slice: the eof snapshot (anchor.complete() && slice.next < 0) is taken before the size snapshot wasSize; the local copy length, the "
            "offset advance and the already-copied test use wasSize, never a re-read slice.size; sid = slice.next / break only with wasSize < slice.size F (slice did not grow meanwhile)")
    cfs = facts.fn(MS + "copyFromShm")
    need_locals(ck, cfs, "wasEof", "wasSize", "sid", "sliceOffset")
    fl = ck.flow(cfs, markers={"eof": ev_assign("wasEof", ops=("=",))})
    ck.require_passed("R1.eof-before-size", fl, ev_decl("wasSize"), "eof", "wasSize = slice.size",
                      why="(a writer finishing between the two reads would make a stale size count as final: a truncated copy marked complete)")
    for s in ck.sites(fl, ev_assign("wasEof", ops=("=",)), "wasEof =", 1):
        if {"Ipc::StoreMapAnchor::complete", "Ipc::StoreMapSlice::next"} <= ck.closure_mentions(cfs, s.ev.get("rhs")) | E.mentions(s.ev.get("rhs")):
            ck.ok("R1.eof-before-size", s.where(), "wasEof derives from anchor.complete() and slice.next")
        else:
            ck.violation("R1.eof-before-size", "R1|copyFromShm|eof-source", s.where(), "copyFromShm: wasEof no longer derives from anchor.complete() && slice.next < 0 (%s)" % E.key(s.ev.get("rhs")))
    grew = E.m_cmp("<", E.m_is_ref("wasSize"), E.m_mentions("Ipc::StoreMapSlice::size"))
    step = ev_assign("sid", ops=("=",))
    ck.require_fact("R1.advance-only-if-stable", fl, step, grew, False, "sid = slice.next", why="(bytes appended to the slice after the snapshot would be skipped)")
    ck.require_fact("R1.advance-only-if-stable", fl, ev_assign("sliceOffset", ops=("+=",)), grew, False, "sliceOffset += wasSize")
    for s in ck.sites(fl, ev_assign("sliceOffset", ops=("+=",)), "sliceOffset +=", 1):
        if E.m_is_ref("wasSize")(s.ev.get("rhs")):
            ck.ok("R1.uses-snapshot", s.where(), "offset advances by the snapshot")
        else:
            ck.violation("R1.uses-snapshot", "R1|copyFromShm|offset-amount", s.where(), "copyFromShm advances sliceOffset by %s instead of the size snapshot" % E.key(s.ev.get("rhs")))
    for s in ck.sites(fl, ev_decl("sliceBuf"), "sliceBuf", 1):
        m = E.mentions(s.ev.get("init"))
        if "wasSize" in m and "Ipc::StoreMapSlice::size" not in m:
            ck.ok("R1.uses-snapshot", s.where(), "copy length derives from the snapshot")
        else:
            ck.violation("R1.uses-snapshot", "R1|copyFromShm|copy-length", s.where(), "copyFromShm sizes the local copy by %s instead of the size snapshot" % E.key(s.ev.get("init"))[:120])
    brk = [b for b in cfs.blocks.values() if b.get("term", {}).get("k") == "BreakStmt"]
    ck.need(len(brk) == 1, "C19: copyFromShm no longer has exactly one break out of the slice loop")
    stable_exit = [n for n, f in fl.IN.items() if n[0] == brk[0]["id"]]
    ck.need(stable_exit, "C19: the break of copyFromShm's slice loop is unreachable")
    if all(any(x[0] == "A" and x[2] is False and grew(fl.trees[x[1]]) for x in fl.IN[n]) for n in stable_exit):
        ck.ok("R1.advance-only-if-stable", cfs.where(brk[0]["term"].get("l")), "the loop is left at the last slice only with wasSize < slice.size F")
    else:
        ck.violation("R1.advance-only-if-stable", "R1|copyFromShm|break", cfs.where(brk[0]["term"].get("l")), "copyFromShm leaves the slice loop without having seen the last slice stable (wasSize >= slice.size)")

    ck.rule("R2 MemStore::anchorToCache RESPONSE(updateAnchoredWith() F -> throw); Rock::SwapDir::anchorEntry: store_status is STORE_OK and the disk status SWAPOUT_DONE only through "
            "`complete ? ... : STORE_PENDING/SWAPOUT_WRITING` with complete = anchor.complete(); Rock::SwapDir::get/anchorToCache call anchorEntry only with openForReading() non-null")
    atc = facts.fn(MS + "anchorToCache")
    ck.require_response("R2.failed-load-throws", atc, ck.m_result_of(atc, MS + "updateAnchoredWith"), False, ev_throw(), "throw", exits=("ret", "fall"),
                        why="(Controller::anchorToCache would report a half-loaded/halted entry as found)")
    rae = facts.fn(RSD + "anchorEntry")
    is_complete = lambda t: "Ipc::StoreMapAnchor::complete" in (ck.closure_mentions(rae, t) | E.mentions(t))
    rfl = ck.flow(rae)
    for s in ck.sites(rfl, ev_assign(SE + "store_status"), "store_status =", 1):
        r = E.strip(s.ev.get("rhs"))
        if r.get("k") == "cond" and is_complete(r["c"]) and "STORE_OK" in E.mentions(r["t"]) and "STORE_PENDING" in E.mentions(r["f"]):
            ck.ok("R2.rock-status-from-anchor", s.where(), "store_status = complete ? STORE_OK : STORE_PENDING")
        else:
            ck.violation("R2.rock-status-from-anchor", "R2|Rock::SwapDir::anchorEntry|store_status", s.where(), "anchorEntry sets store_status = %s (expected anchor.complete() ? STORE_OK : STORE_PENDING)" % E.key(r))
    for s in ck.sites(rfl, ev_call(SE + "attachToDisk"), "attachToDisk()", 1):
        a = E.strip(s.ev["x"]).get("a", [])
        r = E.strip(a[2]) if len(a) == 3 else {}
        if r.get("k") == "cond" and is_complete(r["c"]) and "SWAPOUT_DONE" in E.mentions(r["t"]) and "SWAPOUT_WRITING" in E.mentions(r["f"]):
            ck.ok("R2.rock-status-from-anchor", s.where(), "swap status = complete ? SWAPOUT_DONE : SWAPOUT_WRITING")
        else:
            ck.violation("R2.rock-status-from-anchor", "R2|Rock::SwapDir::anchorEntry|swap_status", s.where(), "anchorEntry attaches with %s" % s.desc()[:100])
    for name in ("get", "anchorToCache"):
        fn = facts.fn(RSD + name)
        ck.require_fact("R2.anchor-needs-read-lock", ck.flow(fn), ev_call(RSD + "anchorEntry"), ck.m_result_of(fn, MAP + "openForReading"), True, "anchorEntry()",
                        why="(an entry would be anchored to a slot it holds no read lock on)")
    ck.rule("R1b copyFromShm, what is copied out of a (possibly still growing) slice: the StoreIOBuffer handed to copyFromShmSlice() has length = <size snapshot> - P, "
            "object offset = e.mem_obj->endOffset() and data = <page> + P with one and the same P, the part of this slice copied on earlier visits "
            "(P defined from endOffset() - sliceOffset); a reader that joins while the writer is still appending must continue *after* what it already has")
    cfs = facts.fn("MemStore::copyFromShm")
    cdefs = ck.local_defs(cfs)
    nbuf = 0
    for b in cfs.blocks.values():
        for ev in b["ev"]:
            if ev.get("e") != "decl" or E.strip(ev.get("init") or {}).get("f") != "StoreIOBuffer::StoreIOBuffer":
                continue
            a = E.strip(ev["init"]).get("a", [])
            if len(a) != 3:
                continue
            nbuf += 1
            ln, off, data = (E.strip(x) for x in a)
            skipped = E.strip(ln.get("r")) if ln.get("k") == "bin" and ln.get("op") == "-" else None
            adv = None
            if data.get("k") == "bin" and data.get("op") == "+":
                adv = E.strip(data["r"]) if E.strip(data["l"]).get("t", "").endswith("*") or E.strip(data["l"]).get("k") == "ref" else E.strip(data["l"])
            pdefs = cdefs.get(skipped.get("d"), []) if skipped is not None and skipped.get("k") == "ref" else []
            p_ok = bool(pdefs) and all(any(n.get("f") == "MemObject::endOffset" for n in E.walk(d)) and "sliceOffset" in E.mentions(d) and E.strip(d).get("op") == "-" for d in pdefs)
            if skipped is not None and adv is not None and E.ckey(skipped) == E.ckey(adv) and p_ok and any(n.get("f") == "MemObject::endOffset" for n in E.walk(off)):
                ck.ok("R1b.copy-continues-after-prefix", cfs.where(ev["l"]), "sliceBuf(size - P, endOffset(), page + P) with P = endOffset() - sliceOffset")
            else:
                ck.violation("R1b.copy-continues-after-prefix", "R1b|copyFromShm|slice-buffer-shape", cfs.where(ev["l"]),
                             "copyFromShm builds the slice buffer as (%s, %s, %s): length, object offset and source pointer no longer skip the same already-copied prefix, so a "
                             "reader joining a growing slice re-copies its beginning at a later object offset (a complete-looking body with wrong bytes)"
                             % (E.key(ln)[:50], E.key(off)[:40], E.key(data)[:50]))
    ck.need(nbuf == 1, "C19: copyFromShm no longer builds exactly one StoreIOBuffer for the slice (found %d)" % nbuf)
    ck.assume("interleavings are NOT decided: the gates fix program order only (std::atomic members with default seq_cst order are C54/C55's concern); the lock/slice protocol of the "
              "shared map is C55/C54/C53, the reader-side completion rule of copyFromShm is C10 M1, rock publish-after-write is C16; the catch handler of MemStore::write "
              "(exception -> disconnect -> abortWriting) and nextAppendableSlice's page bookkeeping are not modelled")
    ck.assume("invalidation across workers (evictCached/freeEntry + waitingToBeFreed refusal in openForReading) is C55/C20; disker I/O (IpcIoFile) message pairing is C56/C58; byte identity is a run-time relation")
