"""C41 Domain-name ACL value sets: structural clauses of the merge protocol, the char* value algebra and matchDomainName.

Decides (a) the gate/role protocol of Acl::SplayInserter<T>::Merge, (b) the decision tables of SplayInserter<char*>::IsSubset/Compare over their
comparison atoms, (c) the lookup wiring of ACLDomainData::match/parse and (d) the suffix-walk decision tables of matchDomainName(h, d, mdnNone).
It does NOT decide set equality over all value lists/insertion orders (value reasoning); see ck.assume() at the end.
The helpers fold(), truth(), paths(), table(), cmp_leaf(), compared_consts(), origin() and check_merge() are shared with C42/C43.
"""
from itertools import product

from .. import expr as E

DEBUG_MACS = {"debugs", "DBG_PARSE_NOTE", "DBG_IMPORTANT", "DBG_CRITICAL"}
SI = "Acl::SplayInserter::"


# ------------------------------------------------------------------ shared helpers
def short(t):
    t = E.strip(t)
    return t.get("f", "").split("::")[-1] if isinstance(t, dict) and t.get("k") == "call" else None


def is_ref(t, name):
    t = E.strip(t)
    return isinstance(t, dict) and t.get("k") == "ref" and t.get("d") == name


def truth(ck, t, leaf, what):
    """boolean value of a condition tree under a total valuation of its recognised leaf atoms (unrecognised leaf: exit 2)"""
    t, pol = E.norm(t)
    if isinstance(t, dict) and t.get("k") == "bin" and t.get("op") in ("&&", "||"):
        a = truth(ck, t["l"], leaf, what)
        v = (a and truth(ck, t["r"], leaf, what)) if t["op"] == "&&" else (a or truth(ck, t["r"], leaf, what))
    elif isinstance(t, dict) and t.get("k") == "cond":
        v = truth(ck, t["t"] if truth(ck, t["c"], leaf, what) else t["f"], leaf, what)
    elif isinstance(t, dict) and t.get("k") == "lit":
        v = bool(t.get("v"))
    else:
        v = leaf(t)
        ck.need(v is not None, "%s: unrecognised atom %s (not one of the comparison atoms of the decision table)" % (what, E.key(t)))
    return bool(v) if pol else not v


def fold(ck, fn, start, leaf, what, stop=(), pure=lambda ev: False):
    """deterministic walk from block `start` under a total valuation -> ('ret', tree) | ('back', None) | ('exit', None);
    every event passed must be `pure` (else the function is not a pure decision table: exit 2)"""
    bid = start
    for _ in range(400):
        b = fn.blocks[bid]
        via = {e.get("x_via_local") for e in b["ev"] if e.get("e") == "ret"}       # `T v = e; return v;` is presented as `return e;` (facts.py)
        for ev in b["ev"]:
            if ev.get("e") == "ret":
                return "ret", ev.get("x")
            if ev.get("e") == "decl" and ev.get("d") in via:
                continue
            ck.need(pure(ev), "%s: unrecognised side effect '%s' on a decision path" % (what, E.key(ev.get("x") or ev.get("lhs") or {"k": ev.get("e")})))
        succ = b["succ"]
        if bid == fn.exit or not succ:
            return "exit", None
        if len(succ) == 1:
            nxt = succ[0]["to"]
        else:
            labs = {s.get("lab"): s["to"] for s in succ}
            term = b.get("term") or {}
            ck.need(set(labs) == {"T", "F"} and term.get("c") is not None, "%s: unrecognised branch kind %s" % (what, term.get("k")))
            nxt = labs["F" if term.get("mac") in DEBUG_MACS else ("T" if truth(ck, term["c"], leaf, what) else "F")]
        if nxt in stop:
            return "back", None
        bid = nxt
    ck.need(False, "%s: fold does not terminate" % what)


def paths(ck, fn, start, stop, what):
    """all acyclic paths from block `start` until a return, the function exit or an edge into `stop`:
    [(end, items)] with items ('ev', event) | ('atom', leaf tree, value); debug-macro branches are skipped"""
    out = []

    def walk(bid, items, seen):
        ck.need(len(out) < 2000, "%s: too many paths" % what)
        b = fn.blocks[bid]
        items = list(items)
        for ev in b["ev"]:
            items.append(("ev", ev))
            if ev.get("e") == "ret":
                out.append(("ret", items))
                return
        if bid == fn.exit or not b["succ"]:
            out.append(("exit", items))
            return
        term = b.get("term") or {}
        for s in b["succ"]:
            lab, to = s.get("lab"), s["to"]
            more = []
            if len(b["succ"]) > 1:
                ck.need(lab in ("T", "F") and term.get("c") is not None, "%s: unrecognised branch kind %s" % (what, term.get("k")))
                if term.get("mac") in DEBUG_MACS:
                    if lab == "T":
                        continue
                else:
                    more = [("atom", t, v) for t, v in E.implied(term["c"], lab == "T")]
            if (bid, to) in seen:
                continue
            if to == stop:
                out.append(("back", items + more))
            else:
                walk(to, items + more, seen | {(bid, to)})
    walk(start, [], frozenset())
    return out


def origin(ck, fn, t, depth=4):
    """name of the parameter an expression is a (cast/copy) alias of, looking through single-definition locals; else None"""
    t = E.strip(t)
    if not isinstance(t, dict):
        return None
    if t.get("k") == "call" and t.get("f") in ("std::move", "std::forward") and t.get("a"):
        return origin(ck, fn, t["a"][0], depth)
    if t.get("k") != "ref":
        return None
    if t.get("dk") == "param":
        return t["d"]
    ds = ck.local_defs(fn).get(t["d"], [])
    return origin(ck, fn, ds[0], depth - 1) if len(ds) == 1 and depth else None


def loop_head(ck, fn, pred, what):
    hs = [b for b in fn.blocks.values() if (b.get("term") or {}).get("k") in ("WhileStmt", "ForStmt", "CXXForRangeStmt") and pred(b)]
    ck.need(len(hs) == 1, "%s: expected one loop head, found %d" % (what, len(hs)))
    return hs[0]


def check_merge(ck, facts, inst):
    """protocol gates of Acl::SplayInserter<T>::Merge (template pattern and the instantiation whose full name contains `inst`)"""
    ck.rule("M1 Merge: the new item is dropped (return inside the loop) only with IsSubset(newItem, oldItem) true as the last such test (argument roles)")
    ck.rule("M2 Merge: storage.remove() takes oldItem and is reached only with IsSubset(oldItem, newItem) true or after newItem = MakeCombinedValue(oldItem, newItem)")
    ck.rule("M3 Merge: newItem is only ever replaced by MakeCombinedValue() of exactly {oldItem, newItem}")
    ck.rule("M4 Merge: DestroyValue(oldItem) only after remove(oldItem); a destroyed newItem is never re-inserted or left in the tree")
    ck.rule("M5 Merge: insert() and remove() use one comparator, the address of SplayInserter::Compare")
    ck.rule("M6 Merge: the function ends, other than by M1, only on the edge where storage.insert(newItem, comparator) returned null")
    fns = [f for f in facts.fns(SI + "Merge") if f.tmpl == 1 or inst in f.full]
    ck.need(any(inst in f.full for f in fns), "Merge instantiation for %s not found" % inst)
    for fn in fns:
        tag = "Merge" + (inst if inst in fn.full else "<T>")
        ck.stats["functions"].add(fn.full)
        ck.need(len(fn.params) == 2, "%s: parameters changed" % tag)
        STORE, NEW = fn.params[0]["d"], fn.params[1]["d"]
        is_ins = lambda t: short(t) == "insert" and is_ref(E.strip(t).get("o"), STORE)
        head = loop_head(ck, fn, lambda b: any(e.get("e") == "decl" and is_ins(e.get("init")) for e in b["ev"]), tag)
        PTR = [e["d"] for e in head["ev"] if e.get("e") == "decl" and is_ins(e.get("init"))][0]
        ck.need(is_ref(head["term"]["c"], PTR), "%s: loop condition is not the insert() result" % tag)
        defs = ck.local_defs(fn)
        olds = [n for n, ds in defs.items() if len(ds) == 1 and E.strip(ds[0]).get("k") == "un" and E.strip(ds[0]).get("op") == "*" and is_ref(E.strip(ds[0])["e"], PTR)]
        ck.need(len(olds) == 1, "%s: no single local holding *%s" % (tag, PTR))
        OLD = olds[0]
        role = lambda t: "new" if is_ref(t, NEW) else ("old" if is_ref(t, OLD) else None)

        def cmp_of(t, depth=3):
            """the function a comparator expression designates (through single-definition locals), 'lambda', else exit 2"""
            t = E.strip(t)
            if isinstance(t, dict) and t.get("k") == "un" and t.get("op") == "&":
                t = E.strip(t["e"])
            if isinstance(t, dict) and t.get("k") == "call" and E.strip(t.get("o")).get("k") == "lambda":
                t = E.strip(t["o"])        # conversion of a captureless lambda to a function pointer
            if isinstance(t, dict) and t.get("k") == "lambda":
                return "lambda"
            if isinstance(t, dict) and t.get("k") == "ref" and t.get("dk") == "func":
                return t["d"]
            ds = defs.get(t.get("d"), []) if isinstance(t, dict) and t.get("k") == "ref" else []
            ck.need(len(ds) == 1 and depth, "%s: unrecognised comparator %s" % (tag, E.key(t)))
            return cmp_of(ds[0], depth - 1)
        n = {"ret": 0, "remove": 0, "exit": 0, "destroy": 0, "replace": 0, "bad": 0}

        def bad(rule, key, ev, text):
            n["bad"] += 1
            ck.violation(rule, "%s|%s|%s" % (rule.split(".")[0], tag, key), fn.where(ev.get("l") if ev else None), "%s: %s" % (tag, text))

        def combined(t):
            """None: not a MakeCombinedValue call; else whether its arguments are exactly {oldItem, newItem}"""
            if short(t) != "MakeCombinedValue":
                return None
            return sorted(str(role(a)) for a in E.strip(t).get("a", [])) == ["new", "old"]

        for end, items in paths(ck, fn, head["id"], head["id"], tag):
            sub, cmpk, comb, removed, dead, ptr, merged, pending = {}, None, {}, False, False, None, False, None
            for it in items:
                if it[0] == "atom":
                    t = E.strip(it[1])
                    if short(t) == "IsSubset":
                        r = tuple(role(a) for a in t.get("a", []))
                        ck.need(r in (("new", "old"), ("old", "new")), "%s: IsSubset() on unrecognised operands %s" % (tag, E.key(t)))
                        sub[r] = it[2]
                    elif is_ref(t, PTR):
                        ptr = it[2]
                    continue
                ev = it[1]
                k = ev.get("e")
                if k == "ret":
                    n["ret"] += 1
                    if sub.get(("new", "old")) is True:
                        ck.ok("M1.drop-new-gate", fn.where(ev.get("l")), "%s: return only with IsSubset(%s, %s) true" % (tag, NEW, OLD))
                    else:
                        bad("M1.drop-new-gate", "return-without-IsSubset(new,old)", ev, "the new item is dropped without IsSubset(%s, %s) being true "
                            "(tests on this path: %s): a value not covered by the old one is lost" % (NEW, OLD, sub))
                elif k == "decl":
                    init = ev.get("init")
                    if ev["d"] == PTR:
                        ck.need(len(E.strip(init).get("a", [])) == 2, "%s: insert() arguments changed" % tag)
                        cmpk = cmp_of(E.strip(init)["a"][1])
                        ck.need(is_ref(E.strip(init)["a"][0], NEW), "%s: insert() does not insert %s" % (tag, NEW))
                    elif ev["d"] == OLD:
                        pass
                    elif combined(init) is not None:
                        comb[ev["d"]] = combined(init)
                    else:
                        ck.need(False, "%s: unrecognised local %s in the loop" % (tag, ev["d"]))
                elif k == "asg":
                    ck.need(is_ref(ev.get("lhs"), NEW) and ev.get("op") == "=", "%s: unrecognised assignment to %s" % (tag, E.key(ev.get("lhs"))))
                    n["replace"] += 1
                    r = E.strip(ev.get("rhs"))
                    good = comb.get(r.get("d")) if r.get("k") == "ref" else combined(r)
                    if good:
                        ck.ok("M3.combine-roles", fn.where(ev.get("l")), "%s: %s = MakeCombinedValue{%s, %s}" % (tag, NEW, OLD, NEW))
                    else:
                        bad("M3.combine-roles", "replacement-not-combined", ev, "%s is replaced by %s, not by MakeCombinedValue() of exactly {%s, %s}" % (NEW, E.key(r), OLD, NEW))
                    merged, dead, sub = good is not None, False, {}
                    if pending and merged:
                        ck.ok("M2.remove-old-gate", fn.where(pending[0].get("l")), "%s: remove(%s) on the path that merges it into %s" % (tag, OLD, NEW))
                        pending = None
                elif k == "call":
                    x = E.strip(ev["x"])
                    f = short(x)
                    if f in ("insert", "IsSubset", "MakeCombinedValue") or E.strip(x.get("o") or {}).get("k") == "lambda":
                        continue
                    a = x.get("a", [])
                    if f == "remove" and is_ref(x.get("o"), STORE) and len(a) == 2:
                        n["remove"] += 1
                        if role(a[0]) != "old":
                            bad("M2.remove-old-gate", "remove-victim", ev, "remove() is applied to %s, not to the old item" % E.key(a[0]))
                        elif sub.get(("old", "new")) is True or merged:
                            ck.ok("M2.remove-old-gate", fn.where(ev.get("l")), "%s: remove(%s) under IsSubset(%s, %s) or after the merge" % (tag, OLD, OLD, NEW))
                        else:
                            pending = (ev, dict(sub))     # acceptable only if the merge still follows on this path
                        if cmp_of(a[1]) == cmpk:
                            ck.ok("M5.same-comparator", fn.where(ev.get("l")), "%s: remove() uses the comparator of insert()" % tag)
                        else:
                            bad("M5.same-comparator", "remove-comparator", ev, "remove() uses comparator %s, insert() used %s" % (cmp_of(a[1]), cmpk))
                        removed = True
                    elif f == "DestroyValue" and len(a) == 1 and role(a[0]):
                        n["destroy"] += 1
                        if role(a[0]) == "old":
                            if removed:
                                ck.ok("M4.destroy-discipline", fn.where(ev.get("l")), "%s: DestroyValue(%s) after remove()" % (tag, OLD))
                            else:
                                bad("M4.destroy-discipline", "old-destroyed-in-tree", ev, "the old item is destroyed while still in the tree")
                        else:
                            dead = True
                    else:
                        ck.need(False, "%s: unrecognised action %s in the loop" % (tag, E.key(x)))
            last = [i for i in items if i[0] == "ev"][-1][1]
            if pending:
                bad("M2.remove-old-gate", "remove-without-cover", pending[0], "the old item is removed although neither IsSubset(%s, %s) was true nor %s is replaced by the "
                    "combined value on that path (tests: %s): a configured value is lost" % (OLD, NEW, NEW, pending[1]))
            if end in ("back", "exit") and dead:
                bad("M4.destroy-discipline", "new-destroyed-but-kept", last, "a destroyed new item is re-inserted / left in the tree")
            elif end == "back":
                ck.ok("M4.destroy-discipline", fn.where(last.get("l")), "%s: the item carried into the next insert() is alive" % tag)
            if end == "exit":
                n["exit"] += 1
                if ptr is False:
                    ck.ok("M6.loop-exit", fn.where(), "%s: falls off the end only with %s null" % (tag, PTR))
                else:
                    bad("M6.loop-exit", "exit-without-null-insert", None, "the function can end without insert() having returned null (the new value is not stored)")
        ck.need(n["bad"] or n["ret"] >= 1 and n["remove"] >= 2 and n["exit"] >= 1 and n["destroy"] >= 3 and n["replace"] >= 1, "%s: anchors vanished %s" % (tag, n))
        if cmpk == SI + "Compare":
            ck.ok("M5.same-comparator", fn.where(), "%s: comparator = &SplayInserter::Compare" % tag)
        else:
            ck.violation("M5.same-comparator", "M5|%s|comparator-not-Compare" % tag, fn.where(), "%s: the insert comparator is %s, not SplayInserter::Compare" % (tag, cmpk))


def table(ck, rule, fn, start, atoms, leaf_of, want, classify, what, stop=(), pure=lambda ev: False, skip=lambda a: False):
    """fold fn under every assignment of `atoms` ({name: domain of representatives}) and compare classify(outcome) with want(assignment)
    (a class or a set of classes); one aggregated verdict per table"""
    names = sorted(atoms)
    ck.stats["functions"].add(fn.full)
    bad, n = [], 0
    for vals in product(*[atoms[k] for k in names]):
        asg = dict(zip(names, vals))
        if skip(asg):
            continue
        n += 1
        got = classify(asg, *fold(ck, fn, start, leaf_of(asg), what, stop=stop, pure=pure))
        w = want(asg)
        if not (got == w or (isinstance(w, (set, frozenset, tuple)) and got in w)):
            bad.append("[%s]: code %s, reference %s" % (",".join("%s=%s" % (k, asg[k]) for k in names), got, w))
    ck.need(n >= 1, "%s: decision table has no row" % what)
    if bad:
        ck.violation(rule, "%s|%s|table-mismatch" % (rule.split(".")[0], what), fn.where(), "%s deviates from the reference decision table on %d of %d rows, e.g. %s"
                     % (what, len(bad), n, "; ".join(bad[:4])))
    else:
        ck.ok(rule, fn.where(), "%s: all %d rows over %s agree with the reference table" % (what, n, {k: list(atoms[k]) for k in names}))


def cmp_leaf(val, extra=lambda t: None):
    """leaf valuation by concrete representatives: normalised atoms (x == y), (x < y) and plain x, where val(tree) -> (sort, int) | None;
    only values of one sort (or a literal, sort 'k') are comparable, anything else is unrecognised"""
    def leaf(t):
        t = E.strip(t)
        if isinstance(t, dict) and t.get("k") == "bin" and t.get("op") in ("==", "<"):
            l, r = [val(x) or (("k", E.const(x)) if E.const(x) is not None else None) for x in (t["l"], t["r"])]
            if l is None or r is None or (l[0] != r[0] and "k" not in (l[0], r[0])):
                return None
            return (l[1] == r[1]) if t["op"] == "==" else (l[1] < r[1])
        v = val(t)
        return extra(t) if v is None else v[1] != 0
    return leaf


def compared_consts(fn, is_var):
    """integer constants some comparison in fn relates to an operand satisfying is_var"""
    out = set()
    for b in fn.blocks.values():
        for tr in [ev.get(k) for ev in b["ev"] for k in ("x", "rhs", "init")] + [(b.get("term") or {}).get("c")]:
            for nd in E.walk(tr):
                if nd.get("k") == "bin" and nd.get("op") in ("==", "!=", "<", ">", "<=", ">="):
                    for u, v in ((nd["l"], nd["r"]), (nd["r"], nd["l"])):
                        if is_var(u) and E.const(v) is not None:
                            out.add(E.const(v))
    return out


def around(base, consts, lo=None):
    d = set(base) | {k + i for k in consts for i in (-1, 0, 1)}
    return sorted(x for x in d if lo is None or x >= lo)


def sign(t):
    c = E.const(t)
    return None if c is None else ("zero" if c == 0 else ("neg" if c < 0 else "pos"))


# ------------------------------------------------------------------ C41 proper
def mdn_call(t, x, y):
    """t is matchDomainName(x, y[, mdnNone]) on the named operands"""
    t = E.strip(t)
    return short(t) == "matchDomainName" and len(t.get("a", [])) in (2, 3) and is_ref(t["a"][0], x) and is_ref(t["a"][1], y) and (len(t["a"]) == 2 or E.const(t["a"][2]) == 0)


def run(ck):
    facts = ck.facts(["src/acl/DomainData.cc", "src/anyp/Uri.cc"], whole=False)
    check_merge(ck, facts, "<char *>")

    # ---------------------------------------------------------------- SplayInserter<char*>::IsSubset
    ck.rule("S1 SplayInserter<char*>::IsSubset(a,b) is a pure decision table over (*a=='.'), (*b=='.') and the strlen(a)/strlen(b) ordering, equal to "
            "{dot,dot: len(a)>=len(b); name,name: true; name,dot: true; dot,name: false}")
    sub = [f for f in facts.fns(SI + "IsSubset") if "<char *>" in f.full]
    ck.need(len(sub) == 1 and len(sub[0].params) == 2, "C41: SplayInserter<char*>::IsSubset not found")
    sub = sub[0]
    A, B = sub.params[0]["d"], sub.params[1]["d"]

    def first_char(t):
        t = E.strip(t)
        if isinstance(t, dict) and t.get("k") == "un" and t.get("op") == "*":
            return origin(ck, sub, t["e"])
        if isinstance(t, dict) and t.get("k") == "idx" and E.const(t["i"]) == 0:
            return origin(ck, sub, t["b"])
        return None

    def length(t):
        t = E.strip(t)
        return origin(ck, sub, t["a"][0]) if short(t) == "strlen" and len(t.get("a", [])) == 1 else None

    def sub_leaf(g):
        def val(t):
            if E.const(t) is not None:
                return ("k", E.const(t))
            if first_char(t) in (A, B):
                return ("chr", g["chr_a" if first_char(t) == A else "chr_b"])
            if length(t) in (A, B):
                return ("len", g["len_a"] if length(t) == A else 5)
            return None
        return cmp_leaf(val)
    pure_strlen = lambda ev: ev.get("e") == "call" and short(ev["x"]) == "strlen"
    chars = sorted({46, 120} | compared_consts(sub, first_char))
    table(ck, "S1.subset-table", sub, sub.entry, {"chr_a": chars, "chr_b": chars, "len_a": [3, 5, 7]}, sub_leaf,
          lambda g: (g["len_a"] >= 5) if (g["chr_a"] == 46 and g["chr_b"] == 46) else (g["chr_a"] != 46),
          lambda g, end, x: ("?" if end != "ret" else (bool(E.const(x)) if E.const(x) is not None else truth(ck, x, sub_leaf(g), "IsSubset<char*>"))),
          "IsSubset<char*>", pure=pure_strlen)

    # ---------------------------------------------------------------- SplayInserter<char*>::Compare
    ck.rule("K1 SplayInserter<char*>::Compare(a,b): a non-constant result is matchDomainName(a, b, mdnNone) and is returned only with matchDomainName(b, a, mdnNone) "
            "non-zero; the constant result is 0 and is returned only with matchDomainName(b, a) zero")
    cmpf = [f for f in facts.fns(SI + "Compare") if "<char *>" in f.full]
    ck.need(len(cmpf) == 1 and len(cmpf[0].params) == 2, "C41: SplayInserter<char*>::Compare not found")
    cmpf = cmpf[0]
    A, B = cmpf.params[0]["d"], cmpf.params[1]["d"]
    cdefs = ck.local_defs(cmpf)
    via = lambda t, x, y: mdn_call(t, x, y) or (E.strip(t).get("k") == "ref" and cdefs.get(E.strip(t)["d"]) and all(mdn_call(d, x, y) for d in cdefs[E.strip(t)["d"]]))
    gate = E.M(lambda t: via(t, B, A), "matchDomainName(%s,%s)" % (B, A))
    fl = ck.flow(cmpf)
    is_ret = lambda ev: ev.get("e") == "ret"
    ck.require_fact("K1.compare-gate", fl, lambda ev: is_ret(ev) and E.const(ev.get("x")) is None, gate, True, "return <non-constant>",
                    why="(the order of two domain values is reported although one contains the other's root)")
    ck.require_fact("K1.compare-gate", fl, lambda ev: is_ret(ev) and E.const(ev.get("x")) is not None, gate, False, "return <constant>",
                    why="(values are reported as duplicates although neither contains the other)")
    for s in fl.find(is_ret):
        x = s.ev.get("x")
        if E.const(x) is not None:
            if E.const(x) == 0:
                ck.ok("K1.compare-value", s.where(), "Compare<char*>: constant result is 0")
            else:
                ck.violation("K1.compare-value", "K1|Compare<char*>|constant-nonzero", s.where(), "Compare<char*> returns the constant %s" % E.const(x))
        elif via(x, A, B):
            ck.ok("K1.compare-value", s.where(), "Compare<char*>: result is matchDomainName(%s, %s, mdnNone)" % (A, B))
        else:
            ck.need(short(x) == "matchDomainName" or via(x, B, A), "C41: Compare<char*> returns unrecognised %s" % E.key(x))
            ck.violation("K1.compare-value", "K1|Compare<char*>|result-roles", s.where(), "Compare<char*>(%s,%s) returns %s instead of matchDomainName(%s, %s, mdnNone): "
                         "the insertion order no longer mirrors the lookup order" % (A, B, E.key(x), A, B))

    # ---------------------------------------------------------------- lookup wiring
    ck.rule("D1 ACLDomainData::match: `return false` only with host null; otherwise the result is (domains.find(host, aclHostDomainCompare) != nullptr)")
    ck.rule("D2 aclHostDomainCompare(a,b) returns matchDomainName(a /*host*/, b /*domain*/, mdnNone)")
    ck.rule("D3 ACLDomainData::parse: every token of ConfigParser::strtokFile() reaches SplayInserter<char*>::Merge() on the member that match() searches")
    mt = facts.fn("ACLDomainData::match")
    HOST = mt.params[0]["d"]
    finds = [E.strip(ev["x"]) for b in mt.blocks.values() for ev in b["ev"] if ev.get("e") == "call" and short(ev["x"]) == "find"]
    ck.need(len(finds) == 1 and len(finds[0].get("a", [])) == 2 and E.strip(finds[0].get("o", {})).get("k") == "mem", "C41: ACLDomainData::match has no single <member>.find(x, cmp)")
    fd = finds[0]
    tree_member = E.strip(fd["o"])["m"]
    cmp_fns = [x["d"] for x in E.walk(fd["a"][1]) if x.get("k") == "ref" and x.get("dk") == "func"]
    ck.need(len(cmp_fns) == 1, "C41: find() comparator is not a function reference")
    if cmp_fns[0] == "aclHostDomainCompare" and origin(ck, mt, fd["a"][0]) == HOST:
        ck.ok("D1.lookup", mt.where(), "match: %s.find(%s, aclHostDomainCompare)" % (tree_member, HOST))
    else:
        ck.violation("D1.lookup", "D1|match|find-arguments", mt.where(), "ACLDomainData::match looks up %s with comparator %s (expected the host with aclHostDomainCompare)" % (E.key(fd["a"][0]), cmp_fns[0]))
    fl = ck.flow(mt)
    ck.require_fact("D1.null-host", fl, lambda ev: is_ret(ev) and E.const(ev.get("x")) is not None, E.m_is_ref(HOST), False, "return <constant>")
    mdefs = ck.local_defs(mt)
    nonconst = ck.sites(fl, lambda ev: is_ret(ev) and E.const(ev.get("x")) is None, "return <lookup result>", 1)
    for s in nonconst:
        t, pol = E.norm(s.ev["x"])
        t = E.strip(t)
        ck.need(isinstance(t, dict) and t.get("k") == "ref" and len(mdefs.get(t["d"], [])) == 1 and short(mdefs[t["d"]][0]) == "find", "C41: match returns unrecognised %s" % E.key(s.ev["x"]))
        if pol:
            ck.ok("D1.result", s.where(), "match returns (find() result != nullptr)")
        else:
            ck.violation("D1.result", "D1|match|result-polarity", s.where(), "ACLDomainData::match returns %s: true when no configured value was found" % E.key(s.ev["x"]))
    hd = facts.fn("aclHostDomainCompare")
    rets = [ev for b in hd.blocks.values() for ev in b["ev"] if is_ret(ev)]
    ck.need(len(rets) == 1 and short(rets[0].get("x")) == "matchDomainName", "C41: aclHostDomainCompare is no longer a single matchDomainName() call")
    a = E.strip(rets[0]["x"])["a"]
    roles = [origin(ck, hd, a[0]), origin(ck, hd, a[1])]
    ck.need(None not in roles, "C41: aclHostDomainCompare passes unrecognised operands")
    if roles == [hd.params[0]["d"], hd.params[1]["d"]] and (len(a) == 2 or E.const(a[2]) == 0):
        ck.ok("D2.host-domain-roles", hd.where(), "aclHostDomainCompare(a,b) = matchDomainName(a, b, mdnNone)")
    else:
        ck.violation("D2.host-domain-roles", "D2|aclHostDomainCompare|roles", hd.where(rets[0].get("l")), "aclHostDomainCompare returns %s: host and configured domain are not passed "
                     "as (host, domain, mdnNone), so '.example.com' entries are matched the wrong way round" % E.key(rets[0]["x"]))
    pr = facts.fn("ACLDomainData::parse")
    tok = lambda t: E.strip(t).get("k") == "call" and E.strip(t).get("f") == "ConfigParser::strtokFile"
    head = loop_head(ck, pr, lambda b: any(e.get("e") == "decl" and tok(e.get("init")) for e in b["ev"]), "ACLDomainData::parse")
    T = [e["d"] for e in head["ev"] if e.get("e") == "decl" and tok(e.get("init"))][0]
    ck.need(is_ref(head["term"]["c"], T), "C41: parse loop condition is not the token")
    nback = 0
    for end, items in paths(ck, pr, head["id"], head["id"], "ACLDomainData::parse"):
        if end != "back":
            continue
        nback += 1
        merges = [E.strip(i[1]["x"]) for i in items if i[0] == "ev" and i[1].get("e") == "call" and E.strip(i[1]["x"]).get("f") == SI + "Merge"]
        good = [m for m in merges if len(m["a"]) == 2 and E.strip(m["a"][0]).get("m") == tree_member and T in E.mentions(m["a"][1])]
        if good:
            ck.ok("D3.every-token-merged", pr.where(), "parse: token %s is merged into %s" % (T, tree_member))
        else:
            ck.violation("D3.every-token-merged", "D3|parse|token-not-merged", pr.where(), "ACLDomainData::parse has a loop path on which the token is not merged into %s "
                         "(merges on the path: %s)" % (tree_member, [E.key(m) for m in merges]))
    ck.need(nback >= 1, "C41: parse loop has no body path")

    # ---------------------------------------------------------------- matchDomainName
    mdn = facts.fn("matchDomainName")
    ck.need(len(mdn.params) == 3, "C41: matchDomainName parameters changed")
    H, D, FLAGS = [p["d"] for p in mdn.params]
    LOWER = {"tolower", "xtolower", "std::tolower"}

    def char_of(t):
        """(param, index tree) if t reads one character of the host or the domain"""
        t = E.strip(t)
        if isinstance(t, dict) and t.get("k") == "idx" and E.strip(t["b"]).get("dk") == "param":
            return E.strip(t["b"])["d"], E.strip(t["i"])
        if isinstance(t, dict) and t.get("k") == "un" and t.get("op") == "*" and E.strip(t["e"]).get("dk") == "param":
            return E.strip(t["e"])["d"], {"k": "lit", "v": 0}
        return None

    def lowered(t):
        t = E.strip(t)
        return char_of(t["a"][0]) if isinstance(t, dict) and t.get("k") == "call" and t.get("f") in LOWER and len(t.get("a", [])) == 1 else None

    ck.rule("U1 matchDomainName: every comparison/difference of a host character with a domain character has both sides wrapped in tolower()")
    trees = [x for b in mdn.blocks.values() for x in ([ev.get(k) for ev in b["ev"] if ev.get("e") in ("ret", "asg", "decl") for k in ("x", "rhs", "init")] + [(b.get("term") or {}).get("c")])]
    npair = 0
    for tr in trees:
        for node in E.walk(tr):
            if node.get("k") != "bin" or node.get("op") not in ("==", "!=", "<", ">", "<=", ">=", "-"):
                continue
            sides = [{c[0] for c in (char_of(x) for x in E.walk(s)) if c} for s in (node["l"], node["r"])]
            if not (sides[0] and sides[1] and sides[0] != sides[1]):
                continue
            npair += 1
            if lowered(node["l"]) and lowered(node["r"]):
                ck.ok("U1.case-insensitive", mdn.where(), "matchDomainName: %s compares lower-cased characters" % E.key(node)[:80])
            else:
                ck.violation("U1.case-insensitive", "U1|matchDomainName|raw-character-comparison", mdn.where(), "matchDomainName compares host and domain characters "
                             "without tolower() on both sides: %s" % E.key(node))
    ck.need(npair >= 2, "C41: expected >= 2 host/domain character comparisons in matchDomainName, found %d" % npair)

    ck.rule("U2 matchDomainName walks both strings from the end: the loop compares h[--hl] with d[--dl], hl = strlen(h), dl = strlen(d)")
    read = lambda t: lowered(t) or char_of(t)       # the case folding itself is U1's business

    def is_walk(b):
        c = E.strip((b.get("term") or {}).get("c"))
        return isinstance(c, dict) and c.get("k") == "bin" and c.get("op") == "==" and read(c["l"]) and read(c["r"])
    head = loop_head(ck, mdn, is_walk, "matchDomainName")
    c = E.strip(head["term"]["c"])
    side = dict([read(c["l"]), read(c["r"])])
    ck.need(set(side) == {H, D}, "C41: the walk loop does not compare the host with the domain")
    ldefs = ck.local_defs(mdn)
    LEN = {}
    for p in (H, D):
        i = side[p]
        ck.need(i.get("k") == "un" and i.get("op") in ("--", "p--") and E.strip(i["e"]).get("dk") == "local", "C41: unrecognised index %s in the walk loop" % E.key(i))
        LEN[p] = E.strip(i["e"])["d"]
        ds = ldefs.get(LEN[p], [])
        ck.need(len(ds) == 1 and short(ds[0]) == "strlen" and origin(ck, mdn, E.strip(ds[0])["a"][0]) in (H, D), "C41: %s is not initialised by strlen()" % LEN[p])
        if i["op"] == "--" and origin(ck, mdn, E.strip(ds[0])["a"][0]) == p:
            ck.ok("U2.suffix-walk", mdn.where(head["term"].get("l")), "walk: %s[--%s], %s = strlen(%s)" % (p, LEN[p], LEN[p], p))
        else:
            ck.violation("U2.suffix-walk", "U2|matchDomainName|index-%s" % ("host" if p == H else "domain"), mdn.where(head["term"].get("l")),
                         "the walk loop indexes %s with %s where %s = %s: characters are not compared pairwise from the end" % (p, E.key(i), LEN[p], E.key(ds[0])))
    HL, DL = LEN[H], LEN[D]

    def where_char(t):
        """which modelled character a tree reads: d0 = d[0], ddl = d[dl], hhl = h[hl]"""
        ch = char_of(t)
        if ch and ch[0] == D and E.const(ch[1]) == 0:
            return "d0"
        if ch and ch[0] == D and is_ref(ch[1], DL):
            return "ddl"
        if ch and ch[0] == H and is_ref(ch[1], HL):
            return "hhl"
        return None

    def mdn_leaf(g):
        def val(t):
            if E.const(t) is not None:
                return ("k", E.const(t))
            if is_ref(t, HL) or is_ref(t, DL):
                k = "hl" if is_ref(t, HL) else "dl"
                return ("len", g[k]) if k in g else None
            k = where_char(t)
            return ("chr", g[k]) if k in g else None
        flags_off = lambda t: False if (FLAGS in E.mentions(t) and t.get("k") == "bin" and t.get("op") == "&") else None        # flags == mdnNone
        return cmp_leaf(lambda t: None if FLAGS in E.mentions(t) else val(t), flags_off)
    lens = around([0, 1, 2], compared_consts(mdn, lambda t: is_ref(t, HL) or is_ref(t, DL)), lo=0)
    chars = sorted({46, 120} | compared_consts(mdn, where_char))

    ck.rule("U3 matchDomainName(h,d,mdnNone), all compared characters equal so far: decision table of the loop body over representatives of hl, dl and d[0] = "
            "{both exhausted: 0; host exhausted: 0 iff dl==1 and d[0]=='.', else negative; domain exhausted: 0 iff d[0]=='.', else positive; neither: continue}")
    body = [s["to"] for s in head["succ"] if s.get("lab") == "T"][0]
    after = [s["to"] for s in head["succ"] if s.get("lab") == "F"][0]

    def want_body(g):
        if g["hl"] == 0:
            return "zero" if g["dl"] == 0 or (g["dl"] == 1 and g["d0"] == 46) else "neg"
        return ("zero" if g["d0"] == 46 else "pos") if g["dl"] == 0 else "continue"
    table(ck, "U3.suffix-table", mdn, body, {"hl": lens, "dl": lens, "d0": chars}, mdn_leaf, want_body,
          lambda g, end, x: "continue" if end == "back" else (sign(x) or "?"), "matchDomainName/equal-suffix", stop=(head["id"],))

    ck.rule("U4 matchDomainName(h,d,mdnNone) after the first differing character never reports a match: d[dl]=='.' -> positive; else h[hl]=='.' -> negative; "
            "else tolower(h[hl]) - tolower(d[dl])")

    def cls_after(g, end, x):
        if end != "ret":
            return "?"
        if sign(x):
            return sign(x)
        x = E.strip(x)
        if x.get("k") == "bin" and x.get("op") == "-" and read(x["l"]) and read(x["r"]):
            l, r = read(x["l"]), read(x["r"])
            if l[0] == H and is_ref(l[1], HL) and r[0] == D and is_ref(r[1], DL):
                return "host-minus-domain"
            if r[0] == H and is_ref(r[1], HL) and l[0] == D and is_ref(l[1], DL):
                return "domain-minus-host"
        return "?"
    table(ck, "U4.mismatch-table", mdn, after, {"ddl": chars, "hhl": chars}, mdn_leaf,
          lambda g: "pos" if g["ddl"] == 46 else ("neg" if g["hhl"] == 46 else "host-minus-domain"), cls_after, "matchDomainName/mismatch",
          pure=lambda ev: ev.get("e") == "call" and E.strip(ev["x"]).get("f") in LOWER, skip=lambda g: g["ddl"] == g["hhl"])

    ck.assume("decides the gate/role protocol of Merge, the decision tables of IsSubset/Compare<char*> over their comparison atoms, the lookup wiring and the "
              "suffix-walk tables of matchDomainName under flags == mdnNone; it does not decide that these tables together realise set membership for all "
              "domain lists and insertion orders (value reasoning over strings), nor the Splay tree, nor matchDomainName's prologue (leading dots of the host, empty strings)")
    ck.assume("ACLDomainData::parse lower-cases tokens with Tolower(); this is not claimed: matching is case-insensitive through tolower() in matchDomainName alone")
