"""C17 Completed disk cache entries survive a clean restart: completeness gates of the ufs clean swap.state writer and of its replay (dual of C16 U1/U2)."""
from .. import expr as E
from ..flow import ev_call, ev_return, ev_assign, ev_any, ev_exit

CL = "UFSCleanLog::"
SD = "Fs::Ufs::UFSSwapDir::"
RB = "Fs::Ufs::RebuildState::"
REC = "StoreSwapLogData::"
ENT = "StoreEntry::"
# record field -> the StoreEntry member (or accessor) it must be taken from / restored into
FIELDS = {"swap_filen": "swap_filen", "swap_file_sz": "swap_file_sz", "flags": "flags", "timestamp": "timestamp", "lastref": "lastref",
          "expires": "expires", "lastmod": "lastModified", "refcount": "refcount"}


def m_flag(member, flag):
    return E.M(lambda t: {member, flag} <= E.mentions(t), "%s&%s" % (member.split("::")[-1], flag))


def ret_false(ev):
    return ev.get("e") == "ret" and ev.get("x") is not None and E.const(ev.get("x")) == 0


def call_args(site):
    return E.strip(site.ev["x"]).get("a", [])


def run(ck):
    facts = ck.facts(["src/store/Disks.cc", "src/store/Disk.cc", "src/fs/ufs/UFSSwapDir.cc", "src/fs/ufs/RebuildState.cc"], whole=False)
    write_fail = E.m_cmp("<", E.m_calls("FD_WRITE_METHOD"), E.m_const(0))   # (tested directly in both functions; W3 needs the trigger edges)

    # ------------------------------------------------------------------ L: every loggable entry is written
    ck.rule("L1 storeDirWriteCleanLogs: RESPONSE(nextEntry() returned an entry -> notdone = 1) and RESPONSE(sd.canLog(*e) T -> sd.cleanLog->write(*e)) with the same entry; "
            "RESPONSE(entry -> canLog(*e) is consulted): an entry is skipped only through !canLog")
    loop = facts.fn("storeDirWriteCleanLogs")
    cur = [n for n, ds in ck.local_defs(loop).items() if any("Store::Disk::CleanLog::nextEntry" in E.mentions(d) for d in ds)]
    ck.need(len(cur) == 1, "C17: storeDirWriteCleanLogs no longer keeps the walked entry in one local (%s)" % cur)
    ent = E.m_is_ref(cur[0])
    can = ck.m_result_of(loop, "Store::Disk::canLog")
    wr = ev_call("Store::Disk::CleanLog::write")
    ck.require_response("L1.loggable-entry-written", loop, can, True, wr, "cleanLog->write()", why="(a loggable entry would be missing from the clean swap.state)")
    ck.require_response("L1.walk-continues", loop, ent, True, ev_assign("notdone", E.m_const(1)), "notdone = 1", term_kinds=("IfStmt",),
                        why="(the walk would stop after the first round and drop the remaining entries)")
    fl = ck.flow(loop)
    for s in ck.sites(fl, ev_any(wr, ev_call("Store::Disk::canLog")), "canLog|write", 2):
        a = call_args(s)
        if len(a) == 1 and E.mentions(a[0]) == {cur[0]}:
            ck.ok("L1.same-entry", s.where(), "%s applies to the walked entry" % s.desc()[:40])
        else:
            ck.violation("L1.same-entry", "L1|storeDirWriteCleanLogs|entry-arg", s.where(), "storeDirWriteCleanLogs: %s does not apply to the walked entry" % s.desc()[:60])
    ck.require_response("L1.entry-tested", loop, ent, True, ev_call("Store::Disk::canLog"), "canLog()", term_kinds=("IfStmt",),
                        why="(a walked entry would be skipped for a reason other than !canLog)")

    ck.rule("L2 Store::Disk::canLog: `return false` only under hasDisk() F, swappedOut() F, swap_file_sz <= 0, RELEASE_REQUEST, KEY_PRIVATE or ENTRY_SPECIAL "
            "(an entry that is on disk, completely swapped out, sized, public and not marked for release is always loggable)")
    cl = facts.fn("Store::Disk::canLog")
    reasons = [(ck.m_result_of(cl, ENT + "hasDisk"), False), (ck.m_result_of(cl, ENT + "swappedOut"), False), (E.m_cmp("<", E.m_const(0), E.m_is_mem(ENT + "swap_file_sz")), False),
               (m_flag(ENT + "flags", "RELEASE_REQUEST"), True), (m_flag(ENT + "flags", "KEY_PRIVATE"), True), (m_flag(ENT + "flags", "ENTRY_SPECIAL"), True)]
    ck.require_any("L2.refusal-reasons", cl, ret_false, reasons, "return false", why="(a completely stored public entry would be left out of the clean swap.state)")
    ck.sites(ck.flow(cl), ev_return(E.m_const(1)), "return true", 1)

    # ------------------------------------------------------------------ W: the record image and the buffer
    ck.rule("W1 UFSCleanLog::write: op = SWAP_LOG_ADD (the only op rebuildFromSwapLog indexes); swap_filen/swap_file_sz/flags/timestamp/lastref/expires/lastmod/refcount are "
            "taken from the same-named StoreEntry member and the key from e.key, all before finalize(); finalize() precedes the copy into outbuf + outbuf_offset, "
            "outbuf_offset += sizeof(record) follows it; outbuf_offset = 0 only after FD_WRITE_METHOD() < 0 was false")
    w = facts.fn(CL + "write")
    ck.need(len(w.params) == 1, "C17: UFSCleanLog::write signature changed")
    par = w.params[0]["d"]
    add = facts.enum("swap_log_op")["SWAP_LOG_ADD"] if _has_enum(facts, "swap_log_op") else None
    markers = {f: ev_assign(REC + f) for f in FIELDS}
    markers["op"] = ev_assign(REC + "op")
    markers["key"] = ev_call("memcpy", arg={0: E.m_mentions(REC + "key"), 1: E.m_mentions("hash_link::key", par)})
    markers["final"] = ev_call(REC + "finalize")
    to_buf = ev_call("memcpy", arg={0: E.m_mentions(CL + "outbuf", CL + "outbuf_offset")})
    markers["buffered"] = to_buf
    fl = ck.flow(w, markers=markers)
    for f in list(FIELDS) + ["op", "key"]:
        ck.require_passed("W1.record-complete", fl, markers["final"], f, "s.finalize()", why="(record field %s would reach swap.state unset / without checksum cover)" % f)
    ck.require_passed("W1.record-complete", fl, to_buf, "final", "memcpy(outbuf + outbuf_offset, &s)", why="(the record would be logged with a stale checksum and be rejected as insane on rebuild)")
    for s in ck.sites(fl, ev_assign(REC + "op"), "s.op =", 1):
        rhs = E.strip(s.ev.get("rhs"))
        if "SWAP_LOG_ADD" in E.mentions(rhs) and (add is None or E.const(rhs) == add):
            ck.ok("W1.op-is-add", s.where(), "clean records are SWAP_LOG_ADD")
        else:
            ck.violation("W1.op-is-add", "W1|UFSCleanLog::write|op", s.where(), "UFSCleanLog::write logs op %s, which rebuildFromSwapLog does not index" % E.key(rhs))
    for f, src in FIELDS.items():
        for s in ck.sites(fl, ev_assign(REC + f), "s.%s =" % f, 1):
            if {ENT + src, par} <= E.mentions(s.ev.get("rhs")) and len([m for m in E.mentions(s.ev.get("rhs")) if m.startswith(ENT)]) == 1:
                ck.ok("W1.field-sources", s.where(), "s.%s is taken from e.%s" % (f, src))
            else:
                ck.violation("W1.field-sources", "W1|UFSCleanLog::write|field|%s" % f, s.where(), "UFSCleanLog::write takes record field %s from %s instead of the entry's %s" % (f, E.key(s.ev.get("rhs")), src))
    adv = ev_assign(CL + "outbuf_offset", ops=("+=",))
    ck.require_passed("W1.buffer-advance", ck.flow(w, markers={"adv": adv}), ev_exit(), "adv", "return", why="(the next record would overwrite this one in the buffer)")
    ck.require_passed("W1.buffer-advance", fl, adv, "buffered", "outbuf_offset +=")
    ck.require_fact("W1.buffer-reset-after-flush", fl, ev_assign(CL + "outbuf_offset", E.m_const(0)), write_fail, False, "outbuf_offset = 0",
                    why="(buffered records would be dropped without having been written)")

    ck.rule("W2 writeCleanStart: cleanLog = state (non-null) only with state->fd < 0 F and after the StoreSwapLogHeader was copied to the start of outbuf and "
            "outbuf_offset advanced by header.record_size (the offset the parser seeks to)")
    ws = facts.fn(SD + "writeCleanStart")
    hdr = ev_call("memcpy", arg={0: E.M(lambda t: E.mentions(t) >= {CL + "outbuf"} and CL + "outbuf_offset" not in E.mentions(t) and E.strip(t).get("k") != "bin", "state->outbuf"),
                                 1: E.M(lambda t: any(d.get("t") == "StoreSwapLogHeader" for d in _decls(ws) if d.get("d") in E.mentions(t)), "&header")})
    skip = ev_assign(CL + "outbuf_offset", E.m_mentions("StoreSwapLogHeader::record_size"), ops=("+=", "="))
    fl = ck.flow(ws, markers={"hdr": hdr, "skip": skip})
    armed = ev_assign("Store::Disk::cleanLog", E.M(lambda t: E.const(t) != 0, "non-null"))
    ck.require_fact("W2.armed-with-open-header", fl, armed, E.m_cmp("<", E.m_is_mem(CL + "fd"), E.m_const(0)), False, "cleanLog = state", why="(records would be written to a file that failed to open)")
    for mk in ("hdr", "skip"):
        ck.require_passed("W2.armed-with-open-header", fl, armed, mk, "cleanLog = state", why="(a clean log without the version header is parsed as an old-format log and every record is rejected)")

    ck.rule("W3 a failed write never installs the log: UFSCleanLog::write RESPONSE(FD_WRITE_METHOD() < 0 -> sd->cleanLog = nullptr); writeCleanDone: "
            "RESPONSE(FD_WRITE_METHOD() < 0 -> state->fd = -1), FileRename(state->newLog, state->cur) only with state->fd < 0 F and after the final FD_WRITE_METHOD flush")
    ck.require_response("W3.failed-write-detaches", w, write_fail, True, ev_assign("Store::Disk::cleanLog", E.m_const(0)), "sd->cleanLog = nullptr",
                        why="(writeCleanDone would later rename a truncated log over the complete swap.state)")
    wd = facts.fn(SD + "writeCleanDone")
    ren = ev_call("FileRename")
    ck.require_response("W3.failed-flush-marks", wd, write_fail, True, ev_assign(CL + "fd", E.m_const(-1)), "state->fd = -1", until=ren,
                        why="(the rename would still be reached with the old descriptor value)")
    fl = ck.flow(wd, markers={"flush": ev_call("FD_WRITE_METHOD", arg={1: E.m_is_mem(CL + "outbuf"), 2: E.m_is_mem(CL + "outbuf_offset")})})
    ck.require_fact("W3.install-only-complete", fl, ren, E.m_cmp("<", E.m_is_mem(CL + "fd"), E.m_const(0)), False, "FileRename()", why="(a log whose last flush failed would replace swap.state)")
    ck.require_passed("W3.install-only-complete", fl, ren, "flush", "FileRename()", why="(the records still in outbuf would be missing from the installed log)")
    for s in ck.sites(fl, ren, "FileRename()", 1):
        a = call_args(s)
        if len(a) == 2 and CL + "newLog" in E.mentions(a[0]) and CL + "cur" in E.mentions(a[1]):
            ck.ok("W3.install-direction", s.where(), "FileRename(newLog, cur)")
        else:
            ck.violation("W3.install-direction", "W3|writeCleanDone|rename-args", s.where(), "writeCleanDone renames %s" % s.desc()[:80])

    # ------------------------------------------------------------------ R: replay rejects only for confirmed reasons
    ck.rule("R1 rebuildFromSwapLog: a record leaves without addIfFresh() only under ReadRecord() != 1 (end of log), sane() F, op != SWAP_LOG_ADD, validFileno() F, KEY_PRIVATE or mapBitTest() T; "
            "addIfFresh skips addDiskRestore() only under evictStaleAndContinue() F, which returns false only for an already indexed entry with lastref >= maxRef")
    rl = facts.fn(RB + "rebuildFromSwapLog")
    add_call = ev_call(RB + "addIfFresh")
    rej = [("P", "addIfFresh()", add_call), (E.m_cmp("==", ck.m_result_of(rl, "Fs::Ufs::UFSSwapLogParser::ReadRecord"), E.m_const(1)), False), (ck.m_result_of(rl, REC + "sane"), False),
           (E.m_cmp("==", E.m_is_mem(REC + "op"), E.M(lambda t: "SWAP_LOG_ADD" in E.mentions(t), "SWAP_LOG_ADD")), False), (ck.m_result_of(rl, SD + "validFileno"), False),
           (m_flag(REC + "flags", "KEY_PRIVATE"), True), (ck.m_result_of(rl, SD + "mapBitTest"), True)]
    ck.require_any("R1.reject-reasons", rl, ev_exit(), rej, "return", min_sites=2, track_history=True, why="(a sane ADD record of a public entry with a free file number would not be indexed)")
    ck.sites(ck.flow(rl), add_call, "addIfFresh()", 1)
    af = facts.fn(RB + "addIfFresh")
    restore = ev_call(SD + "addDiskRestore")
    ck.require_any("R1.reject-reasons", af, ev_exit(), [("P", "addDiskRestore()", restore), (ck.m_result_of(af, RB + "evictStaleAndContinue"), False)], "return")
    es = facts.fn(RB + "evictStaleAndContinue")
    peeked = ck.m_result_of(es, "Store::Controller::peek")
    efl = ck.flow(es)
    ck.require_fact("R1.clash-only-with-newer", efl, ret_false, peeked, True, "return false", why="(a record would be dropped although nothing is indexed under its key)")
    maxref = [p["d"] for p in es.params if "time_t" in p["t"]]
    ck.need(len(maxref) == 1, "C17: evictStaleAndContinue lost its maxRef parameter")
    ck.require_fact("R1.clash-only-with-newer", efl, ret_false, E.m_cmp("<", E.m_is_mem(ENT + "lastref"), E.m_is_ref(maxref[0])), False, "return false",
                    why="(an older indexed entry would win over the logged one)")

    ck.rule("R2 the record reaches the index unchanged: rebuildFromSwapLog passes swapData.<field> in the position of addIfFresh's same-meaning parameter, addIfFresh forwards its "
            "parameters positionally to addDiskRestore, which stores each into the same-named StoreEntry member, attaches (index, file_number, SWAPOUT_DONE) and hashInsert(key)s")
    ar = facts.fn(SD + "addDiskRestore")
    pname = {"file_number": "swap_filen", "newFlags": "flags", "key": "key"}
    order = ["key", "file_number", "swap_file_sz", "expires", "timestamp", "lastref", "lastmod", "refcount", "newFlags"]
    ck.need([p["d"] for p in af.params] == order and [p["d"] for p in ar.params][:len(order)] == order,
            "C17: addIfFresh/addDiskRestore parameters were renamed or reordered (re-confirm the R2 instance)")
    for s in ck.sites(ck.flow(rl), add_call, "addIfFresh()", 1):
        a = call_args(s)
        ck.need(len(a) == len(af.params), "C17: addIfFresh arity changed")
        for i, p in enumerate(af.params):
            want = REC + pname.get(p["d"], p["d"])
            got = {m for m in E.mentions(a[i]) if m.startswith(REC)}
            if got == {want}:
                ck.ok("R2.record-to-index", s.where(), "addIfFresh(%s) receives %s" % (p["d"], want))
            else:
                ck.violation("R2.record-to-index", "R2|rebuildFromSwapLog|arg|%s" % p["d"], s.where(), "rebuildFromSwapLog passes %s as addIfFresh's %s" % (E.key(a[i]), p["d"]))
    for s in ck.sites(ck.flow(af), restore, "addDiskRestore()", 1):
        a = call_args(s)
        ck.need(len(a) >= len(af.params) and len(ar.params) >= len(af.params), "C17: addDiskRestore arity changed")
        for i, p in enumerate(af.params):
            if E.m_is_ref(p["d"])(a[i]) and ar.params[i]["d"] == p["d"]:
                ck.ok("R2.record-to-index", s.where(), "addDiskRestore(%s) forwarded" % p["d"])
            else:
                ck.violation("R2.record-to-index", "R2|addIfFresh|arg|%s" % p["d"], s.where(), "addIfFresh passes %s as addDiskRestore's %s" % (E.key(a[i]), ar.params[i]["d"]))
    rfl = ck.flow(ar)
    for par_, mem in [("swap_file_sz", "swap_file_sz"), ("lastref", "lastref"), ("timestamp", "timestamp"), ("expires", "expires"), ("refcount", "refcount"), ("newFlags", "flags")]:
        for s in ck.sites(rfl, ev_assign(ENT + mem, ops=("=",)), "e->%s =" % mem, 1):
            if E.m_is_ref(par_)(s.ev.get("rhs")):
                ck.ok("R2.restore-fields", s.where(), "e->%s = %s" % (mem, par_))
            else:
                ck.violation("R2.restore-fields", "R2|addDiskRestore|field|%s" % mem, s.where(), "addDiskRestore sets e->%s from %s" % (mem, E.key(s.ev.get("rhs"))))
    for s in ck.sites(rfl, ev_call(ENT + "attachToDisk"), "attachToDisk()", 1):
        a = call_args(s)
        if len(a) == 3 and E.m_is_ref("file_number")(a[1]) and "SWAPOUT_DONE" in E.mentions(a[2]) and "Store::Disk::index" in E.mentions(a[0]):
            ck.ok("R2.restore-fields", s.where(), "attachToDisk(index, file_number, SWAPOUT_DONE)")
        else:
            ck.violation("R2.restore-fields", "R2|addDiskRestore|attach", s.where(), "addDiskRestore attaches %s" % s.desc()[:80])
    ck.require_passed("R2.restore-indexed", ck.flow(ar, markers={"hashed": ev_call(ENT + "hashInsert", arg={0: E.m_is_ref("key")})}), ev_exit(), "hashed", "return",
                      why="(the restored entry would not be findable by its key)")
    ck.rule("V1 post-rebuild validation (storeSwapInStart refuses entries without ENTRY_VALIDATED, so an entry the walk skips is loaded from swap.state but served as a "
            "miss): in storeCleanup every entry the search yields -- every true result of currentSearch->next() -- is taken (currentItem()) before the loop can leave or "
            "advance again, and every taken entry ends the iteration with ENTRY_VALIDATED set, or was already validated, or has no disk file")
    sr = ck.facts(["src/store_rebuild.cc"], whole=False)
    sc = sr.fn("storeCleanup")
    nxt = E.M(lambda t: E.strip(t).get("k") == "call" and E.strip(t).get("f") == "StoreSearch::next", "currentSearch->next()")
    item = ev_call("StoreSearch::currentItem")
    ck.require_response("V1.every-yielded-entry-taken", sc, nxt, True, item, "currentItem()", term_kinds=("WhileStmt", "ForStmt", "BinaryOperator", "IfStmt"),
                        why="(an entry the search already advanced past would never be validated)")
    vtest = E.M(lambda t: "ENTRY_VALIDATED" in E.key(t) and E.strip(t).get("k") == "bin" and E.strip(t).get("op") == "&", "EBIT_TEST(e->flags, ENTRY_VALIDATED)")
    hasdisk = E.M(lambda t: E.strip(t).get("k") == "call" and E.strip(t).get("f") == "StoreEntry::hasDisk", "e->hasDisk()")
    vset = lambda ev: ev.get("e") == "asg" and ev.get("op") == "|=" and "ENTRY_VALIDATED" in E.key(ev.get("rhs"))
    scf = ck.flow(sc, markers={"set": vset, "taken": item}, track_markers=["set", "taken"], track_atoms={"was": vtest, "disk": hasdisk},
                  on_event=lambda ev, env, fs: ([env.pop(k, None) for k in ("#set", "@was", "@disk", "@key:was", "@key:disk")] if item(ev) else None))
    nv = 0
    for st in scf.sites:
        is_next = st.ev.get("e") == "call" and E.strip(st.ev["x"]).get("f") == "StoreSearch::next"
        is_exit = st.ev.get("e") == "exit" and st.ev.get("kind") in ("ret", "fall")
        if not (is_next or is_exit) or st.env.get("#taken") != 1:
            continue
        nv += 1
        if st.env.get("#set") == 1 or st.tracked("was") is True or st.tracked("disk") is False:
            ck.ok("V1.taken-entry-validated", st.where(), "the entry taken last was validated, already valid, or has no disk file")
        else:
            ck.violation("V1.taken-entry-validated", "V1|storeCleanup|taken-entry-left-unvalidated", st.where(),
                         "storeCleanup can move on from an entry it took without setting ENTRY_VALIDATED (and without it being already validated or disk-less)", scf.witness(st))
    ck.need(nv >= 1, "C17: storeCleanup's iteration end was not found")
    ck.assume("rock cache_dirs are not decided here: Rock::Rebuild drops both chains when stale slots of an overwritten entry are met (duplicated/inode conflict/overflowing), "
              "so no exact reject table exists; what it accepts is C57")
    ck.assume("the walk visits every entry (replacement-policy walker), StoreSwapLogData::sane() value ranges, the running (dirty) log writer UFSSwapDir::logEntry, the directory-scan "
              "rebuild, FileRename/file-system failures and byte identity of the object files are not analysed")


def _decls(fn):
    return [ev for b in fn.blocks.values() for ev in b["ev"] if ev.get("e") == "decl"]


def _has_enum(facts, name):
    try:
        facts.enum(name)
        return True
    except Exception:
        return False
