"""C50 Character sets and tokenizers follow set semantics: structural clauses of CharacterSet and Parser::Tokenizer (DESIGN.md 5/C50).

CharacterSet: every mutator is shown to be *pointwise* from the shape of its loop (one store through the destination, its constant, the test
that gates it, both cursors moving in lock-step over begin()..end()), which is exactly what engine/sqcheck/charset.py (the model used by C22 to
fold the RFC constants) assumes.  Tokenizer: per operation, which SBuf search runs with which set, the zero-length failure gate, and that the
amount handed to consume()/consumeTrailing() is the matched length and its result is what is returned.  Unrecognised shapes end in exit 2."""
from .. import expr as E
from ..flow import ev_call
from .C49 import Terms, Unrec, gate, same, events, the_call, lin_or_broken, is_ret, ret_const, pnames, orderings, track_orderings

CS, TK = "CharacterSet::", "Parser::Tokenizer::"
CHARS = CS + "chars_"
BUF = ("this", TK + "buf_")
NPOS = ("ref", "SBuf::npos")


def short(t):
    t = E.strip(t)
    return t.get("f", "").split("::")[-1] if isinstance(t, dict) and t.get("k") in ("call", "ctor") else ""


def match(t, spec):
    """structural pattern: None | ('const', v) | ('ref', name) | ('this', member) | ('field', member, base) | ('call', name|{names}, obj, [args]) where a name is a
    qualified function name or '~' + its last component"""
    if spec is None:
        return True
    if spec[0] == "const":
        return E.const(t) == spec[1]
    t = E.strip(t)
    if not isinstance(t, dict):
        return False
    k = spec[0]
    if k == "ref":
        return t.get("k") == "ref" and t.get("d") == spec[1]
    if k == "this":
        return t.get("k") == "mem" and t.get("m") == spec[1] and E.strip(t.get("b")).get("k") == "this"
    if k == "field":
        return t.get("k") == "mem" and t.get("m") == spec[1] and match(t.get("b"), spec[2])
    if k == "call":
        if t.get("k") not in ("call", "ctor"):
            return False
        names = None if spec[1] is None else {spec[1]} if isinstance(spec[1], str) else spec[1]
        if names is not None and not any(short(t) == n[1:] if n.startswith("~") else t.get("f") == n for n in names):
            return False
        if spec[2] is not None and ("o" not in t or not match(t["o"], spec[2])):
            return False
        return spec[3] is None or (len(t.get("a", [])) == len(spec[3]) and all(match(a, s) for a, s in zip(t["a"], spec[3])))
    return False


def trees(fn):
    for b in fn.blocks.values():
        for ev in b["ev"]:
            for name in ("x", "rhs", "lhs", "init"):
                if isinstance(ev.get(name), dict):
                    yield from E.walk(ev[name])
        if isinstance((b.get("term") or {}).get("c"), dict):
            yield from E.walk(b["term"]["c"])


def find(ck, fn, spec, what, n=1):
    """the distinct sub-expressions of fn matching spec (exactly n, else the anchor moved)"""
    out = {}
    for t in trees(fn):
        if match(t, spec):
            out.setdefault(E.key(t), E.strip(t))
    ck.need(len(out) == n, "C50: expected %d %s in %s, found %d" % (n, what, fn.name, len(out)))
    return list(out.values())


def is_ev(spec):
    return lambda ev: ev.get("e") == "call" and match(ev.get("x"), spec)


def store_to(spec):
    return lambda ev: ev.get("e") == "asg" and match(ev.get("lhs"), spec)


def on_local(t):
    """name of the local/param object a method is called on"""
    o = E.strip(E.strip(t).get("o") or {})
    return o.get("d") if o.get("k") == "ref" else None


def shape(ck, rule, fn, line, what, good, known_bad, detail):
    """a clause about argument roles: `good` -> ok, `known_bad` (a recognised but wrong arrangement) -> violation, neither -> exit 2"""
    ck.need(good or known_bad, "C50: %s in %s has a shape the recogniser does not understand: %s" % (what, fn.name, detail[:140]))
    if good:
        ck.ok(rule, fn.where(line), "%s: %s" % (fn.name, what))
    else:
        ck.violation(rule, "%s|%s|%s" % (rule, fn.name, what), fn.where(line), "%s: %s does not hold: %s" % (fn.name, what, detail))


def returns_self(ck, rule, fn):
    for ev in events(fn, is_ret):
        x = E.strip(ev["x"])
        ck.need(x.get("k") == "un" and x.get("op") == "*" and E.strip(x["e"]).get("k") == "this", "C50: %s returns %s, not *this" % (fn.name, E.key(x)))


# ---------------------------------------------------------------------------------------------------------------- CharacterSet
def pointwise(ck, rid, fn, value, why):
    """this[i] = value for exactly the i with src[i] != 0: one store, gated by *s, cursors in lock-step from begin() to end()"""
    T = Terms(fn)
    src = pnames(ck, fn, 1)[0]
    stores = events(fn, lambda ev: ev.get("e") == "asg" and E.strip(ev["lhs"]).get("k") != "ref")
    if len(stores) == 1 and match(stores[0]["lhs"], ("call", "std::vector::operator[]", ("this", CHARS), [None])):
        return pointwise_indexed(ck, rid, fn, value, why, src, stores[0])
    ck.need(len(stores) == 1 and short(stores[0]["lhs"]) == "operator*" and on_local(stores[0]["lhs"]), "C50: %s does not have exactly one store, through an iterator" % fn.name)
    D = on_local(stores[0]["lhs"])
    tests = [t for t in find(ck, fn, ("call", "~operator*", None, []), "iterator dereferences", 2) if on_local(t) != D]
    ck.need(len(tests) == 1 and on_local(tests[0]), "C50: %s has no second iterator that is read" % fn.name)
    S = on_local(tests[0])
    bound = find(ck, fn, ("call", {"~operator!=", "~operator=="}, None, [None, None]), "iterator comparison")[0]
    ends = [a for a in bound["a"] if not match(a, ("ref", S))]
    ck.need(len(ends) == 1 and len(bound["a"]) == 2, "C50: the loop bound of %s does not compare %s with one end" % (fn.name, S))
    own, theirs = ("this", CHARS), ("field", CHARS, ("ref", src))
    for what, t, good in (("source cursor starts at %s.chars_.begin()" % src, T.init.get(S), ("call", "std::vector::begin", theirs, [])),
                          ("destination cursor starts at chars_.begin()", T.init.get(D), ("call", "std::vector::begin", own, [])),
                          ("loop bound is %s.chars_.end()" % src, T.init.get(ends[0].get("d")) if E.strip(ends[0]).get("k") == "ref" else ends[0], ("call", "std::vector::end", theirs, []))):
        known = lambda x: E.strip(x or {}).get("f") in ("std::vector::begin", "std::vector::end") and any(n.get("m") == CHARS for n in E.walk(x))
        while E.strip(t or {}).get("k") == "ctor" and len(E.strip(t)["a"]) == 1 and "iterator" in E.strip(t).get("f", ""):
            t = E.strip(t)["a"][0]          # iterator -> const_iterator conversion
        shape(ck, rid + ".range", fn, fn.line, what, match(t, good), known(t), E.key(t))

    def moves(ev, name):
        return ev.get("e") == "call" and on_local(ev["x"]) == name and not E.strip(ev["x"]).get("cm")

    def on_event(ev, env, facts):
        if ev.get("e") == "call" and E.key(ev["x"]) == E.key(bound):
            env["%adv"] = 0
        for name, step in ((S, 1), (D, -1)):
            if moves(ev, name):
                if short(ev["x"]) == "operator++":
                    env["%lead"] = max(-2, min(2, env.get("%lead", 0) + step))
                    if name == S:
                        env["%adv"] = min(2, env.get("%adv", 0) + 1)
                else:
                    env["%bad"] = 1
    fl = ck.flow(fn, on_event=on_event)
    for s in ck.sites(fl, lambda ev: ev is stores[0], "store", 1):
        same(ck, rid + ".value", fn, s.line, "stored value", lin_or_broken(T, s.ev["rhs"], "value"), {"": value} if value else {}, why)
        if s.env.get("%lead", 0) == 0 and not s.env.get("%bad"):
            ck.ok(rid + ".lockstep", s.where(), "%s: the store through %s happens with %s and %s advanced equally often" % (fn.name, D, S, D))
        else:
            ck.violation(rid + ".lockstep", "%s|%s|store-misaligned" % (rid, fn.name), s.where(), "%s: the store through %s can happen with %s %+d steps ahead of it: the wrong element is changed %s"
                         % (fn.name, D, S, s.env.get("%lead", 0), why), fl.witness(s))
    gate(ck, rid + ".gated", T, fl, lambda ev: ev is stores[0], "0", tests[0], "<>", "store", why="(elements outside the other set would change) " + why)
    gate(ck, rid + ".gated", T, fl, lambda ev: ev is stores[0], {S: 1}, ends[0], "<>", "store", why="(the store would run past the end)")
    for s in ck.sites(fl, lambda ev: ev.get("e") == "call" and E.key(ev["x"]) == E.key(bound), "loop test", 1):
        if s.env.get("%lead", 0) == 0 and s.env.get("%adv") in (None, 1) and not s.env.get("%bad"):
            ck.ok(rid + ".lockstep", s.where(), "%s: each iteration advances %s and %s exactly once" % (fn.name, S, D))
        else:
            ck.violation(rid + ".lockstep", "%s|%s|cursors-not-in-lockstep" % (rid, fn.name), s.where(), "%s: an iteration ends with %s advanced %s time(s) and %+d steps ahead of %s %s"
                         % (fn.name, S, s.env.get("%adv"), s.env.get("%lead", 0), D, why), fl.witness(s))
    gate(ck, rid + ".range", T, fl, is_ret, {S: 1}, ends[0], "=", "return", why="(the tail of the other set would be ignored)")
    returns_self(ck, rid, fn)


def pointwise_indexed(ck, rid, fn, value, why, src, store):
    """the index form of a pointwise mutator: chars_[i] = value gated by src.chars_[i] for the same local i, which starts at 0, only ever moves by ++ and
    leaves the loop only when i < N fails for N >= 256 (or a chars_.size())"""
    idx = E.strip(E.strip(store["lhs"])["a"][0])
    ck.need(idx.get("k") == "ref" and idx.get("dk") == "local", "C50: %s stores at a computed index %s" % (fn.name, E.key(idx)))
    I = idx["d"]
    same_i = E.M(lambda t: match(t, ("call", "std::vector::operator[]", ("field", CHARS, ("ref", src)), [("ref", I)])), "%s.chars_[%s]" % (src, I))
    fl = ck.flow(fn)
    for s in ck.sites(fl, lambda ev: ev is store, "store", 1):
        if E.const(s.ev.get("rhs")) == value:
            ck.ok(rid + ".value", s.where(), "%s: stored value is %d" % (fn.name, value))
        else:
            ck.violation(rid + ".value", "%s|%s|stored-value" % (rid, fn.name), s.where(), "%s stores %s, not %d %s" % (fn.name, E.key(s.ev.get("rhs")), value, why))
        if s.has(same_i, True):
            ck.ok(rid + ".gated", s.where(), "%s: chars_[%s] is changed only with %s.chars_[%s] set" % (fn.name, I, src, I))
        else:
            ck.violation(rid + ".gated", "%s|%s|store|needs:%s.chars_[%s]" % (rid, fn.name, src, I), s.where(), "%s: chars_[%s] can be changed without %s.chars_[%s] being set "
                         "(elements outside the other set would change) %s" % (fn.name, I, src, I, why), fl.witness(s))
    moves = events(fn, lambda ev: ev.get("e") == "asg" and match(ev.get("lhs"), ("ref", I)))
    inits = [ev.get("init") for ev in events(fn, lambda ev: ev.get("e") == "decl" and ev.get("d") == I)]
    good = len(inits) == 1 and E.const(inits[0]) == 0 and moves and all(ev.get("op") == "++" for ev in moves)
    shape(ck, rid + ".range", fn, fn.line, "index %s starts at 0 and only moves by ++" % I, good, True, "init %s, updates %s" % ([E.key(i) for i in inits], sorted({ev.get("op") for ev in moves})))
    full = E.M(lambda t: E.const(t) is not None and E.const(t) >= 256 or (short(t) == "size" and any(n.get("m") == CHARS for n in E.walk(t))), "N >= 256 | chars_.size()")
    bound = E.m_cmp("<", E.m_is_ref(I), full)
    for s in ck.sites(fl, is_ret, "return", 1):
        if s.has(bound, False):
            ck.ok(rid + ".range", s.where(), "%s: returns only once %s has run over all 256 elements" % (fn.name, I))
        else:
            ck.violation(rid + ".range", "%s|%s|return|needs:%s>=256" % (rid, fn.name, I), s.where(), "%s can return before %s has visited every one of the 256 elements "
                         "(the tail of the other set would be ignored; facts: %s) %s" % (fn.name, I, ", ".join(s.fact_keys())[:160], why), fl.witness(s))
    returns_self(ck, rid, fn)


def element_stores(ck, fn):
    """stores of the form chars_[i] = v in fn: [(event, index tree)], and nothing else is stored into"""
    st = events(fn, lambda ev: ev.get("e") == "asg" and E.strip(ev["lhs"]).get("k") != "ref")
    ck.need(st and all(match(ev["lhs"], ("call", "std::vector::operator[]", ("this", CHARS), [None])) for ev in st), "C50: %s stores into something other than chars_[i]" % fn.name)
    return [(ev, E.strip(ev["lhs"])["a"][0]) for ev in st]


def run(ck):
    facts = ck.facts(["src/base/CharacterSet.cc", "src/parser/Tokenizer.cc"], whole=False)

    ck.rule("S1 LOOP CharacterSet::operator+= / operator-=: the only store is `*d = 1` / `*d = 0`, reached only with *s true and s != end; s starts at src.chars_.begin(), d at "
            "chars_.begin(), both advance exactly once per iteration and never apart, the function returns only with s == src.chars_.end(); operator+ / operator- apply them to "
            "their by-value left operand and return it")
    pointwise(ck, "S1.union", facts.fn(CS + "operator+="), 1, "(operator+= would not be set union)")
    pointwise(ck, "S1.difference", facts.fn(CS + "operator-="), 0, "(operator-= would not be set difference)")
    for op in ("+", "-"):
        fn = [f for f in facts.fns("operator" + op) if f.sig.startswith("CharacterSet")]
        ck.need(len(fn) == 1, "C50: free operator%s(CharacterSet, const CharacterSet &) not found" % op)
        fn = fn[0]
        a, b = pnames(ck, fn, 2)
        applied = [E.strip(ev["x"]) for ev in events(fn, lambda ev: ev.get("e") == "call" and short(ev["x"]) in ("operator+=", "operator-="))]
        rets = events(fn, is_ret)
        ck.need(len(applied) == 1 and len(rets) == 1, "C50: operator%s is no longer one compound assignment and a return" % op)
        shape(ck, "S1.binary", fn, fn.line, "operator%s is `%s %s= %s; return %s`" % (op, a, op, b, a),
              match(applied[0], ("call", CS + "operator" + op + "=", ("ref", a), [("ref", b)])) and match(rets[0]["x"], ("ref", a)), True, E.key(applied[0]) + "; return " + E.key(rets[0]["x"]))

    ck.rule("S2 SHAPE CharacterSet::add(c) / remove(c): the only store is chars_[c] = 1 / 0; addRange(low, high): stores are chars_[low] = 1 only with low < high, followed by "
            "exactly one ++low before the next store or return, and chars_[high] = 1 on every path to the return")
    for name, value in (("add", 1), ("remove", 0)):
        fn = facts.fn(CS + name)
        T = Terms(fn)
        c = pnames(ck, fn, 1)[0]
        st = element_stores(ck, fn)
        ck.need(len(st) == 1, "C50: %s has %d stores" % (fn.name, len(st)))
        same(ck, "S2." + name, fn, st[0][0]["l"], "index", lin_or_broken(T, st[0][1], "index"), {c: 1}, "(another element would change)")
        same(ck, "S2." + name, fn, st[0][0]["l"], "stored value", lin_or_broken(T, st[0][0]["rhs"], "value"), {"": value} if value else {})
        returns_self(ck, "S2", fn)
    fn = facts.fn(CS + "addRange")
    T = Terms(fn)
    low, high = pnames(ck, fn, 2)
    st = element_stores(ck, fn)
    at = {id(ev): T.s(i, expand=False) for ev, i in st}
    ck.need(set(at.values()) == {low, high}, "C50: addRange stores at %s, expected one store at %s and one at %s" % (sorted(at.values()), low, high))
    in_loop = lambda ev: at.get(id(ev)) == low
    last = lambda ev: at.get(id(ev)) == high

    def on_event(ev, env, facts):
        if in_loop(ev):
            env["%inc"] = 0
        elif ev.get("e") == "asg" and E.key(ev["lhs"]) in (low, high):
            good = E.key(ev["lhs"]) == low and (ev["op"] == "++" or (ev["op"] == "+=" and E.const(ev["rhs"]) == 1))
            env["%inc"] = min(env.get("%inc", 0) + 1, 2) if good and env.get("%inc", 0) < 9 else 9
    fl = ck.flow(fn, on_event=on_event, markers={"last": last})
    for ev, i in st:
        same(ck, "S2.addRange", fn, ev["l"], "stored value", lin_or_broken(T, ev["rhs"], "value"), {"": 1})
    gate(ck, "S2.addRange-loop", T, fl, in_loop, low, high, "<", "chars_[low] = 1", why="(characters above high would be added)")
    for s in fl.find(lambda ev: in_loop(ev) or is_ret(ev)):
        if s.env.get("%inc") in (None, 1):
            ck.ok("S2.addRange-step", s.where(), "addRange: %s is incremented exactly once between two stores (and before the return)" % low)
        else:
            ck.violation("S2.addRange-step", "S2|addRange|step", s.where(), "addRange reaches '%s' with %s changed %s times since the last chars_[%s] store (9 = not by ++): the range is not walked one by one"
                         % (s.desc()[:40], low, s.env.get("%inc"), low), fl.witness(s))
    ck.require_passed("S2.addRange-last", fl, is_ret, "last", "return", why="(the upper end of an inclusive range would be missing)")
    returns_self(ck, "S2", fn)

    ck.rule("S3 SHAPE CharacterSet::complement: std::transform(chars_.begin(), chars_.end(), result.chars_.begin(), std::logical_not) into the local that is returned; every "
            "constructor starts from Storage(256, 0) and then only add()s each character of its string / addRange()s its (low, high) / each (first, second) of its list")
    fn = facts.fn(CS + "complement")
    T = Terms(fn)
    tr = the_call(ck, fn, "std::transform", 4)
    rets = events(fn, is_ret)
    res = E.strip(rets[0]["x"]) if len(rets) == 1 else {}
    ck.need(res.get("k") == "ref" and res.get("dk") == "local", "C50: complement does not return a local")
    a = tr["a"]
    vec = lambda t: short(t) in ("begin", "end", "cbegin", "cend") and any(n.get("m") == CHARS for n in E.walk(t))
    shape(ck, "S3.complement", fn, fn.line, "the whole of chars_ is transformed into %s.chars_" % res["d"],
          match(a[0], ("call", "std::vector::begin", ("this", CHARS), [])) and match(a[1], ("call", "std::vector::end", ("this", CHARS), [])) and
          match(a[2], ("call", "std::vector::begin", ("field", CHARS, ("ref", res["d"])), [])), all(vec(x) for x in a[:3]), E.key(tr))
    shape(ck, "S3.complement", fn, fn.line, "the element operation is std::logical_not", match(a[3], ("call", "std::logical_not::logical_not", None, [])),
          E.strip(a[3]).get("k") == "ctor" and E.strip(a[3]).get("f", "").startswith("std::"), E.key(a[3]))
    ctors = facts.fns(CS + "CharacterSet")
    ck.need(len(ctors) == 3, "C50: expected 3 CharacterSet constructors, found %d" % len(ctors))
    for fn in ctors:
        T = Terms(fn)
        ini = events(fn, lambda ev: ev.get("e") == "asg" and ev.get("op") == "init" and match(ev["lhs"], ("this", CHARS)))
        ck.need(len(ini) == 1 and match(ini[0]["rhs"], ("call", "std::vector::vector", None, None)) and len(E.strip(ini[0]["rhs"])["a"]) >= 2, "C50: %s(%s) does not initialise chars_ from (n, v)" % (fn.name, fn.sig))
        n, v = E.strip(ini[0]["rhs"])["a"][:2]
        same(ck, "S3.ctor-storage", fn, ini[0]["l"], "number of slots (%s)" % fn.sig[:30], lin_or_broken(T, n, "size"), {"": 256}, "(not one slot per byte value)")
        same(ck, "S3.ctor-storage", fn, ini[0]["l"], "initial slot value (%s)" % fn.sig[:30], lin_or_broken(T, v, "value"), {}, "(a new set would not start empty)")
        p = [x["d"] for x in fn.params]
        fills = [E.strip(ev["x"]) for ev in events(fn, lambda ev: ev.get("e") == "call" and match(ev["x"], ("call", {CS + "add", CS + "addRange"}, None, None)))]
        ck.need(len(fills) == 1 and not events(fn, lambda ev: ev.get("e") == "asg" and ev.get("op") != "init" and E.strip(ev["lhs"]).get("k") != "ref"), "C50: %s(%s) fills its storage in an unknown way" % (fn.name, fn.sig))
        f = fills[0]
        if len(p) == 3:
            shape(ck, "S3.ctor-fill", fn, fn.line, "(label, low, high) is addRange(low, high)", match(f, ("call", CS + "addRange", None, [("ref", p[1]), ("ref", p[2])])),
                  f["f"] == CS + "addRange" and all(E.strip(x).get("k") == "ref" for x in f["a"]), E.key(f))
        elif "initializer_list" in fn.sig:
            el = E.strip(f["a"][0]).get("b") if f["f"] == CS + "addRange" and len(f["a"]) == 2 else None
            el = E.strip(el or {})
            ck.need(el.get("k") == "ref" and T.single(el.get("d", "")) and p[1] in ck.closure_mentions(fn, T.init[el["d"]], 4), "C50: the list constructor does not iterate over %s" % p[1])
            shape(ck, "S3.ctor-fill", fn, fn.line, "each list element e is addRange(e.first, e.second)",
                  match(f, ("call", CS + "addRange", None, [("field", "std::pair::first", ("ref", el["d"])), ("field", "std::pair::second", ("ref", el["d"]))])),
                  all(E.strip(x).get("m", "").startswith("std::pair::") for x in f["a"]), E.key(f))
        else:
            idx = E.strip(f["a"][0]) if f["f"] == CS + "add" and len(f["a"]) == 1 else {}
            ck.need(idx.get("k") == "idx" and match(idx["b"], ("ref", p[1])) and E.strip(idx["i"]).get("k") == "ref", "C50: the string constructor does not add(%s[i])" % p[1])
            i = E.strip(idx["i"])["d"]
            n = find(ck, fn, ("call", "strlen", None, [("ref", p[1])]), "strlen(%s)" % p[1])[0]
            same(ck, "S3.ctor-fill", fn, fn.line, "first index", lin_or_broken(T, T.init.get(i) or {}, "index"), {}, "(leading characters would be skipped)")

            def on_event(ev, env, facts, i=i, f=f):
                if ev.get("e") == "call" and E.key(ev["x"]) == E.key(f):
                    env["%inc"] = 0
                elif ev.get("e") == "asg" and E.key(ev["lhs"]) == i:
                    env["%inc"] = min(env.get("%inc", 0) + 1, 2) if ev["op"] == "++" and env.get("%inc", 0) < 9 else 9
            fl = ck.flow(fn, on_event=on_event)
            is_fill = lambda ev, f=f: ev.get("e") == "call" and E.key(ev["x"]) == E.key(f)
            gate(ck, "S3.ctor-fill", T, fl, is_fill, i, n, "<", "add(c[i])", why="(characters past the terminator would be added)")
            for s in fl.find(is_fill):
                if s.env.get("%inc") in (None, 1):
                    ck.ok("S3.ctor-fill", s.where(), "the string constructor advances i by one between two add(c[i])")
                else:
                    ck.violation("S3.ctor-fill", "S3|string-ctor|step", s.where(), "the string constructor changes i %s times between two add(c[i])" % s.env.get("%inc"), fl.witness(s))

    tokenizer(ck, facts)
    ck.assume("decides the structural clauses above, not set algebra / maximal munch over all 256 byte values and all inputs")
    ck.assume("CharacterSet::operator[] / rename() / operator== (inline in CharacterSet.h, no CFG facts), SBuf::findFirstOf/findFirstNotOf/findLastNotOf/substr/consume/startsWith/cmp "
              "and the std:: containers/algorithms are taken as specified; addRange(low, high) with low > high still adds `high` (the C22 model folds such a range to the empty set)")


# ---------------------------------------------------------------------------------------------------------------- Tokenizer
def consumer_family(ck, rid, fn, T, consumer, amount, gates, why):
    """`return consumer(amount)` is the only way to succeed: its argument is the matched length, it is reached only past the gates, and every
    other return is the constant 0 reached without consuming anything"""
    call = the_call(ck, fn, consumer, 1)
    same(ck, rid + ".amount", fn, fn.line, "amount consumed", lin_or_broken(T, call["a"][0], "amount"), T.form(amount), why)
    is_c = lambda ev: ev.get("e") == "call" and E.key(ev["x"]) == E.key(call)
    fl = ck.flow(fn, markers={"took": is_c}, track_markers=["took"])
    for a, b, want, text in gates:
        gate(ck, rid + ".gate", T, fl, is_c, a, b, want, short(call) + "()", why=text)
    for s in ck.sites(fl, is_ret, "return", 2):
        if E.key(s.ev["x"]) == E.key(call):
            ck.ok(rid + ".result", s.where(), "%s returns what %s() reports" % (fn.name, short(call)))
        else:
            ck.need(ret_const(0)(s.ev), "C50: %s returns %s" % (fn.name, E.key(s.ev["x"])))
            if s.passed("took"):
                ck.violation(rid + ".result", "%s|%s|fails-after-consuming" % (rid, fn.name), s.where(), "%s can return 0/false after %s() consumed input" % (fn.name, short(call)), fl.witness(s))
            else:
                ck.ok(rid + ".result", s.where(), "%s fails without consuming" % fn.name)
    return fl, call


def tokenizer(ck, facts):
    npos = facts.fn(TK + "consumeTrailing")
    npos = [n for n in trees(npos) if match(n, NPOS) and E.const(n) is not None]
    ck.need(npos, "C50: SBuf::npos is not a foldable constant")
    NPOS_FORM = {"": E.const(npos[0])}
    def fn_(name, sig=None):
        c = [f for f in facts.fns(TK + name) if sig is None or f.sig.startswith(sig)]
        ck.need(len(c) == 1, "C50: Tokenizer::%s(%s) not found or ambiguous" % (name, sig or ""))
        return c[0]
    length = lambda o: ("call", "SBuf::length", o, [])

    ck.rule("K1 SHAPE Tokenizer::consume(n): buf_.consume(n) is kept, parsed_ grows by its length(), it is returned; consumeTrailing(n): result = buf_, "
            "buf_ = result.consume(buf_.length() - (n == npos ? buf_.length() : n)), parsed_ grows by that count, result is returned; success()/successTrailing() return their length()")
    fn = fn_("consume")
    T = Terms(fn)
    n = pnames(ck, fn, 1)[0]
    c = the_call(ck, fn, "SBuf::consume", 1)
    ck.need(match(c["o"], BUF), "C50: Tokenizer::consume does not consume from buf_")
    same(ck, "K1.consume", fn, fn.line, "amount taken from buf_", lin_or_broken(T, c["a"][0], "amount"), {n: 1}, "(callers pass the matched length)")
    kept = [d for d, i in T.init.items() if i is not None and E.key(i) == E.key(c)]
    ck.need(len(kept) == 1, "C50: the consumed prefix is not kept in one local")
    grow = events(fn, store_to(("this", TK + "parsed_")))
    rets = events(fn, is_ret)
    ck.need(len(grow) == 1 and len(rets) == 1, "C50: Tokenizer::consume updates parsed_ %d times, returns %d times" % (len(grow), len(rets)))
    shape(ck, "K1.consume", fn, grow[0]["l"], "parsed_ += <consumed>.length()", grow[0]["op"] == "+=" and match(grow[0]["rhs"], length(("ref", kept[0]))), True, E.key(grow[0]["rhs"]))
    shape(ck, "K1.consume", fn, rets[0]["l"], "the consumed prefix is returned", match(rets[0]["x"], ("ref", kept[0])), True, E.key(rets[0]["x"]))
    for name, inner in (("success", "consume"), ("successTrailing", "consumeTrailing")):
        fn = fn_(name)
        n = pnames(ck, fn, 1)[0]
        rets = events(fn, is_ret)
        ck.need(len(rets) == 1, "C50: %s has %d returns" % (fn.name, len(rets)))
        shape(ck, "K1." + name, fn, rets[0]["l"], "returns %s(%s).length()" % (inner, n), match(rets[0]["x"], length(("call", TK + inner, None, [("ref", n)]))),
              match(rets[0]["x"], length(("call", {TK + "consume", TK + "consumeTrailing"}, None, [None]))) or E.const(rets[0]["x"]) is not None or match(rets[0]["x"], ("ref", n)), E.key(rets[0]["x"]))
    fn = fn_("consumeTrailing")
    T = Terms(fn)
    n = pnames(ck, fn, 1)[0]
    c = the_call(ck, fn, "SBuf::consume", 1)
    copy = on_local(c)
    ck.need(copy and T.init.get(copy) is not None and match(T.init[copy], BUF), "C50: consumeTrailing does not split a copy of buf_")
    put = the_call(ck, fn, "SBuf::operator=", 1)
    ck.need(match(put, ("call", "SBuf::operator=", BUF, [("call", "SBuf::consume", ("ref", copy), [None])])), "C50: consumeTrailing does not store the consumed head back into buf_")
    cnt = [d for d, i in T.init.items() if i is not None and E.strip(i).get("k") == "cond"]
    ck.need(len(cnt) == 1, "C50: consumeTrailing has no `n == npos ? ... : n` count")
    ci = E.strip(T.init[cnt[0]])
    cc, pol = E.norm(ci["c"])
    whole, some = (ci["t"], ci["f"]) if pol else (ci["f"], ci["t"])
    ck.need(match(cc, ("field", None, None)) or E.strip(cc).get("k") == "bin", "C50: unknown npos test in consumeTrailing")
    shape(ck, "K1.consumeTrailing", fn, fn.line, "count is buf_.length() for n == npos, else n",
          E.strip(cc).get("op") == "==" and match(E.strip(cc)["l"], ("ref", n)) and match(E.strip(cc)["r"], NPOS) and match(whole, length(BUF)) and match(some, ("ref", n)),
          E.strip(cc).get("op") in ("==", "<"), E.key(ci))
    same(ck, "K1.consumeTrailing", fn, fn.line, "head kept in buf_", lin_or_broken(T, c["a"][0], "head"), {"buf_.length()": 1, cnt[0]: -1}, "(the tail handed out would not be the last `count` bytes)")
    grow = events(fn, store_to(("this", TK + "parsed_")))
    rets = events(fn, is_ret)
    ck.need(len(grow) == 1 and len(rets) == 1, "C50: consumeTrailing updates parsed_ %d times, returns %d times" % (len(grow), len(rets)))
    shape(ck, "K1.consumeTrailing", fn, grow[0]["l"], "parsed_ += count", grow[0]["op"] == "+=" and match(grow[0]["rhs"], ("ref", cnt[0])), True, E.key(grow[0]["rhs"]))
    shape(ck, "K1.consumeTrailing", fn, rets[0]["l"], "the tail is returned", match(rets[0]["x"], ("ref", copy)), True, E.key(rets[0]["x"]))

    ck.rule("K2 TABLE skipAll(set): n = buf_.findFirstNotOf(set); `return 0` only with n == 0, else success(n).  skipOne(set) / skip(char) / skipOneTrailing(set): success(1) / "
            "successTrailing(1) only with buf_ non-empty and set[buf_[0]] / buf_[0] == c / set[buf_[length-1]].  skip(tok): success(tok.length()) only with buf_.startsWith(tok).  "
            "skipSuffix(tok): successTrailing(tok.length()) only with buf_.length() >= tok.length() and buf_.substr(length difference).cmp(tok) == 0.  "
            "skipAllTrailing(set): successTrailing(buf_.length() - (p == npos ? 0 : p + 1)) for p = buf_.findLastNotOf(set), `return 0` only when that is 0")
    fn = fn_("skipAll")
    T = Terms(fn)
    st = pnames(ck, fn, 1)[0]
    srch = find(ck, fn, ("call", "~findFirstNotOf", None, None), "first-mismatch search")[0]
    shape(ck, "K2.skipAll", fn, fn.line, "the search is buf_.findFirstNotOf(%s) from position 0" % st, match(srch, ("call", "SBuf::findFirstNotOf", BUF, [("ref", st), ("const", 0)])),
          short(srch) == "findFirstNotOf", E.key(srch))
    fl, _ = consumer_family(ck, "K2.skipAll", fn, T, TK + "success", srch, [], "(more or less than the matching run would be skipped)")
    gate(ck, "K2.skipAll.gate", T, fl, ret_const(0), "0", srch, "=", "return 0", why="(a non-empty run would be left in place)")
    empty = lambda fn: find(ck, fn, ("call", "SBuf::isEmpty", BUF, []), "buf_.isEmpty()")[0]
    for name, sig, consumer, member in (("skipOne", None, "success", lambda p: ("call", CS + "operator[]", ("ref", p), [("call", "SBuf::operator[]", BUF, [("const", 0)])])),
                                        ("skip", "const char", "success", lambda p: ("call", "SBuf::operator[]", BUF, [("const", 0)])),
                                        ("skipOneTrailing", None, "successTrailing", lambda p: ("call", CS + "operator[]", ("ref", p), [("call", "SBuf::operator[]", BUF, [None])]))):
        fn = fn_(name, sig)
        T = Terms(fn)
        p = pnames(ck, fn, 1)[0]
        probe = find(ck, fn, member(p), "membership/equality probe")[0]
        gates = [("0", empty(fn), "=", "(an empty buffer would be indexed)")]
        if name == "skip":
            gates.append((probe, {p: 1}, "=", "(a different character would be skipped)"))
        else:
            gates.append(("0", probe, "<>", "(a character outside the set would be skipped)"))
        if name == "skipOneTrailing":
            pos = E.strip(probe["a"][0])["a"][0]
            same(ck, "K2." + name + ".amount", fn, fn.line, "probed position", lin_or_broken(T, pos, "position"), {"buf_.length()": 1, "": -1}, "(not the last character)")
        consumer_family(ck, "K2." + name, fn, T, TK + consumer, {"": 1}, gates, "(exactly one character is matched)")
    fn = fn_("skip", "const SBuf")
    T = Terms(fn)
    tok = pnames(ck, fn, 1)[0]
    sw = find(ck, fn, ("call", "SBuf::startsWith", BUF, None), "buf_.startsWith()")[0]
    shape(ck, "K2.skip-token", fn, fn.line, "the test is buf_.startsWith(%s)" % tok, match(sw["a"][0], ("ref", tok)), True, E.key(sw))
    consumer_family(ck, "K2.skip-token", fn, T, TK + "success", {tok + ".length()": 1}, [("0", sw, "<>", "(input that does not start with the token would be consumed)")], "(the token's length is what matched)")
    fn = fn_("skipSuffix")
    T = Terms(fn)
    tok = pnames(ck, fn, 1)[0]
    cmp_ = find(ck, fn, ("call", "SBuf::cmp", None, None), "suffix comparison")[0]
    sub = E.strip(cmp_["o"])
    ck.need(match(sub, ("call", "SBuf::substr", BUF, [None, NPOS])) and E.strip(sub["a"][0]).get("k") == "ref", "C50: skipSuffix does not compare buf_.substr(<local>, npos)")
    off = E.strip(sub["a"][0])["d"]
    shape(ck, "K2.skipSuffix", fn, fn.line, "the tail is compared with %s" % tok, match(cmp_["a"][0], ("ref", tok)), True, E.key(cmp_))
    fl, call = consumer_family(ck, "K2.skipSuffix", fn, T, TK + "successTrailing", {tok + ".length()": 1},
                               [(cmp_, "0", "=", "(a buffer that does not end with the token would be shortened)"), ("buf_.length()", tok + ".length()", ">=", "(the token is longer than the buffer)")],
                               "(the token's length is what matched)")
    for s in ck.sites(fl, lambda ev: ev.get("e") in ("decl", "asg") and (ev.get("d") == off or E.key(ev.get("lhs")) == off), "offset definition", 1):
        v = lin_or_broken(T, s.ev.get("init") if s.ev["e"] == "decl" else s.ev["rhs"], "offset")
        if v:
            same(ck, "K2.skipSuffix.offset", fn, s.line, "start of the compared tail", v, {"buf_.length()": 1, tok + ".length()": -1}, "(the comparison would not cover exactly the last token-length bytes)")
    fn = fn_("skipAllTrailing")
    T = Terms(fn)
    st = pnames(ck, fn, 1)[0]
    srch = find(ck, fn, ("call", "~findLastNotOf", None, None), "last-mismatch search")[0]
    shape(ck, "K2.skipAllTrailing", fn, fn.line, "the search is buf_.findLastNotOf(%s) from the end" % st, match(srch, ("call", "SBuf::findLastNotOf", BUF, [("ref", st), NPOS])),
          short(srch) == "findLastNotOf", E.key(srch))
    keep = [d for d, i in T.init.items() if i is not None and E.strip(i).get("k") == "cond"]
    ck.need(len(keep) == 1, "C50: skipAllTrailing has no `p == npos ? 0 : p + 1` prefix length")
    ci = E.strip(T.init[keep[0]])
    cc, pol = E.norm(ci["c"])
    none, some = (ci["t"], ci["f"]) if pol else (ci["f"], ci["t"])
    cc = E.strip(cc)
    ck.need(cc.get("k") == "bin" and cc.get("op") == "==", "C50: unknown npos test in skipAllTrailing")
    try:
        good = T.s(cc["l"]) == T.s(srch) and match(cc["r"], NPOS) and E.const(none) == 0 and T.lin(some) == {T.s(srch): 1, "": 1}
    except Unrec:
        good = False
    shape(ck, "K2.skipAllTrailing", fn, fn.line, "kept prefix is 0 when nothing mismatches, else position + 1", good, True, E.key(ci))
    fl, _ = consumer_family(ck, "K2.skipAllTrailing", fn, T, TK + "successTrailing", {"buf_.length()": 1, keep[0]: -1}, [], "(the skipped tail would not be the run after the last mismatch)")
    gate(ck, "K2.skipAllTrailing.gate", T, fl, ret_const(0), "0", {"buf_.length()": 1, keep[0]: -1}, "=", "return 0", why="(a non-empty run would be left in place)")

    ck.rule("K3 TABLE prefix(tok, set, limit): n = buf_.substr(0, limit).findFirstNotOf(set); n is only ever replaced by `limit`, and only with n == npos; the only consumer is "
            "tok = consume(n), reached only with n != 0; `return true` only past it; `return false` only without consuming and with n == 0 or (n == npos and (atEnd() or limit == 0))")
    fn = fn_("prefix", "SBuf &")
    T = Terms(fn)
    out, st, limit = pnames(ck, fn, 3)
    srch = find(ck, fn, ("call", "~findFirstNotOf", None, None), "first-mismatch search")[0]
    shape(ck, "K3.prefix-search", fn, fn.line, "the search is buf_.substr(0, %s).findFirstNotOf(%s) from position 0" % (limit, st),
          match(srch, ("call", "SBuf::findFirstNotOf", ("call", "SBuf::substr", BUF, [("const", 0), ("ref", limit)]), [("ref", st), ("const", 0)])), short(srch) == "findFirstNotOf", E.key(srch))
    nloc = [d for d, i in T.init.items() if i is not None and E.key(i) == E.key(srch)]
    ck.need(len(nloc) == 1, "C50: the prefix length is not kept in one local")
    n = nloc[0]
    take = the_call(ck, fn, TK + "consume", 1)
    same(ck, "K3.prefix-amount", fn, fn.line, "amount consumed", lin_or_broken(T, take["a"][0], "amount"), T.form(n), "(not the matched length)")
    put = lambda ev: ev.get("e") == "call" and match(ev["x"], ("call", "SBuf::operator=", ("ref", out), [("call", TK + "consume", None, [None])]))
    took = lambda ev: ev.get("e") == "call" and E.key(ev["x"]) == E.key(take)
    cap = lambda ev: ev.get("e") == "asg" and E.key(ev["lhs"]) == n
    at_end = find(ck, fn, ("call", TK + "atEnd", None, []), "atEnd()")[0]
    on_edge, on_event = track_orderings(T, {"n": ("0", n), "end": ("0", at_end), "limit": ("0", limit)})
    fl = ck.flow(fn, markers={"put": put, "took": took, "capped": cap}, track_markers=["took", "capped"], on_edge=on_edge, on_event=on_event)
    caps = fl.find(cap)
    for s in caps:
        same(ck, "K3.prefix-cap", fn, s.line, "replacement for the prefix length", lin_or_broken(T, s.ev["rhs"], "length"), {limit: 1}, "(only the limit may stand in for 'everything matched')")
    if caps:
        gate(ck, "K3.prefix-cap", T, fl, cap, n, NPOS_FORM, "=", "prefix length := limit", why="(a real mismatch position would be overridden: too much is consumed)")
        gate(ck, "K3.prefix-nonempty", T, fl, cap, "0", limit, "<>", "prefix length := limit", why="(a zero limit would be reported as a successful empty token)")
    gate(ck, "K3.prefix-nonempty", T, fl, took, "0", n, "<>", "consume()", why="(an empty token would be reported as success)", only=lambda s: not s.passed("capped"))
    ck.require_passed("K3.prefix-result", fl, ret_const(1), "put", "return true", why="(success without handing out the consumed prefix)")
    for s in ck.sites(fl, ret_const(0), "return false", 1):
        z, _ = orderings(T, s, {}, T.form(n))
        e, _ = orderings(T, s, T.form(n), NPOS_FORM)
        if s.passed("took"):
            ck.violation("K3.prefix-fail", "K3|prefix|fails-after-consuming", s.where(), "prefix() can return false after consuming input", fl.witness(s))
        elif z <= {"="} or e <= {"="}:
            ck.ok("K3.prefix-fail", s.where(), "prefix() fails only with n == 0 or n == npos, consuming nothing")
        else:
            ck.violation("K3.prefix-fail", "K3|prefix|fails-with-a-match", s.where(), "prefix() can return false although the search found a non-empty prefix (n neither 0 nor npos on this path)", fl.witness(s))
    for s in fl.find(ret_const(0)):
        why = [w for w, k, ok in (("n == 0", "%o:n", "="), ("atEnd()", "%o:end", "<>"), ("limit == 0", "%o:limit", "=")) if k in s.env and set(s.env[k]) <= set(ok)]
        if why:
            ck.ok("K3.prefix-fail-npos", s.where(), "prefix() fails on a path where the last tests established %s" % " / ".join(why))
        else:
            ck.violation("K3.prefix-fail-npos", "K3|prefix|fails-with-whole-haystack-matched", s.where(),
                         "prefix() can return false on a path with none of n == 0, atEnd(), limit == 0 established: with n == npos, a non-empty buffer and a non-zero limit the "
                         "whole limited haystack matched, which is a success", fl.witness(s))

    ck.rule("K4 LOOP suffix(tok, set, limit): span = buf_ is cut by buf_.length() - limit only with limit < buf_.length(); the cursor starts at span.rbegin() and advances only with "
            "cursor != span.rend() and set[*cursor]; `found` starts at 0 and is incremented exactly as often as the cursor; tok = consumeTrailing(found) only with found != 0; "
            "`return false` only with found == 0 and nothing consumed")
    fn = fn_("suffix", "SBuf &")
    T = Terms(fn)
    out, st, limit = pnames(ck, fn, 3)
    cur_ = find(ck, fn, ("call", CS + "operator[]", ("ref", st), [("call", "~operator*", None, [])]), "set[*cursor] test")[0]
    I = on_local(E.strip(cur_["a"][0]))
    ck.need(I and T.init.get(I) is not None and short(T.init[I]) == "rbegin" and on_local(T.init[I]), "C50: suffix() does not walk a reverse iterator")
    span = on_local(T.init[I])
    ck.need(T.init.get(span) is not None and match(T.init[span], BUF), "C50: suffix() does not scan a copy of buf_")
    rend = find(ck, fn, ("call", "SBuf::rend", ("ref", span), []), "span.rend()")[0]
    take = the_call(ck, fn, TK + "consumeTrailing", 1)
    F = E.strip(take["a"][0])
    ck.need(F.get("k") == "ref" and F.get("dk") == "local", "C50: suffix() does not consume a counted length")
    F = F["d"]
    same(ck, "K4.suffix-count", fn, fn.line, "initial count", lin_or_broken(T, T.init.get(F) or {"k": "cut"}, "count"), {}, "(the count would not be the length of the run)")
    cut = [E.strip(ev["x"]) for ev in events(fn, is_ev(("call", "SBuf::consume", ("ref", span), [None])))]
    ck.need(len(cut) <= 1, "C50: suffix() trims its span %d times" % len(cut))
    step = lambda name: (lambda ev: ev.get("e") == "call" and on_local(ev["x"]) == name and not E.strip(ev["x"]).get("cm") and short(ev["x"]) != "consume")
    count = lambda ev: ev.get("e") == "asg" and E.key(ev["lhs"]) == F

    def on_event(ev, env, facts):
        for hit, d in ((step(I)(ev), 1), (count(ev), -1)):
            if hit:
                good = (short(ev["x"]) == "operator++") if d == 1 else (ev["op"] == "++")
                env["%lead"] = max(-2, min(2, env.get("%lead", 0) + d)) if good and abs(env.get("%lead", 0)) < 9 else 9
    took = lambda ev: ev.get("e") == "call" and E.key(ev["x"]) == E.key(take)
    fl = ck.flow(fn, on_event=on_event, markers={"put": lambda ev: ev.get("e") == "call" and match(ev["x"], ("call", "SBuf::operator=", ("ref", out), [("call", TK + "consumeTrailing", None, [None])])),
                                                   "took": took}, track_markers=["took"])
    if cut:
        same(ck, "K4.suffix-limit", fn, fn.line, "bytes cut off the front of the span", lin_or_broken(T, cut[0]["a"][0], "cut"), {"buf_.length()": 1, limit: -1}, "(the scan would not be limited to the last `limit` bytes)")
        gate(ck, "K4.suffix-limit", T, fl, lambda ev: ev.get("e") == "call" and E.key(ev["x"]) == E.key(cut[0]), limit, "buf_.length()", "<", "span.consume()", why="(the subtraction would wrap)")
    gate(ck, "K4.suffix-scan", T, fl, step(I), {I: 1}, rend, "<>", "cursor step", why="(the scan would run past the start of the buffer)")
    gate(ck, "K4.suffix-scan", T, fl, step(I), "0", cur_, "<>", "cursor step", why="(a character outside the set would be counted)")
    for s in ck.sites(fl, lambda ev: took(ev) or is_ret(ev) or (ev.get("e") == "call" and E.key(ev["x"]) == E.key(rend)), "loop test / use of the count", 3):
        if s.env.get("%lead", 0) == 0:
            ck.ok("K4.suffix-count", s.where(), "suffix(): %s equals the number of cursor steps at '%s'" % (F, s.desc()[:40]))
        else:
            ck.violation("K4.suffix-count", "K4|suffix|count-not-in-lockstep", s.where(), "suffix(): at '%s' the count %s and the cursor differ by %s step(s) (9 = changed other than by ++)"
                         % (s.desc()[:40], F, s.env.get("%lead")), fl.witness(s))
    gate(ck, "K4.suffix-nonempty", T, fl, took, "0", F, "<>", "consumeTrailing()", why="(an empty token would be reported as success)")
    ck.require_passed("K4.suffix-result", fl, ret_const(1), "put", "return true")
    for s in ck.sites(fl, ret_const(0), "return false", 1):
        if s.passed("took"):
            ck.violation("K4.suffix-fail", "K4|suffix|fails-after-consuming", s.where(), "suffix() can return false after consuming input", fl.witness(s))
    gate(ck, "K4.suffix-fail", T, fl, ret_const(0), "0", F, "=", "return false", why="(a non-empty matching tail would be refused)")

    ck.rule("K5 ORDER token(tok, delims): a copy of *this is saved before anything is consumed; n = buf_.findFirstOf(delims) after skipAll(delims); `return false` only with "
            "n == npos and after *this was restored from the copy with nothing consumed since; tok = consume(n) only with n != npos, `return true` only past it and past a second skipAll(delims)")
    fn = fn_("token")
    T = Terms(fn)
    out, dl = pnames(ck, fn, 2)
    srch = find(ck, fn, ("call", "~findFirstOf", None, None), "delimiter search")[0]
    shape(ck, "K5.token-search", fn, fn.line, "the search is buf_.findFirstOf(%s) from position 0" % dl, match(srch, ("call", "SBuf::findFirstOf", BUF, [("ref", dl), ("const", 0)])), short(srch) == "findFirstOf", E.key(srch))
    take = the_call(ck, fn, TK + "consume", 1)
    same(ck, "K5.token-amount", fn, fn.line, "amount consumed", lin_or_broken(T, take["a"][0], "amount"), T.form(srch), "(not the distance to the first delimiter)")
    saved = [d for d, i in T.init.items() if i is not None and E.key(i) == "*this"]
    ck.need(len(saved) == 1, "C50: token() keeps no copy of *this")
    restore = lambda ev: ev.get("e") == "call" and match(ev["x"], ("call", TK + "operator=", None, [("ref", saved[0])]))
    mutate = lambda ev: ev.get("e") == "call" and E.strip(ev["x"]).get("f", "").startswith(TK) and not E.strip(ev["x"]).get("cm") and E.strip(E.strip(ev["x"]).get("o") or {}).get("k") == "this" and not restore(ev)
    skips = events(fn, is_ev(("call", TK + "skipAll", None, [("ref", dl)])))

    put = lambda ev: ev.get("e") == "call" and match(ev["x"], ("call", "SBuf::operator=", ("ref", out), [("call", TK + "consume", None, [None])]))

    def on_event(ev, env, facts):
        if restore(ev):
            env["%dirty"] = 0
        elif mutate(ev):
            env["%dirty"] = 1
        if put(ev):
            env["%trail"] = 0
        elif ev in skips and "%trail" in env:
            env["%trail"] = 1
    fl = ck.flow(fn, on_event=on_event, markers={"put": put, "skipped": lambda ev: ev in skips})
    for s in ck.sites(fl, lambda ev: ev.get("e") == "decl" and ev.get("d") == saved[0], "saved copy", 1) + ck.sites(fl, ret_const(0), "return false", 1):
        if s.env.get("%dirty"):
            ck.violation("K5.token-restore", "K5|token|%s" % ("copy-taken-late" if s.ev["e"] == "decl" else "fails-without-restoring"), s.where(),
                         "token(): at '%s' input has been consumed and not restored: a failed token() would not leave the buffer unchanged" % s.desc()[:40], fl.witness(s))
        else:
            ck.ok("K5.token-restore", s.where(), "token(): '%s' is reached with the buffer as on entry" % s.desc()[:40])
    gate(ck, "K5.token-fail", T, fl, ret_const(0), srch, NPOS_FORM, "=", "return false", why="(a delimited token is present but refused)")
    gate(ck, "K5.token-found", T, fl, lambda ev: ev.get("e") == "call" and E.key(ev["x"]) == E.key(take), srch, NPOS_FORM, "<>", "consume()", why="(without a delimiter the token is incomplete)")
    ck.require_passed("K5.token-result", fl, ret_const(1), "put", "return true")
    for s in fl.find(ret_const(1)):
        if s.env.get("%trail") == 1:
            ck.ok("K5.token-trailing", s.where(), "token(): the delimiters after the token are skipped before `return true`")
        else:
            ck.violation("K5.token-trailing", "K5|token|trailing-delimiters-left", s.where(), "token() can return true without skipAll(%s) after the token: the next call would see a leading delimiter run as part of this token's tail" % dl, fl.witness(s))
    ck.require_passed("K5.token-leading", fl, lambda ev: ev.get("e") == "call" and E.key(ev["x"]) == E.key(srch), "skipped", "findFirstOf()", why="(leading delimiters would yield an empty token)")

