"""C42 IP-address ACL value sets: structural clauses of the merge protocol, the acl_ip_data* range algebra and the lookup comparator.

Decides the gate/role protocol of Merge<acl_ip_data*> (shared with C41), the decision tables of Compare/IsSubset over Ip::Address ordering atoms,
the operand roles of MakeCombinedValue/firstAddress/lastAddress, the decision table of aclIpAddrNetworkCompare, the family shortcuts and the
lookup wiring of ACLIP::match, and that ACLIP::parse/parseGlobal feed every parsed node / family keyword into the state match() reads.
It does NOT decide that these pieces realise set union for all address lists and insertion orders (value reasoning over Ip::Address).
"""
from .. import expr as E
from .C41 import SI, check_merge, is_ref, loop_head, paths, short, sign, table, truth

IA = "Ip::Address::"
REL = {IA + "operator<": "<", IA + "operator>": ">", IA + "operator<=": "<=", IA + "operator>=": ">="}


def run(ck):
    facts = ck.facts(["src/acl/Ip.cc"], whole=False)
    check_merge(ck, facts, "<acl_ip_data *>")

    def inst(name):
        c = [f for f in facts.fns(SI + name) if "<acl_ip_data *>" in f.full]
        ck.need(len(c) == 1 and len(c[0].params) == 2, "C42: SplayInserter<acl_ip_data*>::%s not found" % name)
        return c[0], c[0].params[0]["d"], c[0].params[1]["d"]

    def operand(fn, t, depth=3):
        """canonical name of an address operand: 'a.first' / 'a.last' (range ends of a parameter), 'q.addr1' (field of a parameter), or a local's name"""
        t = E.strip(t)
        if not isinstance(t, dict):
            return None
        if t.get("k") == "call" and t.get("f") in ("acl_ip_data::firstAddress", "acl_ip_data::lastAddress") and E.strip(t.get("o")).get("dk") == "param":
            return "%s.%s" % (E.strip(t["o"])["d"], "first" if t["f"].endswith("firstAddress") else "last")
        if t.get("k") == "mem" and E.strip(t.get("b")).get("k") == "ref" and E.strip(t["b"]).get("dk") in ("param", "static"):
            return "%s.%s" % (E.strip(t["b"])["d"], t["m"].split("::")[-1])
        if t.get("k") == "mem" and E.strip(t.get("b")).get("k") == "this":
            return "this." + t["m"].split("::")[-1]
        if t.get("k") == "ref" and t.get("dk") == "local":
            ds = ck.local_defs(fn).get(t["d"], [])
            o = operand(fn, ds[0], depth - 1) if len(ds) == 1 and depth else None
            return o if o and (o.endswith(".first") or o.endswith(".last")) else t["d"]
        return None

    def rel_leaf(fn, g, extra=lambda t: None):
        """leaf valuation: Ip::Address relational operators evaluated on the representative g[operand] of each recognised operand"""
        def leaf(t):
            t = E.strip(t)
            if isinstance(t, dict) and t.get("k") == "call" and t.get("f") in REL and "o" in t and len(t.get("a", [])) == 1:
                l, r = g.get(operand(fn, t["o"])), g.get(operand(fn, t["a"][0]))
                if l is None or r is None:
                    return None
                return {"<": l < r, ">": l > r, "<=": l <= r, ">=": l >= r}[REL[t["f"]]]
            return extra(t)
        return leaf
    addr_call = lambda ev: ev.get("e") == "call" and (E.strip(ev["x"]).get("f") in REL or E.strip(ev["x"]).get("f") in ("acl_ip_data::firstAddress", "acl_ip_data::lastAddress"))
    TF = [True, False]

    # ---------------------------------------------------------------- Compare / IsSubset / MakeCombinedValue
    ck.rule("I1 SplayInserter<acl_ip_data*>::Compare(a,b) touches a and b only through orderings of their first/last addresses and equals the table "
            "{a.last < b.first: negative; b.last < a.first: positive; else 0} on every ordering of the four range ends")
    fn, A, B = inst("Compare")
    ends = {"%s.%s" % (p, e): range(4) for p in (A, B) for e in ("first", "last")}
    proper = lambda g: g[A + ".first"] > g[A + ".last"] or g[B + ".first"] > g[B + ".last"]      # skip: not a range
    cmp_fn = fn
    table(ck, "I1.compare-table", fn, fn.entry, ends, lambda g: rel_leaf(cmp_fn, g),
          lambda g: "neg" if g[A + ".last"] < g[B + ".first"] else ("pos" if g[B + ".last"] < g[A + ".first"] else "zero"),
          lambda g, end, x: (sign(x) or "?") if end == "ret" else "?", "Compare<acl_ip_data*>", pure=addr_call, skip=proper)

    ck.rule("I2 SplayInserter<acl_ip_data*>::IsSubset(a,b) is true exactly when b.first <= a.first and a.last <= b.last, on every ordering of the four range ends")
    fn, A, B = inst("IsSubset")
    sub_fn = fn
    ends = {"%s.%s" % (p, e): range(4) for p in (A, B) for e in ("first", "last")}
    proper = lambda g: g[A + ".first"] > g[A + ".last"] or g[B + ".first"] > g[B + ".last"]
    table(ck, "I2.subset-table", fn, fn.entry, ends, lambda g: rel_leaf(sub_fn, g), lambda g: g[B + ".first"] <= g[A + ".first"] and g[A + ".last"] <= g[B + ".last"],
          lambda g, end, x: "?" if end != "ret" else (bool(E.const(x)) if E.const(x) is not None else truth(ck, x, rel_leaf(sub_fn, g), "IsSubset<acl_ip_data*>")),
          "IsSubset<acl_ip_data*>", pure=addr_call, skip=proper)

    ck.rule("I3 MakeCombinedValue(a,b) returns new acl_ip_data(std::min(a.first, b.first), std::max(a.last, b.last), Ip::Address::NoAddr(), nullptr); "
            "that constructor stores its arguments in addr1, addr2, mask in this order")
    fn, A, B = inst("MakeCombinedValue")
    rets = [ev for b in fn.blocks.values() for ev in b["ev"] if ev.get("e") == "ret"]
    ck.need(len(rets) == 1 and E.strip(rets[0].get("x")).get("k") == "new" and len(E.strip(rets[0]["x"]).get("a", [])) == 4, "C42: MakeCombinedValue no longer returns new acl_ip_data(4 args)")
    args = E.strip(rets[0]["x"])["a"]
    defs = ck.local_defs(fn)

    def through(t):
        t = E.strip(t)
        while isinstance(t, dict) and t.get("k") == "ref" and t.get("dk") == "local" and len(defs.get(t["d"], [])) == 1:
            t = E.strip(defs[t["d"]][0])
        return t
    for i, (sel, end) in enumerate((("std::min", "first"), ("std::max", "last"))):
        t = through(args[i])
        ck.need(t.get("k") == "call" and t.get("f") in ("std::min", "std::max") and len(t.get("a", [])) == 2, "C42: MakeCombinedValue argument %d is unrecognised: %s" % (i, E.key(t)))
        ops = sorted(str(operand(fn, x)) for x in t["a"])
        if t["f"] == sel and ops == sorted(["%s.%s" % (A, end), "%s.%s" % (B, end)]):
            ck.ok("I3.combined-ends", fn.where(), "MakeCombinedValue: addr%d = %s(%s)" % (i + 1, sel, ", ".join(ops)))
        else:
            ck.violation("I3.combined-ends", "I3|MakeCombinedValue|end-%s" % end, fn.where(rets[0].get("l")), "MakeCombinedValue passes %s(%s) as the %s address of the merged range, "
                         "expected %s(%s.%s, %s.%s): the merged value is not the union of two overlapping ranges" % (t["f"], ", ".join(ops), end, sel, A, end, B, end))
    m = through(args[2])
    if m.get("k") == "call" and m.get("f") == IA + "NoAddr" and E.const(args[3]) == 0:
        ck.ok("I3.combined-ends", fn.where(), "MakeCombinedValue: mask = NoAddr(), next = nullptr")
    else:
        ck.need(m.get("k") == "mem" or E.const(args[3]) != 0, "C42: MakeCombinedValue mask argument is unrecognised: %s" % E.key(m))
        ck.violation("I3.combined-ends", "I3|MakeCombinedValue|mask", fn.where(rets[0].get("l")), "the merged range is built with mask %s / next %s instead of NoAddr() / nullptr: "
                     "firstAddress()/lastAddress() would widen it again" % (E.key(m), E.key(args[3])))
    ctor = [f for f in facts.fns("acl_ip_data::acl_ip_data") if len(f.params) == 4]
    ck.need(len(ctor) == 1, "C42: acl_ip_data 4-argument constructor not found")
    ctor = ctor[0]
    inits = {E.strip(ev["lhs"])["m"].split("::")[-1]: (E.strip(ev.get("rhs")) or {}) for b in ctor.blocks.values() for ev in b["ev"] if ev.get("e") == "asg" and ev.get("op") == "init" and E.strip(ev["lhs"]).get("k") == "mem"}
    for i, field in enumerate(("addr1", "addr2", "mask")):
        ck.need(field in inits and inits[field].get("k") == "ref" and inits[field].get("dk") == "param", "C42: acl_ip_data constructor initialises %s in an unrecognised way" % field)
        if inits[field]["d"] == ctor.params[i]["d"]:
            ck.ok("I3.ctor-order", ctor.where(), "acl_ip_data(a1,a2,m,n): %s = argument %d" % (field, i))
        else:
            ck.violation("I3.ctor-order", "I3|acl_ip_data-ctor|%s" % field, ctor.where(), "the acl_ip_data constructor stores %s in %s, not its argument %d" % (inits[field]["d"], field, i))

    # ---------------------------------------------------------------- firstAddress / lastAddress
    ck.rule("I4 firstAddress() returns a copy of addr1; lastAddress() returns a copy of (addr2.isAnyAddr() ? addr1 : addr2) on which turnMaskedBitsOn(mask) "
            "has been applied whenever mask.isNoAddr() is false")
    for name, want in (("firstAddress", {True: "this.addr1", False: "this.addr1"}), ("lastAddress", {True: "this.addr1", False: "this.addr2"})):
        fn = facts.fn("acl_ip_data::" + name)
        rets = [ev for b in fn.blocks.values() for ev in b["ev"] if ev.get("e") == "ret"]
        ck.need(len(rets) == 1 and E.strip(rets[0].get("x")).get("dk") == "local" and len(ck.local_defs(fn).get(E.strip(rets[0]["x"])["d"], [])) == 1,
                "C42: %s no longer returns one local copy" % name)
        IP = E.strip(rets[0]["x"])["d"]
        init = E.strip(ck.local_defs(fn)[IP][0])
        any2 = lambda t: True if (short(t) == "isAnyAddr" and operand(fn, E.strip(t).get("o")) == "this.addr2") else None
        for single in (True, False):
            t = init
            for _ in range(3):
                if isinstance(t, dict) and t.get("k") == "cond":
                    t = E.strip(t["t"] if truth(ck, t["c"], lambda x: (single if any2(x) else None), name) else t["f"])
            src = operand(fn, t)
            ck.need(src in ("this.addr1", "this.addr2"), "C42: %s starts from unrecognised %s" % (name, E.key(t)))
            if src == want[single]:
                ck.ok("I4.range-end-source", fn.where(), "%s (addr2 %s) starts from %s" % (name, "unset" if single else "set", src))
            else:
                ck.violation("I4.range-end-source", "I4|%s|source|single=%s" % (name, single), fn.where(), "%s() starts from %s when addr2 is %s, expected %s" %
                             (name, src, "unset (single address/network)" if single else "set (range)", want[single][5:]))
        if name == "lastAddress":
            n = 0
            for end, items in paths(ck, fn, fn.entry, None, name):
                if end != "ret":
                    continue
                masked = [i[2] for i in items if i[0] == "atom" and short(i[1]) == "isNoAddr" and operand(fn, E.strip(i[1]).get("o")) == "this.mask"]
                on = [i for i in items if i[0] == "ev" and i[1].get("e") == "call" and short(i[1]["x"]) == "turnMaskedBitsOn" and is_ref(E.strip(i[1]["x"]).get("o"), IP)
                      and operand(fn, E.strip(i[1]["x"])["a"][0]) == "this.mask"]
                other = [i for i in items if i[0] == "ev" and i[1].get("e") == "call" and is_ref(E.strip(i[1]["x"]).get("o"), IP) and short(i[1]["x"]) != "turnMaskedBitsOn"]
                ck.need(not other or not on, "C42: lastAddress modifies its copy in an unrecognised way (%s)" % [E.key(i[1]["x"]) for i in other])
                if masked and masked[-1] is False:
                    n += 1
                    if on:
                        ck.ok("I4.last-covers-network", fn.where(), "lastAddress: mask set -> turnMaskedBitsOn(mask)")
                    else:
                        ck.violation("I4.last-covers-network", "I4|lastAddress|mask-not-applied", fn.where(), "lastAddress() has a path with a mask set on which the host bits are "
                                     "not turned on: a CIDR network would end at its first address")
            ck.need(n >= 1, "C42: lastAddress never tests mask.isNoAddr()")

    # ---------------------------------------------------------------- aclIpAddrNetworkCompare
    ck.rule("I5 aclIpAddrNetworkCompare(p,q): A is a copy of p->addr1 masked with q->mask before any use; decision table {q->addr2.isAnyAddr(): A.matchIPAddr(q->addr1); "
            "else q->addr1 <= A <= q->addr2: 0; else A.matchIPAddr(q->addr1) (or a constant of the side A lies on)} on every ordering of A, q->addr1, q->addr2")
    fn = facts.fn("aclIpAddrNetworkCompare")
    PP, QQ = fn.params[0]["d"], fn.params[1]["d"]
    adecl = [ev for b in fn.blocks.values() for ev in b["ev"] if ev.get("e") == "decl" and ev.get("t", "").startswith("Ip::Address")]
    ck.need(len(adecl) == 1 and operand(fn, adecl[0].get("init")), "C42: aclIpAddrNetworkCompare has no single Ip::Address working copy")
    AA = adecl[0]["d"]
    if operand(fn, adecl[0]["init"]) == PP + ".addr1":
        ck.ok("I5.probe-address", fn.where(), "%s = %s->addr1" % (AA, PP))
    else:
        ck.violation("I5.probe-address", "I5|aclIpAddrNetworkCompare|probe-source", fn.where(adecl[0].get("l")), "the compared address is a copy of %s, not of the probe's addr1 (%s.addr1)"
                     % (operand(fn, adecl[0]["init"]), PP))
    nret = 0
    for end, items in paths(ck, fn, fn.entry, None, "aclIpAddrNetworkCompare"):
        if end != "ret":
            continue
        nret += 1
        uses = [E.strip(i[1]["x"]) for i in items if i[0] == "ev" and i[1].get("e") == "call" and is_ref(E.strip(i[1]["x"]).get("o"), AA)]
        ck.need(uses, "C42: aclIpAddrNetworkCompare path without use of %s" % AA)
        if uses[0].get("f") == IA + "applyMask" and operand(fn, uses[0]["a"][0]) == QQ + ".mask":
            ck.ok("I5.masked-first", fn.where(), "%s.applyMask(%s->mask) precedes the comparisons" % (AA, QQ))
        else:
            ck.violation("I5.masked-first", "I5|aclIpAddrNetworkCompare|mask-not-applied-first", fn.where(), "the probe address is first used by %s "
                         "instead of applyMask(%s->mask): a host inside a configured CIDR network no longer equals the network address" % (E.key(uses[0])[:80], QQ))
    ck.need(nret >= 2, "C42: aclIpAddrNetworkCompare returns vanished")
    S, XA, Q1, Q2 = "single", AA, QQ + ".addr1", QQ + ".addr2"
    cmp_fn = fn

    def cls_cmp(g, end, x):
        if end != "ret":
            return "?"
        if sign(x):
            return sign(x)
        x = E.strip(x)
        ck.need(short(x) == "matchIPAddr" and len(x.get("a", [])) == 1, "C42: aclIpAddrNetworkCompare returns unrecognised %s" % E.key(x))
        return "match(%s,%s)" % (operand(cmp_fn, x["o"]), operand(cmp_fn, x["a"][0]))
    M = "match(%s,%s.addr1)" % (AA, QQ)
    pure = lambda ev: (ev.get("e") == "decl" and ev["d"] == AA) or (ev.get("e") == "call" and (E.strip(ev["x"]).get("f") in REL or short(ev["x"]) in ("applyMask", "isAnyAddr", "matchIPAddr")))
    table(ck, "I5.compare-table", fn, fn.entry, {S: TF, XA: range(5), Q1: [1, 3], Q2: [3]},
          lambda g: rel_leaf(cmp_fn, g, lambda t: g[S] if (short(t) == "isAnyAddr" and operand(cmp_fn, E.strip(t).get("o")) == Q2) else None),
          lambda g: {M} if g[S] else ({"zero"} if g[Q1] <= g[XA] <= g[Q2] else ({M, "neg"} if g[XA] < g[Q1] else {M, "pos"})), cls_cmp, "aclIpAddrNetworkCompare", pure=pure)

    # ---------------------------------------------------------------- ACLIP::match
    ck.rule("I6 ACLIP::match: decision table over (matchAnyIpv4, matchAnyIpv6, clientip.isIPv4(), clientip.isIPv6()) = {v4&v6: true; v4&isIPv4: true; v6&isIPv6: true; else the "
            "tree lookup}; the lookup result is (data->find(&ClientAddress, aclIpAddrNetworkCompare) != nullptr) with ClientAddress.addr1 = clientip assigned before")
    mt = facts.fn("ACLIP::match")
    CLIENT = mt.params[0]["d"]

    def match_leaf(g):
        def leaf(t):
            t = E.strip(t)
            if isinstance(t, dict) and t.get("k") == "mem" and t["m"] in ("ACLIP::matchAnyIpv4", "ACLIP::matchAnyIpv6"):
                return g["v4" if t["m"].endswith("4") else "v6"]
            if short(t) in ("isIPv4", "isIPv6") and is_ref(t.get("o"), CLIENT):
                return g["is4" if short(t) == "isIPv4" else "is6"]
            return None
        return leaf
    lookup_ev = lambda ev: ev.get("e") == "decl" or (ev.get("e") == "call" and (E.strip(ev["x"]).get("k") == "ctor" or short(ev["x"]) in ("isIPv4", "isIPv6", "operator=", "setEmpty", "find")))
    table(ck, "I6.family-table", mt, mt.entry, {"v4": TF, "v6": TF, "is4": TF, "is6": TF}, match_leaf,
          lambda g: "true" if (g["v4"] and g["v6"]) or (g["v4"] and g["is4"]) or (g["v6"] and g["is6"]) else "lookup",
          lambda g, end, x: "?" if end != "ret" else ("lookup" if E.const(x) is None else ("true" if E.const(x) else "false")), "ACLIP::match", pure=lookup_ev,
          skip=lambda g: g["is4"] and g["is6"])
    finds = [(b["id"], i, E.strip(ev["x"])) for b in mt.blocks.values() for i, ev in enumerate(b["ev"]) if ev.get("e") == "call" and short(ev["x"]) == "find"]
    ck.need(len(finds) == 1 and len(finds[0][2].get("a", [])) == 2, "C42: ACLIP::match has no single find(x, cmp)")
    fd = finds[0][2]
    probe = E.strip(fd["a"][0])
    ck.need(probe.get("k") == "un" and probe.get("op") == "&" and E.strip(probe["e"]).get("k") == "ref", "C42: find() probe is unrecognised")
    PROBE = E.strip(probe["e"])["d"]
    cmps = [x["d"] for x in E.walk(fd["a"][1]) if x.get("k") == "ref" and x.get("dk") == "func"]
    ck.need(len(cmps) == 1, "C42: find() comparator is not a function reference")
    tree_member = [x["m"] for x in E.walk(fd.get("o")) if x.get("k") == "mem"]
    ck.need(len(tree_member) == 1, "C42: find() is not applied to a member tree")
    if cmps[0] == "aclIpAddrNetworkCompare":
        ck.ok("I6.lookup", mt.where(), "match: %s->find(&%s, aclIpAddrNetworkCompare)" % (tree_member[0], PROBE))
    else:
        ck.violation("I6.lookup", "I6|match|find-comparator", mt.where(), "ACLIP::match searches with comparator %s, not aclIpAddrNetworkCompare" % cmps[0])
    nlook = 0
    for end, items in paths(ck, mt, mt.entry, None, "ACLIP::match"):
        if end != "ret" or E.const(items[-1][1].get("x")) is not None:
            continue
        nlook += 1
        evs = [E.strip(i[1]["x"]) for i in items if i[0] == "ev" and i[1].get("e") == "call"]
        k = [j for j, x in enumerate(evs) if short(x) == "find"]
        ck.need(k, "C42: ACLIP::match returns a non-constant without a lookup")
        sets = [x for x in evs[:k[0]] if short(x) == "operator=" and operand(mt, x.get("o")) == PROBE + ".addr1"]
        if sets and all(is_ref(x["a"][0], CLIENT) for x in sets):
            ck.ok("I6.probe-is-client", mt.where(), "match: %s.addr1 = %s before find()" % (PROBE, CLIENT))
        else:
            ck.violation("I6.probe-is-client", "I6|match|probe-not-client", mt.where(), "ACLIP::match looks up %s whose addr1 is not (only) assigned from %s before find(): %s"
                         % (PROBE, CLIENT, [E.key(x) for x in sets]))
        t, pol = E.norm(items[-1][1]["x"])
        ds = ck.local_defs(mt).get(E.strip(t).get("d"), []) if E.strip(t).get("k") == "ref" else []
        ck.need(len(ds) == 1 and short(ds[0]) == "find", "C42: ACLIP::match returns unrecognised %s" % E.key(items[-1][1]["x"]))
        if pol:
            ck.ok("I6.result", mt.where(), "match returns (find() result != nullptr)")
        else:
            ck.violation("I6.result", "I6|match|result-polarity", mt.where(), "ACLIP::match returns %s: true when no configured range contains the address" % E.key(items[-1][1]["x"]))
    ck.need(nlook >= 1, "C42: ACLIP::match has no lookup return")

    # ---------------------------------------------------------------- ACLIP::parse / parseGlobal
    ck.rule("I7 ACLIP::parse: every node of the list returned by acl_ip_data::FactoryParse() is passed to Merge(*data, node) and the walk continues with the node's "
            "successor read before the merge; match() searches the same member")
    pr = facts.fn("ACLIP::parse")
    pdefs = ck.local_defs(pr)
    qs = [n for n, ds in pdefs.items() if any(E.strip(d).get("f") == "acl_ip_data::FactoryParse" for d in ds)]
    ck.need(len(qs) == 1, "C42: ACLIP::parse has no local holding FactoryParse()")
    Q = qs[0]
    head = loop_head(ck, pr, lambda b: Q in E.mentions(b["term"].get("c") or {}), "ACLIP::parse")
    lv = E.implied(head["term"]["c"], True)
    ck.need(len(lv) == 1 and is_ref(lv[0][0], Q) and lv[0][1] is True, "C42: the node loop does not run while %s is non-null" % Q)
    nback = 0
    for end, items in paths(ck, pr, head["id"], head["id"], "ACLIP::parse"):
        first = [i for i in items if i[0] == "atom"][:1]
        if end != "back" or not (first and is_ref(first[0][1], Q) and first[0][2] is True):
            continue        # only paths through the loop body (the exit edge re-enters via the outer token loop)
        nback += 1
        evs = [i[1] for i in items if i[0] == "ev"]
        mi = [j for j, ev in enumerate(evs) if ev.get("e") == "call" and E.strip(ev["x"]).get("f") == SI + "Merge"]
        good = [j for j in mi if tree_member[0] in E.mentions(E.strip(evs[j]["x"])["a"][0]) and Q in E.mentions(E.strip(evs[j]["x"])["a"][1])]
        if good:
            ck.ok("I7.every-node-merged", pr.where(), "parse: each node %s is merged into %s" % (Q, tree_member[0]))
        else:
            ck.violation("I7.every-node-merged", "I7|parse|node-not-merged", pr.where(), "ACLIP::parse has a path through the node loop that does not merge the node into %s" % tree_member[0])
            continue
        nxt = {ev["d"] for ev in evs[:good[0]] if ev.get("e") == "decl" and E.strip(ev.get("init") or {}).get("k") == "mem"
               and E.strip(ev["init"])["m"] == "acl_ip_data::next" and is_ref(E.strip(ev["init"]).get("b"), Q)}
        adv = [ev for ev in evs[good[0]:] if ev.get("e") == "asg" and is_ref(ev.get("lhs"), Q)]
        ck.need(adv, "C42: the node loop does not advance %s" % Q)
        if all(E.strip(ev.get("rhs")).get("k") == "ref" and E.strip(ev["rhs"])["d"] in nxt for ev in adv):
            ck.ok("I7.walk-continues", pr.where(), "parse: %s = successor saved before Merge()" % Q)
        else:
            ck.violation("I7.walk-continues", "I7|parse|successor-lost", pr.where(adv[0].get("l")), "after Merge() the walk continues with %s, not with the successor saved before the merge: "
                         "further addresses of a host name are dropped" % E.key(adv[0].get("rhs")))
    ck.need(nback >= 1, "C42: node loop has no body path")

    ck.rule("I8 ACLIP::parseGlobal: token 'all' sets matchAnyIpv4 and matchAnyIpv6, 'ipv4' only matchAnyIpv4, 'ipv6' only matchAnyIpv6, each returning true; `return false` sets neither")
    pg = facts.fn("ACLIP::parseGlobal")
    TOKEN = pg.params[0]["d"]
    WANT = {"all": {"matchAnyIpv4", "matchAnyIpv6"}, "ipv4": {"matchAnyIpv4"}, "ipv6": {"matchAnyIpv6"}}
    seen = set()
    for end, items in paths(ck, pg, pg.entry, None, "ACLIP::parseGlobal"):
        ck.need(end == "ret", "C42: parseGlobal path without return")
        eq = [E.strip(E.strip(i[1])["a"][1]).get("v") for i in items if i[0] == "atom" and short(i[1]) == "strcmp" and i[2] is False and is_ref(E.strip(i[1])["a"][0], TOKEN)]
        sets = {E.strip(i[1]["lhs"])["m"].split("::")[-1] for i in items if i[0] == "ev" and i[1].get("e") == "asg" and E.strip(i[1]["lhs"]).get("k") == "mem" and E.const(i[1].get("rhs")) == 1}
        odd = [i for i in items if i[0] == "ev" and i[1].get("e") == "asg" and not (E.strip(i[1]["lhs"]).get("k") == "mem" and E.const(i[1].get("rhs")) == 1)]
        ck.need(not odd, "C42: parseGlobal has unrecognised assignments")
        ret = E.const(items[-1][1].get("x"))
        ck.need(ret is not None, "C42: parseGlobal returns a non-constant")
        for word in [w for w in eq if w in WANT]:
            seen.add(word)
            if sets == WANT[word] and ret:
                ck.ok("I8.family-keywords", pg.where(), "parseGlobal('%s') sets %s" % (word, sorted(sets)))
            else:
                ck.violation("I8.family-keywords", "I8|parseGlobal|%s" % word, pg.where(items[-1][1].get("l")), "parseGlobal('%s') sets %s and returns %s; expected %s and true"
                             % (word, sorted(sets), bool(ret), sorted(WANT[word])))
        if not ret:
            seen.add("<other>")
            if sets:
                ck.violation("I8.family-keywords", "I8|parseGlobal|unrecognised-token-sets-family", pg.where(items[-1][1].get("l")), "parseGlobal sets %s on a path that returns false" % sorted(sets))
            else:
                ck.ok("I8.family-keywords", pg.where(), "parseGlobal: `return false` leaves the family flags alone")
    ck.need(seen >= {"all", "ipv4", "ipv6", "<other>"}, "C42: parseGlobal keyword paths vanished (%s)" % sorted(seen))

    ck.assume("decides the Merge protocol, the decision tables of Compare/IsSubset/aclIpAddrNetworkCompare/ACLIP::match over their ordering/family atoms and the operand roles of "
              "MakeCombinedValue/firstAddress/lastAddress/parse; it does not decide that the insertion order (Compare) and the lookup order (aclIpAddrNetworkCompare) agree for all "
              "address sets, Ip::Address arithmetic (applyMask, turnMaskedBitsOn, matchIPAddr, operator<), FactoryParse's text decoding, nor the Splay tree")
    ck.assume("firstAddress()'s applyMask(mask) and match()'s ClientAddress.addr2/mask.setEmpty() are not claimed: values are parsed with host bits already masked "
              "and the lookup comparator reads only the probe's addr1")
