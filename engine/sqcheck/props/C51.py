"""C51 Bounded LRU/TTL map: capacity gates, LRU-end discipline and memory accounting of ClpMap (DESIGN.md 5/C51).

ClpMap.h is a header template; in this build its only includer with an object is tests/testClpMap.cc, which is used as the
anchor unit: the rules read the ClpMap<std::string,int> instantiation (resolved calls) of the header's member functions."""
from .. import expr as E
from ..flow import ev_call, ev_return, ev_assign, ev_any, ev_exit

CM = "ClpMap::"
ENTRIES = CM + "entries_"
INDEX = CM + "index_"
USED = CM + "memUsed_"
LIMIT = CM + "memLimit_"
ANCHOR_UNIT = "src/tests/testClpMap.cc"


def on_member(member, methods):
    """event predicate: call of one of the std container `methods` on the data member `member`"""
    def p(ev):
        if ev.get("e") != "call":
            return False
        x = E.strip(ev.get("x"))
        if not isinstance(x, dict) or x.get("f", "").split("::")[-1] not in methods:
            return False
        o = E.strip(x.get("o") or {})
        return isinstance(o, dict) and o.get("k") == "mem" and o.get("m") == member
    return p


def calls_on(tree, member, method):
    """the tree contains a call `member.method()`"""
    return any(on_member(member, {method})({"e": "call", "x": n}) for n in E.walk(tree))


def need_locals(ck, fn, *names):
    have = {p.get("d") for p in fn.params} | {ev.get("d") for b in fn.blocks.values() for ev in b["ev"] if ev.get("e") == "decl"}
    ck.need(set(names) <= have, "C51: %s no longer has local(s) %s (renamed? re-confirm the rule instance)" % (fn.name, sorted(set(names) - have)))


def run(ck):
    facts = ck.facts([ANCHOR_UNIT], whole=False)

    def inst(name, sig=None):
        c = [f for f in facts.fns(CM + name, tmpl=2) if f.file.endswith("base/ClpMap.h") and (sig is None or sig in f.sig)]
        ck.need(len({(f.sig) for f in c}) == 1, "C51: instantiation of ClpMap::%s not found or ambiguous (%d)" % (name, len(c)))
        return c[0]

    # ------------------------------------------------------------------ add
    ck.rule("A1 ClpMap::add: entries_.emplace_front()/index_.emplace() only with memLimit()==0 F, ttl<0 F, memory requirements computed, wantSpace > memLimit() F, "
            "wantSpace == 0 F, after del(key) (no duplicate key) and after trim(wantSpace) (room was made); trim(wantSpace) itself only after del(key) (the value being replaced must not count when deciding what to evict); the new entry goes to the FRONT and is indexed at entries_.begin()")
    add = inst("add", "Ttl")
    need_locals(ck, add, "wantSpace", "ttl", "key", "memoryRequirements")
    ws = E.m_is_ref("wantSpace")
    insert = ev_any(on_member(ENTRIES, {"emplace_front", "push_front", "emplace_back", "push_back", "emplace", "insert"}), on_member(INDEX, {"emplace", "insert", "try_emplace", "insert_or_assign"}))
    fl = ck.flow(add, markers={"deleted": ev_call(CM + "del", arg={0: E.m_is_ref("key")}), "trimmed": ev_call(CM + "trim", arg={0: ws})})
    # (`x == 0` tests are normalised to the truthiness atom `x`; emplace_front forwards ttl by reference, hence history=True for that gate)
    gates = [(E.m_calls(CM + "memLimit"), True, "a zero-capacity map would store entries", False),
             (E.m_cmp("<", E.m_is_ref("ttl"), E.m_const(0)), False, "an already expired entry would be stored", True),
             (E.M(lambda t: "memoryRequirements" in E.mentions(t), "memoryRequirements"), True, "an entry of uncomputable size would be stored", False),
             (E.m_cmp("<", E.m_calls(CM + "memLimit"), ws), False, "an entry larger than the capacity would be stored", False),
             (ws, True, "a size that overflowed to 0 would be stored", False)]
    # `wantSpace = memoryRequirements.value_or(0)` folds "no requirements" into the wantSpace == 0 rejection: then the wantSpace gate covers both
    ws_defs = ck.local_defs(add).get("wantSpace", [])
    folded = len(ws_defs) == 1 and E.strip(ws_defs[0]).get("k") == "call" and E.strip(ws_defs[0]).get("f", "").endswith("::value_or") and \
        "memoryRequirements" in E.mentions(ws_defs[0]) and E.const(E.strip(ws_defs[0])["a"][0]) == 0
    for m, v, why, hist in gates:
        if folded and m.desc == "memoryRequirements":
            ck.ok("A1.insert-gates", add.where(), "add: wantSpace = memoryRequirements.value_or(0): the wantSpace != 0 gate also rejects uncomputable sizes")
            continue
        ck.require_fact("A1.insert-gates", fl, insert, m, v, "emplace_front|index emplace", min_sites=2, why="(%s)" % why, history=hist)
    ck.require_passed("A1.old-value-released-before-trim", fl, ev_call(CM + "trim", arg={0: ws}), "deleted", "trim(wantSpace)",
                      why="(trim() would make room while the value being replaced is still counted: live entries are evicted although the map has room once the old value is gone)")
    ck.require_passed("A1.insert-gates", fl, insert, "deleted", "emplace_front|index emplace", min_sites=2, why="(two entries could carry one key)")
    # add() replaces: whatever it answers, a previous entry under the same key is gone afterwards (the zero-capacity map, which holds nothing, excepted)
    for st in fl.find(ev_return()):
        if st.passed("deleted") or st.has(E.m_calls(CM + "memLimit"), False):
            ck.ok("A1.replace-semantics", st.where(), "add() returns only after del(key) (or from an always-empty map)")
        else:
            ck.violation("A1.replace-semantics", "A1|add|return-before-del", st.where(),
                         "ClpMap::add can return without having removed a previous entry under the same key (e.g. when the new value can never fit): get() keeps "
                         "serving the stale value and the accounting diverges from the specification", fl.witness(st))
    ck.require_passed("A1.insert-gates", fl, insert, "trimmed", "emplace_front|index emplace", min_sites=2, why="(memoryUsed() could exceed the capacity)")
    for s in fl.find(insert):
        x = E.strip(s.ev["x"])
        m = x["f"].split("::")[-1]
        if E.m_is_mem(ENTRIES)(x.get("o")):
            good = m in ("emplace_front", "push_front")
            what = "new entry is placed at the front (most recently used end)"
        else:
            good = len(x.get("a", [])) == 2 and E.m_is_ref("key")(x["a"][0]) and calls_on(x["a"][1], ENTRIES, "begin")
            what = "index maps key to entries_.begin()"
        if good:
            ck.ok("A1.insert-at-front", s.where(), what)
        else:
            ck.violation("A1.insert-at-front", "A1|insert-position|%s" % m, s.where(), "ClpMap::add inserts with %s" % s.desc()[:120])
    defs = ck.local_defs(add).get("wantSpace", [])
    mr = ck.local_defs(add).get("memoryRequirements", [])
    if defs and all("memoryRequirements" in E.mentions(d) for d in defs) and mr and all(E.m_calls(CM + "MemoryCountedFor")(d) and {"key", "v"} <= E.mentions(d) for d in mr):
        ck.ok("A1.size-source", add.where(), "wantSpace = MemoryCountedFor(key, v).value()")
    else:
        ck.violation("A1.size-source", "A1|size-source", add.where(), "wantSpace is no longer MemoryCountedFor(key, v): %s" % [E.key(d) for d in defs + mr])

    ck.rule("A2 accounting: `return true` in add only after memCounted = wantSpace and memUsed_ += wantSpace; erase subtracts exactly the entry's memCounted and removes "
            "the entry from both index_ and entries_; WHO (all ClpMap members): memUsed_ is written only by add (+=) and erase (-=), memLimit_ only by setMemLimit")
    fl = ck.flow(add, markers={"counted": ev_assign(CM + "Entry::memCounted", ws), "used": ev_assign(USED, ws, ops=("+=",))})
    ret_true = ev_return(E.m_const(1))
    ck.require_passed("A2.add-accounts", fl, ret_true, "counted", "return true", why="(the entry's size would not be given back when it is erased)")
    ck.require_passed("A2.add-accounts", fl, ret_true, "used", "return true", why="(memoryUsed() would not include the new entry)")
    er = inst("erase")
    need_locals(ck, er, "entryPosition", "sz", "i")
    fl = ck.flow(er, markers={"unindexed": on_member(INDEX, {"erase"}), "unlisted": on_member(ENTRIES, {"erase"})})
    sub = ck.sites(fl, ev_assign(USED, ops=("-=",)), "memUsed_ -=", 1)
    szd = ck.local_defs(er).get("sz", [])
    epd = ck.local_defs(er).get("entryPosition", [])
    if all(E.m_is_ref("sz")(s.ev.get("rhs")) for s in sub) and szd and all(E.m_is_mem(CM + "Entry::memCounted")(d) and "entryPosition" in E.mentions(d) for d in szd) \
            and epd and all(E.mentions(d) >= {"i"} and E.m_is_mem("std::pair::second")(d) for d in epd):
        ck.ok("A2.erase-accounts", er.where(), "memUsed_ -= i->second->memCounted")
    else:
        ck.violation("A2.erase-accounts", "A2|erase-amount", er.where(), "erase no longer subtracts the erased entry's memCounted")
    ck.require_fact("A2.erase-accounts", fl, ev_assign(USED, ops=("-=",)), E.m_cmp("<", E.m_is_mem(USED), E.m_is_ref("sz")), False, "memUsed_ -= sz", why="(the counter could wrap)")
    for mk in ("unindexed", "unlisted"):
        ck.require_passed("A2.erase-removes-both", fl, ev_exit(), mk, "return", why="(index and list would disagree)")
    n = 0
    for fn in facts.all_fns():
        if not fn.name.startswith(CM) or fn.tmpl != 2:
            continue
        for b in fn.blocks.values():
            for ev in b["ev"]:
                if ev.get("e") != "asg":
                    continue
                l = E.strip(ev.get("lhs"))
                if not (isinstance(l, dict) and l.get("k") == "mem" and l.get("m") in (USED, LIMIT)):
                    continue
                n += 1
                ok = (l["m"] == USED and ((fn.name == CM + "add" and ev.get("op") == "+=") or (fn.name == CM + "erase" and ev.get("op") == "-="))) or \
                     (l["m"] == LIMIT and fn.name == CM + "setMemLimit" and ev.get("op") == "=") or (fn.name == CM + "ClpMap" and ev.get("op") == "init")
                if ok:
                    ck.ok("A2.who-accounts", fn.where(ev.get("l")), "%s %s in %s" % (l["m"], ev.get("op"), fn.name))
                else:
                    ck.violation("A2.who-accounts", "A2|who-writes|%s|%s|%s" % (l["m"], fn.name, ev.get("op")), fn.where(ev.get("l")), "%s writes %s (%s)" % (fn.name, l["m"], ev.get("op")))
    ck.need(n >= 3, "C51: writes of memUsed_/memLimit_ not found")

    # ------------------------------------------------------------------ trim / setMemLimit
    ck.rule("T1 ClpMap::trim: the only removal is del(entries_.rbegin()->key) (least recently used end), reached only with freeMem() < wantSpace T and entries_ non-empty; "
            "the loop exits only with freeMem() < wantSpace F; wantSpace <= memLimit() is asserted first; setMemLimit: memLimit_ = newLimit only with memUsed_ > newLimit F "
            "or after trim(memLimit_ - newLimit)")
    tr = inst("trim")
    need_locals(ck, tr, "wantSpace")
    short = E.m_cmp("<", E.m_calls(CM + "freeMem"), ws)
    fl = ck.flow(tr)
    removal = ev_any(ev_call({CM + "del", CM + "erase"}), on_member(ENTRIES, {"pop_back", "pop_front", "erase", "clear"}), on_member(INDEX, {"erase", "clear"}))
    for s in ck.sites(fl, removal, "removal in trim", 1):
        x = E.strip(s.ev["x"])
        a = x.get("a", [])
        if x.get("f") == CM + "del" and len(a) == 1 and E.m_is_mem(CM + "Entry::key")(a[0]) and (calls_on(a[0], ENTRIES, "rbegin") or calls_on(a[0], ENTRIES, "back")):
            ck.ok("T1.purges-lru-end", s.where(), "trim deletes the key of the last (least recently used) entry")
        else:
            ck.violation("T1.purges-lru-end", "T1|victim", s.where(), "trim removes with '%s' instead of del(entries_.rbegin()->key)" % s.desc()[:100])
    ck.require_fact("T1.purges-only-when-short", fl, removal, short, True, "del(lru)", why="(entries would be purged although there is room)")
    ck.require_fact("T1.purges-only-when-short", fl, removal, E.M(lambda t: calls_on(t, ENTRIES, "empty"), "entries_.empty()"), False, "del(lru)")
    ck.require_fact("T1.makes-room", fl, ev_exit(), short, False, "return", why="(add would insert without enough free space)")
    ck.require_fact("T1.makes-room", fl, ev_exit(), E.m_cmp("<", E.m_calls(CM + "memLimit"), ws), False, "return")
    sm = inst("setMemLimit")
    need_locals(ck, sm, "newLimit")
    smf = ck.flow(sm, markers={"stored": ev_assign(LIMIT, E.m_is_ref("newLimit"))})
    ck.require_passed("T1.limit-always-stored", smf, ev_exit(), "stored", "return", why="(a shrink that purges would keep the old, larger capacity: later adds refill the map past the configured limit)")
    nl = E.m_is_ref("newLimit")
    trim_call = ev_call(CM + "trim", arg={0: E.M(lambda t: E.strip(t).get("k") == "bin" and E.strip(t).get("op") == "-" and E.m_is_mem(LIMIT)(E.strip(t)["l"]) and E.m_is_ref("newLimit")(E.strip(t)["r"]),
                                                 "memLimit_ - newLimit")})
    ck.require_any("T1.shrink-trims", sm, ev_assign(LIMIT, nl), [(E.m_cmp("<", nl, E.m_is_mem(USED)), False), ("P", "trim(memLimit_ - newLimit)", trim_call)], "memLimit_ = newLimit",
                   why="(memoryUsed() could exceed a lowered capacity)")

    # ------------------------------------------------------------------ find / get / del / expiry
    ck.rule("F1 ClpMap::find: an unexpired hit is returned only after it is at the front (already entries_.begin() or spliced there); an expired hit is erased and "
            "index_.end() is returned; get returns &value only with find() != end, del erases only what find() returned; Entry::expired is expires < squid_curtime")
    fd = inst("find")
    need_locals(ck, fd, "i", "entryPosition", "key")
    expired = ck.m_result_of(fd, CM + "Entry::expired")
    is_end = E.M(lambda t: "i" in E.mentions(t) and calls_on(t, INDEX, "end") and not calls_on(t, ENTRIES, "begin"), "i==index_.end()")
    at_front = E.M(lambda t: "entryPosition" in E.mentions(t) and calls_on(t, ENTRIES, "begin"), "entryPosition==entries_.begin()")

    def to_front(ev):
        if not on_member(ENTRIES, {"splice"})(ev):
            return False
        a = E.strip(ev["x"]).get("a", [])
        return len(a) == 3 and calls_on(a[0], ENTRIES, "begin") and E.m_is_mem(ENTRIES)(a[1]) and "entryPosition" in E.mentions(a[2])
    ret_i = ev_return(E.m_is_ref("i"))
    pol = (True, True)      # iterator operator==/!= are normalised to `a == b` atoms
    ck.need(ck.trigger_edges(fd, is_end, True) and ck.trigger_edges(fd, at_front, True), "C51: find no longer compares i with index_.end() / entryPosition with entries_.begin()")
    ck.require_any("F1.hit-moves-to-front", fd, ret_i, [(is_end, pol[0]), (at_front, pol[1]), ("P", "splice(begin)", to_front)], "return i", min_sites=2,
                   why="(a hit would not become most recently used, so a recently used entry could be purged first)")
    ck.require_any("F1.hit-unexpired", fd, ret_i, [(is_end, pol[0]), (expired, False)], "return i", min_sites=2, why="(an expired entry would be returned)")
    ck.require_response("F1.expired-erased", fd, expired, True, ev_call(CM + "erase", arg={0: E.m_is_ref("i")}), "erase(i)", why="(an expired entry would stay counted)")
    idef = ck.local_defs(fd).get("i", [])
    if idef and all(on_member(INDEX, {"find"})({"e": "call", "x": d}) and E.m_is_ref("key")(E.strip(d)["a"][0]) for d in idef):
        ck.ok("F1.lookup", fd.where(), "i = index_.find(key)")
    else:
        ck.violation("F1.lookup", "F1|lookup", fd.where(), "find no longer looks key up in index_: %s" % [E.key(d) for d in idef])
    for name, act in (("get", lambda ev: ev.get("e") == "ret" and E.strip(ev.get("x") or {}).get("k") != "null"), ("del", ev_call(CM + "erase"))):
        fn = inst(name)
        found = E.M(lambda t: "i" in E.mentions(t) and calls_on(t, INDEX, "end"), "i==index_.end()")
        ck.require_fact("F1.only-found", ck.flow(fn), act, found, False, name + ": use of i", why="(end() would be dereferenced / a miss would return a value)")
        d = ck.local_defs(fn).get("i", [])
        ck.need(d and all(E.m_calls(CM + "find")(x) for x in d), "C51: %s no longer takes i from find(key)" % name)
    ex = inst("Entry::expired")
    for s in ck.sites(ck.flow(ex), ev_return(), "return", 1):
        x = E.strip(s.ev.get("x"))
        exp, now = E.m_is_mem(CM + "Entry::expires"), E.m_is_ref("squid_curtime")
        if x.get("k") == "bin" and ((x.get("op") == "<" and exp(x["l"]) and now(x["r"])) or (x.get("op") == ">" and now(x["l"]) and exp(x["r"]))):
            ck.ok("F1.expiry-strict", s.where(), "expired() is expires < squid_curtime")
        else:
            ck.violation("F1.expiry-strict", "F1|expired", s.where(), "Entry::expired() is %s (a ttl-0 entry must stay valid for the current second, an entry past its time must not)" % E.key(x))
    ck.assume("agreement with a reference LRU/TTL model over operation histories is not decided; MemoryCountedFor()/NaturalSum arithmetic (C52) and the std containers "
              "are trusted; only the instantiation reached from tests/testClpMap.cc is read (the header has no other includer in this build)")
