"""C28 Range canonicalisation: overflow clause and rejection gates of HttpHdrRangeSpec::parseInit (DESIGN.md 5/C28)."""
from .. import expr as E
from ..flow import ev_call, ev_return, ev_assign

I64MAX = (1 << 63) - 1


def parsed_targets(fn):
    """locals/fields that receive a value through the out-parameter of httpHeaderParseOffset in fn"""
    out = set()
    for b in fn.blocks.values():
        for ev in b["ev"]:
            if ev.get("e") == "call":
                x = E.strip(ev["x"])
                if x.get("f") == "httpHeaderParseOffset" and len(x.get("a", [])) >= 2:
                    a = E.strip(x["a"][1])
                    if a.get("k") == "un" and a.get("op") == "&":
                        out.add(E.root_decl(a["e"])[1])
    return out


def upper_bounded(site, name):
    tr = site.flow.trees
    for f in site.facts:
        if f[0] != "A":
            continue
        t = E.strip(tr[f[1]])
        if not isinstance(t, dict) or t.get("k") != "bin":
            continue
        l, r = E.strip(t.get("l")), E.strip(t.get("r"))
        ln = E.root_decl(l)[1] if isinstance(l, dict) and l.get("k") in ("ref", "mem") else None
        rn = E.root_decl(r)[1] if isinstance(r, dict) and r.get("k") in ("ref", "mem") else None
        if t["op"] == "==" and ln == name and E.const(r) == I64MAX and f[2] is False:
            return "%s != INT64_MAX" % name
        if t["op"] == "<" and ln == name and E.const(r) is not None and f[2] is True:
            return "%s < %s" % (name, E.const(r))
        if t["op"] == "<" and rn == name and E.const(l) is not None and E.const(l) < I64MAX and f[2] is False:
            return "%s <= %s" % (name, E.const(l))
    return None


def run(ck):
    facts = ck.facts(["src/HttpHdrRange.cc"])
    fn = facts.fn("HttpHdrRangeSpec::parseInit")
    fl = ck.flow(fn)
    targets = parsed_targets(fn)
    ck.need({"last_pos", "HttpHdrRangeSpec::offset", "HttpHdrRangeSpec::length"} <= targets, "C28: parseInit no longer parses offset/length/last_pos via httpHeaderParseOffset (found %s)" % sorted(targets))

    ck.rule("R1 ARITH(HttpHdrRangeSpec::parseInit): every signed 64-bit `V + K` (K > 0) whose V was produced by httpHeaderParseOffset "
            "is dominated by a comparison bounding V below INT64_MAX")
    n = 0
    for s in fl.sites:
        for t in (s.ev.get("x"), s.ev.get("rhs"), s.ev.get("init")):
            if t is None:
                continue
            # only look at the top-level expression of the event once (nested calls repeat their arguments as own events)
            for node in E.walk(t):
                if node.get("k") == "bin" and node.get("op") == "+" and node.get("iw") == -64:
                    l = E.strip(node.get("l"))
                    k = E.const(node.get("r"))
                    v = E.root_decl(l)[1] if isinstance(l, dict) and l.get("k") in ("ref", "mem") else None
                    if v in targets and k is not None and k > 0 and s.ev.get("e") in ("call", "decl", "asg"):
                        n += 1
                        why = upper_bounded(s, v)
                        if why:
                            ck.ok("R1.no-overflow", s.where(), "%s + %d is bounded: %s" % (v, k, why))
                        else:
                            ck.violation("R1.no-overflow", "R1|parseInit|%s+%d|unbounded" % (v.split("::")[-1], k), s.where(),
                                         "`%s + %d` is evaluated with %s straight from httpHeaderParseOffset (which accepts 9223372036854775807) and no dominating upper bound: "
                                         "signed overflow for e.g. 'bytes=0-9223372036854775807' (facts: %s)" % (v, k, v, s.fact_keys()))
    ck.need(n >= 1, "C28: no `parsed + constant` site found in parseInit (rewritten?)")

    ck.rule("R2 parseInit returns true only if every httpHeaderParseOffset() call on the path succeeded with a known (>= 0) value and last-byte-pos >= first-byte-pos")
    rt = ev_return(E.m_const(1))
    ck.require_fact("R2.gates", fl, rt, E.m_cmp("<", E.m_is_ref("flen"), E.m_const(2)), False, "return true")
    # last_pos < offset must be rejected wherever last_pos was parsed
    mk = ck.sites(fl, lambda ev: ev.get("e") == "decl" and ev.get("d") == "aSpec", "aSpec construction", 1)
    for s in mk:
        for m, v, txt in [(E.m_cmp("<", E.m_is_ref("last_pos"), E.m_is_mem("offset")), False, "last_pos >= offset"),
                          (E.m_calls("httpHeaderParseOffset") & E.m_mentions("last_pos"), True, "last_pos parsed"),
                          (E.m_cmp("<", E.m_const(-1), E.m_is_ref("last_pos")), True, "last_pos >= 0"),
                          (E.m_calls("httpHeaderParseOffset") & E.m_mentions("HttpHdrRangeSpec::offset"), True, "offset parsed"),
                          (E.m_cmp("<", E.m_const(-1), E.m_is_mem("offset")), True, "offset >= 0")]:
            if s.has(m, v):
                ck.ok("R2.gates", s.where(), "range construction requires %s" % txt)
            else:
                ck.violation("R2.gates", "R2|parseInit|range-needs|%s" % txt.replace(" ", "_"), s.where(), "the [offset, last_pos] range is built without '%s' established (facts: %s)" % (txt, s.fact_keys()))
    ck.rule("R2b parseInit: the list item is not NUL-terminated at flen (the rest of the header value follows it), so the '-' located by strchr(field, '-') counts only if it "
            "lies inside this item: the dash pointer is advanced / read past only with `dash - field < flen` established true (otherwise a dash-less item such as "
            "\"55\" in \"bytes=55, 7-8\" borrows the dash of a later item and is accepted as \"55-\")")
    fld, flen = fn.params[0]["d"], fn.params[1]["d"]
    dash_defs = [n for n, ds in ck.local_defs(fn).items() if any(E.m_calls("strchr")(d) and E.m_is_ref(fld)(E.strip(d)["a"][0]) and E.const(E.strip(d)["a"][1]) == 45 for d in ds)]
    ck.need(len(dash_defs) == 1, "C28: parseInit has no local holding strchr(field, '-')")
    DASH = dash_defs[0]
    inside = E.m_cmp("<", E.M(lambda t: E.strip(t).get("k") == "bin" and E.strip(t).get("op") == "-" and E.m_is_ref(DASH)(E.strip(t)["l"]) and E.m_is_ref(fld)(E.strip(t)["r"]),
                              "(%s - %s)" % (DASH, fld)), E.m_is_ref(flen))
    ck.require_fact("R2b.dash-inside-item", ck.flow(fn, track_history=False), lambda ev: ev.get("e") == "asg" and E.m_is_ref(DASH)(ev.get("lhs")) and ev.get("op") in ("++", "+="),
                    inside, True, "++%s" % DASH, why="(a '-' belonging to a later list item would be used)")

    # suffix branch
    resp_edges = ck.trigger_edges(fn, E.m_calls("httpHeaderParseOffset"), False)
    ck.need(len(resp_edges) >= 3, "C28: expected 3 failing-parse edges, found %d" % len(resp_edges))
    ck.require_response("R2.parse-failure-rejects", fn, E.m_calls("httpHeaderParseOffset"), False, ev_return(E.m_const(0)), "return false")
    ck.require_response("R2.unknown-rejects", fn, E.m_cmp("<", E.m_const(-1), E.m_any()), False, ev_return(E.m_const(0)), "return false", min_edges=3)
    ck.rule("R3 HttpHdrRangeSpec::canonize: every return is reached only after `length` was clipped to the representation, i.e. assigned the size() of "
            "object.intersection(HttpRange(offset, ...)) with object = HttpRange(0, clen), and after the last assignment to `offset` (a suffix range longer than "
            "the object, bytes=-101 of 100, must not keep its unclipped length: 206 would announce bytes 0-100/100)")
    cz = facts.fn("HttpHdrRangeSpec::canonize")
    pclen = cz.params[0]["d"] if cz.params else "?"
    objs = [ev["d"] for b in cz.blocks.values() for ev in b["ev"] if ev.get("e") == "decl" and E.strip(ev.get("init") or {}).get("k") == "ctor"
            and len(E.strip(ev["init"]).get("a", [])) == 2 and E.const(E.strip(ev["init"])["a"][0]) == 0 and E.m_is_ref(pclen)(E.strip(ev["init"])["a"][1])]
    ck.need(len(objs) == 1, "C28: canonize no longer builds the object range HttpRange(0, clen)")
    OFF, LEN = "HttpHdrRangeSpec::offset", "HttpHdrRangeSpec::length"

    def clipped_from(t):
        """t is object.intersection(Range{offset, _})"""
        t = E.strip(t)
        if t.get("k") != "call" or t.get("f", "").split("::")[-1] != "intersection" or not E.m_is_ref(objs[0])(t.get("o")):
            return False
        a = E.strip(t["a"][0])
        return a.get("k") == "ctor" and len(a.get("a", [])) == 2 and E.m_is_mem(OFF)(a["a"][0])

    clip_events = set()
    for b in cz.blocks.values():
        inits = {}
        for ev in b["ev"]:
            if ev.get("e") == "decl" and ev.get("init") is not None:
                inits[ev["d"]] = ev["init"]
            if ev.get("e") == "asg" and E.m_is_mem(LEN)(ev.get("lhs")):
                r = E.strip(ev.get("rhs"))
                if r.get("k") == "call" and r.get("f", "").split("::")[-1] == "size":
                    o = E.strip(r.get("o"))
                    src = inits.get(o.get("d")) if o.get("k") == "ref" else o
                    if src is not None and clipped_from(src):
                        clip_events.add(id(ev))
    ck.need(clip_events, "C28: canonize no longer assigns length from object.intersection(HttpRange(offset, ...)).size()")

    def forget_on_offset_write(ev, env, fs):
        if ev.get("e") == "asg" and E.m_is_mem(OFF)(ev.get("lhs")):
            env.pop("#clip", None)
    czf = ck.flow(cz, markers={"clip": lambda ev: id(ev) in clip_events}, track_markers=["clip"], on_event=forget_on_offset_write)
    for st in ck.sites(czf, ev_return(), "return", 1):
        if st.env.get("#clip") == 1:
            ck.ok("R3.canonical-range-inside-object", st.where(), "canonize returns only after length was clipped to [0, clen) for the final offset")
        else:
            ck.violation("R3.canonical-range-inside-object", "R3|canonize|return-without-clip", st.where(),
                         "canonize can return on a path where `length` was not clipped to the representation after `offset` got its final value: the canonical range "
                         "may extend beyond the object (Content-Range/Content-Length of the 206 exceed the body)", czf.witness(st))
    ck.assume("canonize()/merge arithmetic operates on values already bounded by parseInit and the content length; that dependency is not proved here")

    ck.rule("R4 HttpHdrRange::getCanonizedSpecs: a spec is kept (copy.push_back) only with its canonize(clen) established true (non-empty and inside the representation), "
            "and RESPONSE(canonize false -> the spec is deleted, never kept); HttpHdrRange::canonize(newClen) sets clen from its argument before canonizing the specs, "
            "passes the kept specs to merge() and reports validity as specs.size() > 0")
    gcs = facts.fn("HttpHdrRange::getCanonizedSpecs")
    canon = E.M(lambda t: E.strip(t).get("k") == "call" and E.strip(t).get("f") == "HttpHdrRangeSpec::canonize", "(*pos)->canonize(clen)")
    push = ev_call("std::vector::push_back")
    gfl = ck.flow(gcs)
    ck.require_fact("R4.keep-only-canonical", gfl, push, canon, True, "copy.push_back(*pos)", why="(an empty or out-of-range spec would stay in the canonical set)")
    for st in ck.sites(gfl, lambda ev: ev.get("e") == "call" and E.strip(ev["x"]).get("f") == "HttpHdrRangeSpec::canonize", "canonize()", 1):
        a = E.strip(st.ev["x"]).get("a", [])
        if len(a) == 1 and E.m_is_mem("HttpHdrRange::clen")(a[0]):
            ck.ok("R4.keep-only-canonical", st.where(), "each spec is canonized against this range set's clen")
        else:
            ck.violation("R4.keep-only-canonical", "R4|getCanonizedSpecs|canonize-arg", st.where(), "specs are canonized against %s instead of clen" % [E.key(x) for x in a])
    hc = [f for f in facts.fns("HttpHdrRange::canonize") if "int64_t" in f.sig or "long" in f.sig]
    ck.need(len(hc) == 1, "C28: HttpHdrRange::canonize(int64_t) not found")
    hc = hc[0]
    hfl2 = ck.flow(hc, markers={"clen": ev_assign("HttpHdrRange::clen", E.m_is_ref(hc.params[0]["d"])), "specs": ev_call("HttpHdrRange::getCanonizedSpecs"), "merge": ev_call("HttpHdrRange::merge")})
    ck.require_passed("R4.set-canonize-order", hfl2, ev_call("HttpHdrRange::getCanonizedSpecs"), "clen", "getCanonizedSpecs()", why="(specs would be clipped to a stale representation length)")
    ck.require_passed("R4.set-canonize-order", hfl2, ev_call("HttpHdrRange::merge"), "specs", "merge()")
    ck.require_passed("R4.set-canonize-order", hfl2, ev_return(), "merge", "return")

    ck.rule("R5 HttpHdrRange::merge: every spec of the canonized basis is appended to specs (specs.push_back(*i) followed by ++i) unless it merged with the previous "
            "one (mergeWith() true: the previous is deleted and popped, then the same spec is retried); the iterator advances only after the append, so no satisfiable "
            "spec is dropped and none is duplicated")
    mg = facts.fn("HttpHdrRange::merge")
    adv = lambda ev: ev.get("e") == "call" and E.strip(ev["x"]).get("f", "").endswith("::operator++")

    def reset(ev, env, fs):
        if adv(ev):
            env.pop("#appended", None)      # the next basis spec has not been appended yet
    mfl = ck.flow(mg, markers={"appended": push}, track_markers=["appended"], on_event=reset)
    for st in ck.sites(mfl, adv, "++i", 1):
        if st.env.get("#appended") == 1:
            ck.ok("R5.no-spec-dropped", st.where(), "merge advances past a basis spec only after appending it")
        else:
            ck.violation("R5.no-spec-dropped", "R5|merge|advance-without-append", st.where(), "merge can advance past a canonized spec without appending it to specs", mfl.witness(st))
    ck.require_fact("R5.pop-only-after-merge", ck.flow(mg), ev_call("std::vector::pop_back"), E.M(lambda t: E.strip(t).get("k") == "call" and E.strip(t).get("f") == "HttpHdrRangeSpec::mergeWith", "mergeWith()"), True,
                    "specs.pop_back()", why="(a kept spec would be discarded without having been merged into its successor)")
