"""C18 Collapsed forwarding: initiator/join gates (one fetch is shared) and the outcome table of a collapsed reader's synchronisation (synced, aborted or still waiting for a live writer)."""
from .. import expr as E
from ..flow import ev_call, ev_return, ev_assign, ev_any, ev_exit
from .C21 import bool_locals, funnel

CRC = "clientReplyContext::"
CTL = "Store::Controller::"
SE = "StoreEntry::"
SC = "StoreClient::"
CF = "CollapsedForwarding::"
REQ = SE + "setCollapsingRequirement"


def ret_false(ev):
    return ev.get("e") == "ret" and ev.get("x") is not None and E.const(ev.get("x")) == 0


def m_enum_eq(lhs, enumerator):
    return E.m_cmp("==", lhs, E.M(lambda t: enumerator in E.mentions(t), enumerator))


def need_locals(ck, fn, *names):
    have = {p.get("d") for p in fn.params} | {ev.get("d") for b in fn.blocks.values() for ev in b["ev"] if ev.get("e") == "decl"}
    ck.need(set(names) <= have, "C18: %s no longer has local(s) %s (renamed? re-confirm the rule instance)" % (fn.name, sorted(set(names) - have)))


def unit_propagation(atoms, defs):
    """local helper (Flow on_edge hook, after props/C21): clang gives the last operand of `A && B && C` the whole condition as terminator, so its
    false edge implies nothing; with the earlier operands known, 3-valued evaluation of the condition (looking through single-definition bool locals)
    establishes the remaining atom and prunes infeasible edges"""
    def on_edge(b, lab, imp, env, facts):
        cond, val = b["term"]["c"], lab == "T"

        def leaf(force=None):
            def ev(t):
                for n, m in atoms.items():
                    if m(t):
                        return force[1] if force and force[0] == n else env.get("@" + n)
                st = E.strip(t)
                if isinstance(st, dict) and st.get("k") == "ref" and st.get("dk") == "local" and len(defs.get(st["d"], [])) == 1:
                    return E.eval3(defs[st["d"]][0], ev)
                return None
            return ev
        r = E.eval3(cond, leaf())
        if r is not None and r != val:
            return False
        for n in atoms:
            for guess in (True, False):
                if E.eval3(cond, leaf((n, guess))) == (not val):
                    env["@" + n] = not guess
        return True
    return on_edge


def run(ck):
    facts = ck.facts(["src/client_side_reply.cc", "src/store_client.cc", "src/store/Controller.cc", "src/Transients.cc", "src/CollapsedForwarding.cc"], whole=False)
    need_on = ev_call(REQ, arg={0: E.m_const(1)})
    need_off = ev_call(REQ, arg={0: E.m_const(0)})

    # ------------------------------------------------------------------ I: the first request makes its entry joinable before it fetches
    ck.rule("I1 clientReplyContext::createStoreEntry: storeClientListAdd() is reached without Store::Root().allowCollapsing() only under reqFlags.cachable F, reqFlags.needValidation T, "
            "a method other than GET/HEAD or mayInitiateCollapsing() F; processMiss creates the entry before FwdState::Start")
    cse = facts.fn(CRC + "createStoreEntry")
    need_locals(ck, cse, "m", "reqFlags")
    atoms = {"cachable": E.m_is_mem("RequestFlags::cachable"), "reval": E.m_is_mem("RequestFlags::needValidation"), "get": m_enum_eq(E.m_is_ref("m"), "Http::METHOD_GET"),
             "head": m_enum_eq(E.m_is_ref("m"), "Http::METHOD_HEAD"), "may": E.m_calls(SC + "mayInitiateCollapsing")}
    leaf_of = lambda env: (lambda t: next((env.get("@" + n) for n, m in atoms.items() if m(t)), None))
    kw = {"tracked": bool_locals(cse), "classify": funnel(leaf_of)} if bool_locals(cse) else {}     # `const bool ok = A && B; if (ok && C)` is followed through
    fl = ck.flow(cse, track_atoms=atoms, markers={"offered": ev_call(CTL + "allowCollapsing")}, track_markers=["offered"], on_edge=unit_propagation(atoms, ck.local_defs(cse)), **kw)
    for s in ck.sites(fl, ev_call("storeClientListAdd"), "storeClientListAdd()", 1):
        v = {n: s.tracked(n) for n in atoms}
        if s.env.get("#offered") == 1 or v["cachable"] is False or v["reval"] is True or v["may"] is False or (v["get"] is False and v["head"] is False):
            ck.ok("I1.miss-entry-made-joinable", s.where(), "the new entry is offered for collapsing unless !cachable, needValidation, not GET/HEAD or !mayInitiateCollapsing()")
        else:
            ck.violation("I1.miss-entry-made-joinable", "I1|createStoreEntry|not-offered", s.where(), "createStoreEntry: a cachable GET/HEAD miss that may initiate collapsing is not passed to "
                         "allowCollapsing() on some path (%s): it stays private until its headers arrive, so concurrent requests each go to the origin" % v, fl.witness(s))
    pm = facts.fn(CRC + "processMiss")
    ck.require_passed("I1.joinable-before-fetch", ck.flow(pm, markers={"created": ev_call(CRC + "createStoreEntry")}), ev_call("FwdState::Start"), "created", "FwdState::Start()")

    ck.rule("I2 Store::Controller::allowCollapsing: setCollapsingRequirement(true) precedes makePublic() (the flag is copied into the shared Transients entry); `return true` only with "
            "makePublic() T; RESPONSE(makePublic() F -> setCollapsingRequirement(false))")
    ac = facts.fn(CTL + "allowCollapsing")
    pub = ck.m_result_of(ac, SE + "makePublic")
    fl = ck.flow(ac, markers={"flagged": need_on})
    ck.require_passed("I2.flag-before-public", fl, ev_call(SE + "makePublic"), "flagged", "makePublic()",
                      why="(other workers would find a public in-progress entry without ENTRY_REQUIRES_COLLAPSING and refuse to join it)")
    ck.require_fact("I2.true-means-public", fl, ev_return(E.m_const(1)), pub, True, "return true")
    ck.require_response("I2.private-not-collapsible", ac, pub, False, need_off, "setCollapsingRequirement(false)")

    # ------------------------------------------------------------------ J: a later request joins instead of fetching
    ck.rule("J1 clientReplyContext::identifyFoundObject: once `hittingRequiresCollapsing() && !startCollapsingOn()` is false, every path reaches doGetMoreData() with the found entry kept "
            "(no forgetHit()); StoreClient::startCollapsingOn returns false only under hittingRequiresCollapsing() F or onCollapsingPath() F; onCollapsingPath returns constant false only "
            "under Config.onoff.collapsed_forwarding F")
    ifo = facts.fn(CRC + "identifyFoundObject")
    joined = ck.trigger_edges(ifo, E.m_calls(SC + "startCollapsingOn"), True, term_kinds=("IfStmt",)) + \
        ck.trigger_edges(ifo, E.m_calls(SE + "hittingRequiresCollapsing"), False)
    ck.need(len(joined) == 2, "C18: identifyFoundObject no longer has the one `hittingRequiresCollapsing() && !startCollapsingOn()` test (%d edges)" % len(joined))
    for (bid, lab, to) in joined:
        jf = ck.flow(ifo, start=to, markers={"forgot": ev_call(CRC + "forgetHit"), "served": ev_call(CRC + "doGetMoreData")}, track_markers=["forgot"])
        exits = jf.find(ev_exit())
        ck.need(exits, "C18: no exit after the collapsing test of identifyFoundObject")
        bad = [x for x in exits if not x.passed("served")] + [x for x in jf.find(ev_call(CRC + "doGetMoreData")) if x.env.get("#forgot") == 1]
        where = ifo.where(ifo.blocks[bid]["term"].get("l"))
        if not bad:
            ck.ok("J1.joiner-keeps-entry", where, "after the collapsing test (B%d-%s) the entry is served as found" % (bid, lab))
        for x in bad:
            ck.violation("J1.joiner-keeps-entry", "J1|identifyFoundObject|after-collapsing-test|%s" % lab, x.where(),
                         "identifyFoundObject: a request allowed to collapse (test at %s) does not reach doGetMoreData() with the found entry kept (it would start its own fetch)" % where, jf.witness(x))
    sco = facts.fn(SC + "startCollapsingOn")
    ck.require_any("J1.refusal-reasons", sco, ret_false, [(ck.m_result_of(sco, SE + "hittingRequiresCollapsing"), False), (ck.m_result_of(sco, SC + "onCollapsingPath"), False)], "return false",
                   why="(a request would refuse to join an in-progress fetch although collapsed_forwarding allows it)")
    ck.sites(ck.flow(sco), ev_return(E.m_const(1)), "return true", 1)
    ocp = facts.fn(SC + "onCollapsingPath")
    ck.require_fact("J1.refusal-reasons", ck.flow(ocp), ret_false, E.m_is_mem("collapsed_forwarding"), False, "return false")

    ck.rule("J2 clientReplyContext::processExpired (collapsed revalidation): FwdState::Start() only with collapsedRevalidation == crSlave F; "
            "RESPONSE(startCollapsingOn(*e, true) T -> entry = e) and RESPONSE(entry -> collapsedRevalidation = crSlave) before any FwdState::Start()")
    pe = facts.fn(CRC + "processExpired")
    slave = m_enum_eq(E.m_is_mem(CRC + "collapsedRevalidation"), CRC + "crSlave")
    start = ev_call("FwdState::Start")
    ck.require_fact("J2.slave-does-not-fetch", ck.flow(pe), start, slave, False, "FwdState::Start()", why="(a request that joined a revalidation in progress would send a second one)")
    need_locals(ck, pe, "entry")
    ck.require_response("J2.joiner-is-slave", pe, E.m_calls(SC + "startCollapsingOn"), True, ev_assign("entry", E.M(lambda t: E.strip(t).get("k") == "ref", "the found entry")), "entry = e")
    ck.require_response("J2.joiner-is-slave", pe, E.m_is_ref("entry"), True,
                        ev_assign(CRC + "collapsedRevalidation", E.M(lambda t: CRC + "crSlave" in E.mentions(t), "crSlave")), "collapsedRevalidation = crSlave", until=start, term_kinds=("IfStmt",))

    # ------------------------------------------------------------------ S: what a collapsed reader is told
    ck.rule("S1 Store::Controller::syncCollapsed: setCollapsingRequirement(false)/invokeHandlers() only with inSync T; the reader keeps waiting (setCollapsingRequirement(true)) only with "
            "waitingToBeFreed F, found F and entryStatus.hasWriter T; every return has passed abort(), invokeHandlers(), setCollapsingRequirement(true) or handleIdleEntry(), or the entry "
            "is gone, already ENTRY_ABORTED or ours as the writer")
    syn = facts.fn(CTL + "syncCollapsed")
    need_locals(ck, syn, "found", "inSync", "entryStatus", "collapsed")
    found, insync = E.m_is_ref("found"), E.m_is_ref("inSync")
    marked, writer = E.m_is_mem("Transients::EntryStatus::waitingToBeFreed"), E.m_is_mem("Transients::EntryStatus::hasWriter")
    fl = ck.flow(syn, track_atoms={"found": found, "marked": marked, "writer": writer})
    ck.require_fact("S1.released-only-in-sync", fl, ev_any(need_off, ev_call(SE + "invokeHandlers")), insync, True, "setCollapsingRequirement(false)|invokeHandlers()", min_sites=2,
                    why="(a reader would stop waiting for / be handed an entry that could not be synchronised with the writer's data)")
    for s in ck.sites(fl, need_on, "setCollapsingRequirement(true)", 1):
        got = (s.tracked("marked"), s.tracked("found"), s.tracked("writer"))
        if got == (False, False, True):
            ck.ok("S1.waits-only-for-live-writer", s.where(), "still waiting only with waitingToBeFreed F, found F, hasWriter T")
        else:
            ck.violation("S1.waits-only-for-live-writer", "S1|syncCollapsed|waiting|%s" % ",".join("%s=%s" % (n, "?" if v is None else ("T" if v else "F")) for n, v in zip(("marked", "found", "writer"), got)),
                         s.where(), "syncCollapsed leaves a collapsed reader waiting although the entry was marked for deletion / was found unsyncable / has no writer "
                         "(marked, found, writer = %s): nobody will ever wake it" % (got,), fl.witness(s))
    ck.require_any("S1.outcome-table", syn, ev_exit(), [("P", "abort()", ev_call(SE + "abort")), ("P", "invokeHandlers()", ev_call(SE + "invokeHandlers")), ("P", "still-waiting", need_on),
                                                        ("P", "handleIdleEntry()", ev_call(CTL + "handleIdleEntry")), (E.m_is_ref("collapsed"), False),
                                                        (E.M(lambda t: {SE + "flags", "ENTRY_ABORTED"} <= E.mentions(t), "ENTRY_ABORTED"), True), (E.m_calls("Transients::isWriter"), True)],
                   "return", min_sites=3, why="(a collapsed reader would be neither synced, aborted nor left waiting for a live writer)")

    ck.rule("S2 Store::Controller::anchorToCache: setCollapsingRequirement(false) only with found T; setCollapsingRequirement(true) only with waitingToBeFreed F and hasWriter T (the other cases throw); "
            "`return true` only with found T or an entry already attached (memCache.io == ioDone, hasMemStore(), hasDisk())")
    atc = facts.fn(CTL + "anchorToCache")
    need_locals(ck, atc, "found", "entryStatus")
    fl = ck.flow(atc)
    ck.require_fact("S2.attached-means-found", fl, need_off, found, True, "setCollapsingRequirement(false)")
    ck.require_fact("S2.waits-only-for-live-writer", fl, need_on, marked, False, "setCollapsingRequirement(true)", why="(the reader would wait for an entry that is being deleted)")
    ck.require_fact("S2.waits-only-for-live-writer", fl, need_on, writer, True, "setCollapsingRequirement(true)", why="(the reader would wait for a writer that is gone)")
    ck.require_any("S2.attached-means-found", atc, ev_return(E.m_const(1)), [(found, True), (m_enum_eq(E.m_is_mem("MemObject::MemCache::io"), "Store::ioDone"), True),
                                                                              (E.m_calls(SE + "hasMemStore"), True), (E.m_calls(SE + "hasDisk"), True)], "return true", min_sites=2)

    # ------------------------------------------------------------------ N: readers in other workers are told
    ck.rule("N1 Transients::completeWriting passes switchWritingToReading() then CollapsedForwarding::Broadcast(); Transients::disconnect RESPONSE(isWriter() T -> closeForWriting(), Broadcast()); "
            "CollapsedForwarding::Broadcast(index): RESPONSE(queue->push() T -> Notify(workerId)); HandleNewData: RESPONSE(queue->pop() T -> syncCollapsed(msg.xitIndex))")
    cw = facts.fn("Transients::completeWriting")
    bc = ev_call(CF + "Broadcast")
    fl = ck.flow(cw, markers={"switched": ev_call("Ipc::StoreMap::switchWritingToReading"), "told": bc})
    ck.require_passed("N1.writer-end-broadcast", fl, ev_exit(), "told", "return", why="(readers in other workers would never learn that the writer finished)")
    ck.require_passed("N1.writer-end-broadcast", fl, bc, "switched", "Broadcast()")
    dc = facts.fn("Transients::disconnect")
    ck.require_response("N1.writer-end-broadcast", dc, E.m_calls("Transients::isWriter"), True, bc, "Broadcast()", term_kinds=("IfStmt",),
                        why="(readers of an abandoned fetch would wait forever instead of being aborted)")
    ck.require_passed("N1.writer-end-broadcast", ck.flow(dc, markers={"closed": ev_call("Ipc::StoreMap::closeForWriting")}), bc, "closed", "Broadcast()")
    bi = [f for f in facts.fns(CF + "Broadcast") if any("sfileno" in p["t"] for p in f.params)]
    ck.need(len(bi) == 1, "C18: CollapsedForwarding::Broadcast(index) overload not found")
    ck.require_response("N1.message-delivered", bi[0], E.m_calls("Ipc::BaseMultiQueue::push"), True, ev_call(CF + "Notify"), "Notify(workerId)")
    hn = facts.fn(CF + "HandleNewData")
    ck.require_response("N1.message-delivered", hn, E.m_calls("Ipc::BaseMultiQueue::pop"), True, ev_call(CTL + "syncCollapsed", arg={0: E.m_mentions("CollapsedForwardingMsg::xitIndex")}),
                        "syncCollapsed(msg.xitIndex)", term_kinds=("WhileStmt",))
    ck.rule("Q1 a fetch that others share is not quick-aborted: CheckQuickAbortIsReasonable (asked when a store client leaves) answers true only with "
            "storePendingNClients(entry) > 0 established false (no other local reader at all -- the leaving client is already deregistered), Store::Root()."
            "transientReaders(*entry) false (no reader in another worker) and store_status == STORE_PENDING; otherwise a collapsed client's departure aborts the shared "
            "fetch and the remaining clients each start their own origin request")
    qa = facts.fn("CheckQuickAbortIsReasonable")
    qfl = ck.flow(qa)
    npc = E.M(lambda t: E.strip(t).get("k") == "call" and E.strip(t).get("f") == "storePendingNClients", "storePendingNClients(entry)")
    yes = ev_return(E.m_const(1))
    for st in ck.sites(qfl, yes, "return true", 1):
        lo, hi = ck.interval(st, npc)
        if hi is not None and hi <= 0:
            ck.ok("Q1.no-abort-while-shared", st.where(), "quick abort only with no other local store client")
        else:
            ck.violation("Q1.no-abort-while-shared", "Q1|CheckQuickAbortIsReasonable|local-readers", st.where(),
                         "CheckQuickAbortIsReasonable can answer true with storePendingNClients(entry) only known to be in [%s, %s]: the fetch is aborted while another "
                         "(collapsed) client is still reading it" % (lo, hi), qfl.witness(st))
    ck.require_fact("Q1.no-abort-while-shared", qfl, yes, E.M(lambda t: E.strip(t).get("k") == "call" and E.strip(t).get("f") == "Store::Controller::transientReaders", "transientReaders()"), False,
                    "return true", why="(readers in other workers would lose the fetch)")
    ck.assume("'at most one origin request' over schedules is NOT decided: two requests racing before the first makePublic(), a writer collision (Transients::addWriterEntry throws) and "
              "entries that become private later each fetch on their own; the catch handler of syncCollapsed (anchorToCache() threw -> abort()) and IPC delivery are not modelled")
    ck.rule("K1 ARGS(StoreEntry::release at displacement sites): an in-progress entry that loses its public key to another transaction, or is found marked for freeing, may "
            "still have collapsed clients waiting for its response headers; StoreEntry::mayStartHitting() lets them go on only while the private entry is "
            "`shareableWhenPrivate`, which release(shareable) keeps only for shareable == true.  StoreEntry::forcePublicKey (clashing entry), StoreEntry::adjustVary (base "
            "object), Store::Controller::evictIfFound and Store::Controller::syncCollapsed call release(true); with release() every waiting collapsed client misses and "
            "starts its own origin fetch (N clients -> N origin requests)")
    st18 = ck.facts(["src/store.cc", "src/store/Controller.cc"], whole=False)
    nrel = 0
    for fname in ("StoreEntry::forcePublicKey", "StoreEntry::adjustVary", "Store::Controller::evictIfFound", "Store::Controller::syncCollapsed"):
        f = st18.fn(fname)
        calls = [(ev, E.strip(ev["x"])) for b in f.blocks.values() for ev in b["ev"] if ev.get("e") == "call" and E.strip(ev["x"]).get("f") == "StoreEntry::release"]
        ck.need(calls, "C18: %s no longer releases the displaced entry" % fname)
        for ev, x in calls:
            nrel += 1
            a = x.get("a", [])
            if len(a) == 1 and E.const(a[0]) == 1:
                ck.ok("K1.displaced-entry-stays-shareable", f.where(ev["l"]), "%s: release(true)" % fname)
            else:
                ck.violation("K1.displaced-entry-stays-shareable", "K1|%s|release-not-shareable" % fname, f.where(ev["l"]), "%s releases the displaced entry with %s: it stops being "
                             "shareable, so clients already collapsed on it fail mayStartHitting() and each start their own origin fetch" % (fname, E.key(x)[:60]))
    ck.need(nrel >= 4, "C18: expected 4 displacement releases, found %d" % nrel)

    ck.assume("byte identity and 'never truncated as complete' for collapsed clients rest on C01/C10 (replyStatus, copyFromShm M1) and are not re-claimed; who broadcasts on new data "
              "(MemStore::write, Rock write completion) belongs to C19/C16")
