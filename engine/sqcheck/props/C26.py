"""C26 Content-Length is accepted only when unambiguous: Http::ContentLengthInterpreter gates and their use in HttpHeader::parse (DESIGN.md 5/C26)."""
from .. import expr as E
from ..flow import ev_call, ev_return, ev_assign, ev_any
from .C21 import require_any

CI = "Http::ContentLengthInterpreter::"
BAD, GOOD, VALUE, SANITIZE = CI + "sawBad", CI + "sawGood", CI + "value", CI + "needsSanitizing"
RELAXED = "SquidConfig::(anonymous struct)::relaxed_header_parser"
ret_false, ret_true = ev_return(E.m_const(0)), ev_return(E.m_const(1))
set_bad = ev_assign(BAD, E.m_const(1))


def run(ck):
    facts = ck.facts(["src/http/ContentLengthInterpreter.cc", "src/HttpHeader.cc"], whole=True)
    relaxed = E.m_is_mem(RELAXED)

    # ------------------------------------------------------------------ checkValue
    cv = facts.fn(CI + "checkValue")
    ck.rule("L1 ContentLengthInterpreter::checkValue: `value`/`sawGood` are written and true is returned only with findDigits() non-null, httpHeaderParseOffset() true, "
            "latestValue < 0 false, goodSuffix() true (and, by L2, sawGood false); every failed gate sets sawBad = true and returns false; value = the parsed number, parsed from the "
            "findDigits() result, with goodSuffix(<its end pointer>, rawValue + valueSize)")
    fl = ck.flow(cv)
    digits = ck.m_result_of(cv, CI + "findDigits")
    parsed = E.m_calls("httpHeaderParseOffset")
    suffix_ok = E.m_calls(CI + "goodSuffix")
    po = ck.sites(fl, ev_call("httpHeaderParseOffset"), "httpHeaderParseOffset()", 1)
    a = E.strip(po[0].ev["x"])["a"]
    ck.need(len(a) == 3 and all(E.strip(x).get("op") == "&" for x in a[1:]), "C26: httpHeaderParseOffset(digits, &value, &end) shape changed")
    num, end = E.strip(E.strip(a[1])["e"])["d"], E.strip(E.strip(a[2])["e"])["d"]
    negative = E.m_cmp("<", E.m_is_ref(num), E.m_const(0))
    accept = ev_any(ev_assign(VALUE, None, ops=None), ev_assign(GOOD, None, ops=None), ret_true)
    for m, v, why in ((digits, True, "leading garbage or an empty value"), (parsed, True, "a malformed or overflowing number"), (negative, False, "a negative number"),
                      (suffix_ok, True, "trailing garbage")):
        ck.require_fact("L1.accept-gates", fl, accept, m, v, "value=|sawGood=|return true", min_sites=3, why="(%s would be accepted as the Content-Length)" % why)
        ck.require_response("L1.reject-marks-bad", cv, m, not v, set_bad, "sawBad = true", why="(%s would not mark the header as bad)" % why)
        ck.require_response("L1.reject-marks-bad", cv, m, not v, ret_false, "return false", until=accept)
    if digits(a[0]):
        ck.ok("L1.value-provenance", po[0].where(), "the number is parsed from the findDigits() result")
    else:
        ck.violation("L1.value-provenance", "L1.value-provenance|parse-start", po[0].where(), "httpHeaderParseOffset parses %s, not the findDigits() result" % E.key(a[0]))
    defs = ck.local_defs(cv)
    p_raw, p_size = cv.params[0]["d"], cv.params[1]["d"]
    ends = [n for n, ds in defs.items() if len(ds) == 1 and E.ckey(ds[0]) == E.cbin("+", p_raw, p_size)]
    for s in ck.sites(fl, ev_call(CI + "goodSuffix"), "goodSuffix()", 1):
        g = E.strip(s.ev["x"])["a"]
        if E.m_is_ref(end)(g[0]) and E.strip(g[1]).get("d") in ends:
            ck.ok("L1.value-provenance", s.where(), "goodSuffix(%s, %s)" % (E.key(g[0]), E.key(g[1])))
        else:
            ck.violation("L1.value-provenance", "L1.value-provenance|suffix", s.where(), "goodSuffix(%s, %s) is not (<end of number>, rawValue + valueSize)" % (E.key(g[0]), E.key(g[1])))
    for s in ck.sites(fl, ev_call(CI + "findDigits"), "findDigits()", 1):
        g = E.strip(s.ev["x"])["a"]
        if E.m_is_ref(p_raw)(g[0]) and E.strip(g[1]).get("d") in ends:
            ck.ok("L1.value-provenance", s.where(), "findDigits(%s, %s)" % (E.key(g[0]), E.key(g[1])))
        else:
            ck.violation("L1.value-provenance", "L1.value-provenance|prefix", s.where(), "findDigits(%s, %s) is not (rawValue, rawValue + valueSize)" % (E.key(g[0]), E.key(g[1])))
    for s in ck.sites(fl, ev_assign(VALUE, None, ops=None), "value =", 1):
        if s.ev.get("op") == "=" and E.m_is_ref(num)(s.ev.get("rhs")):
            ck.ok("L1.value-provenance", s.where(), "value = %s" % num)
        else:
            ck.violation("L1.value-provenance", "L1.value-provenance|value", s.where(), "value is written by %s, not from the parsed number %s" % (s.desc(), num))

    ck.rule("L2 checkValue with sawGood already set never returns true or rewrites value; it sets needsSanitizing and sawBad = !relaxed_header_parser || (value != latest)")
    ck.require_response("L2.second-value", cv, E.m_is_mem(GOOD), True, ret_false, "return false", until=accept, why="(a repeated Content-Length would replace or confirm the first silently)")
    ck.require_response("L2.second-value", cv, E.m_is_mem(GOOD), True, ev_assign(SANITIZE, E.m_const(1)), "needsSanitizing = true")
    ck.require_response("L2.second-value", cv, E.m_is_mem(GOOD), True, ev_assign(BAD, None), "sawBad = ...")
    differs = E.m_cmp("==", E.m_is_mem(VALUE), E.m_is_ref(num)) | E.m_cmp("==", E.m_is_ref(num), E.m_is_mem(VALUE))
    conf = [n for n, ds in defs.items() if len(ds) == 1 and E.norm(ds[0])[1] is False and differs(E.norm(ds[0])[0])]
    for s in ck.sites(fl, ev_assign(BAD, E.M(lambda t: E.const(t) is None, "computed")), "sawBad = <computed>", 1):
        need = sorted((E.key(t), v) for t, v in E.implied(s.ev["rhs"], False))
        want = sorted([("Config.onoff.relaxed_header_parser", True)] + [(c, False) for c in conf[:1]])
        if s.has(E.m_is_mem(GOOD), True) and conf and need == want:
            ck.ok("L2.duplicate-policy", s.where(), "sawBad = %s is false only for an equal value under relaxed parsing" % E.key(s.ev["rhs"]))
        else:
            ck.violation("L2.duplicate-policy", "L2.duplicate-policy|checkValue", s.where(),
                         "after a second value sawBad = %s is false when %s; expected false only when %s" % (E.key(s.ev["rhs"]), need, want))

    # ------------------------------------------------------------------ helpers of checkValue
    ck.rule("L3 findDigits returns non-null only a pointer to a DIGIT and skips only whitespace; goodSuffix returns true only for an empty or all-delimiter suffix")
    fd = facts.fn(CI + "findDigits")
    fl = ck.flow(fd)
    is_digit = E.m_calls("CharacterSet::operator[]") & E.m_mentions("CharacterSet::DIGIT")
    nonnull = lambda ev: ev.get("e") == "ret" and E.strip(ev.get("x")).get("k") != "null" and E.const(ev.get("x")) != 0
    ck.require_fact("L3.digits-start", fl, nonnull, is_digit, True, "return <non-null>", why="(a sign or other byte would start the number)")
    for s in fl.find(nonnull):
        if E.m_is_ref(fd.params[0]["d"])(s.ev["x"]):
            ck.ok("L3.digits-start", s.where(), "returns the scanned position")
        else:
            ck.violation("L3.digits-start", "L3.digits-start|value", s.where(), "findDigits returns %s, not the scanned position" % E.key(s.ev["x"]))
    ws = E.m_calls("CharacterSet::operator[]") & ~E.m_mentions("CharacterSet::DIGIT")
    ck.require_fact("L3.digits-start", fl, ev_assign(fd.params[0]["d"], None, ops=("++", "p++", "+=")), ws, True, "++prefix", why="(non-whitespace would be skipped before the number)")
    gs = facts.fn(CI + "goodSuffix")
    ps, pe = gs.params[0]["d"], gs.params[1]["d"]
    require_any(ck, "L3.suffix", gs, ret_true, [(E.m_cmp("==", E.m_is_ref(ps), E.m_is_ref(pe)), True), (E.m_cmp("<", E.m_is_ref(ps), E.m_is_ref(pe)), False)], "return true",
                why="(bytes after the number would go unchecked)")
    ck.require_response("L3.suffix", gs, E.m_calls("CharacterSet::operator[]"), False, ret_false, "return false", until=ret_true, why="(trailing garbage would be accepted)")

    # ------------------------------------------------------------------ checkList / checkField
    ck.rule("L4 checkList never returns true, sets sawBad under strict parsing, sets needsSanitizing otherwise and feeds each strListGetItem() item to checkValue; "
            "checkField returns false once sawBad is set and uses checkValue on the whole field only when it contains no comma")
    cl = facts.fn(CI + "checkList")
    fl = ck.flow(cl)
    for s in ck.sites(fl, ev_return(), "return", 2):
        if E.const(s.ev.get("x")) == 0:
            ck.ok("L4.list-never-kept", s.where(), "checkList returns false")
        else:
            ck.violation("L4.list-never-kept", "L4.list-never-kept|checkList", s.where(), "checkList returns %s" % E.key(s.ev.get("x")))
    ck.require_response("L4.strict-rejects-lists", cl, relaxed, False, set_bad, "sawBad = true", why="(a list-like Content-Length would pass strict parsing)")
    ck.require_response("L4.strict-rejects-lists", cl, relaxed, False, ret_false, "return false", until=ev_call(CI + "checkValue"))
    ck.require_response("L4.relaxed-sanitizes", cl, relaxed, True, ev_assign(SANITIZE, E.m_const(1)), "needsSanitizing = true", until=ev_call(CI + "checkValue"))
    item = ck.sites(fl, ev_call("strListGetItem"), "strListGetItem()", 1)
    ia = E.strip(item[0].ev["x"])["a"]
    want = [E.key(E.strip(ia[2]).get("e")), E.key(E.strip(ia[3]).get("e"))] if len(ia) == 5 and E.const(ia[1]) == 44 else None
    for s in ck.sites(fl, ev_call(CI + "checkValue"), "checkValue()", 1):
        got = [E.key(x) for x in E.strip(s.ev["x"])["a"]]
        if want and got == want and s.has(E.m_calls("strListGetItem"), True):
            ck.ok("L4.each-item-checked", s.where(), "checkValue(%s) on each ','-separated item" % ", ".join(got))
        else:
            ck.violation("L4.each-item-checked", "L4.each-item-checked|checkList", s.where(), "checkValue(%s) is not applied to the strListGetItem(',') item %s" % (", ".join(got), want))
    ck.require_response("L4.each-item-checked", cl, E.m_calls("strListGetItem"), True, ev_call(CI + "checkValue"), "checkValue()", why="(a list item would be skipped)")
    cf = facts.fn(CI + "checkField")
    fl = ck.flow(cf)
    ck.require_response("L4.field-dispatch", cf, E.m_is_mem(BAD), True, ret_false, "return false", until=ev_any(ev_call(CI + "checkValue"), ev_call(CI + "checkList")))
    fp = cf.params[0]["d"]
    comma = E.m_calls("String::pos") & E.M(lambda t: E.const(E.strip(t)["a"][0]) == 44 and E.m_is_ref(fp)(E.strip(t)["o"]), "(',') on the field")
    for s in ck.require_fact("L4.field-dispatch", fl, ev_call(CI + "checkValue"), comma, False, "checkValue()", why="(a comma-separated list would be parsed as one number, stopping at the comma)"):
        got = [E.key(x) for x in E.strip(s.ev["x"])["a"]]
        if got == ["%s.rawBuf()" % fp, "%s.size()" % fp]:
            ck.ok("L4.field-dispatch", s.where(), "checkValue(%s)" % ", ".join(got))
        else:
            ck.violation("L4.field-dispatch", "L4.field-dispatch|args", s.where(), "checkValue(%s) does not cover the whole field value" % ", ".join(got))
    for s in ck.sites(fl, ev_return(), "return", 2):
        calls = {c.get("f") for c in E.calls_in(s.ev.get("x") or {})} & {CI + "checkValue", CI + "checkList"}
        if E.const(s.ev.get("x")) == 0 or calls:
            ck.ok("L4.field-dispatch", s.where(), "checkField returns %s" % E.key(s.ev.get("x"))[:80])
        else:
            ck.violation("L4.field-dispatch", "L4.field-dispatch|result", s.where(), "checkField returns %s, not the verdict of checkValue/checkList" % E.key(s.ev.get("x")))

    # ------------------------------------------------------------------ who writes the verdict; use in HttpHeader::parse
    ck.rule("L5 WHO-writes (whole program): value and sawGood only by the constructor and checkValue; sawBad only by the constructor, checkValue and checkList; "
            "needsSanitizing only by the constructor, checkValue and checkList")
    ctor = CI + "ContentLengthInterpreter"
    ck.who_writes("L5.who-writes", facts, VALUE, {ctor: "initialisation", CI + "checkValue": "the single accepted value"}, min_writers=2)
    ck.who_writes("L5.who-writes", facts, GOOD, {ctor: "initialisation", CI + "checkValue": "first good value"}, min_writers=2)
    ck.who_writes("L5.who-writes", facts, BAD, {ctor: "initialisation", CI + "checkValue": "bad/duplicate value", CI + "checkList": "strict list"}, min_writers=3)
    ck.who_writes("L5.who-writes", facts, SANITIZE, {ctor: "initialisation", CI + "checkValue": "duplicate", CI + "checkList": "list"}, min_writers=3)

    hdr = facts.enum("Http::HdrType")
    CLEN = hdr["CONTENT_LENGTH"]
    parse = [f for f in facts.fns("HttpHeader::parse") if f.sig.startswith("const char *, size_t, Http::ContentLengthInterpreter")]
    ck.need(len(parse) == 1, "C26: HttpHeader::parse(const char*, size_t, ContentLengthInterpreter&) not found")
    parse = parse[0]
    ck.rule("L6 HttpHeader::parse: a Content-Length entry reaches addEntry only with clen.checkField(e->value) true; under strict parsing a false checkField() returns 0; "
            "sawBad -> delById(CONTENT_LENGTH) and conflictingContentLength_ = true; needsSanitizing -> delById(CONTENT_LENGTH); a Content-Length is re-added only as "
            "putInt64(CONTENT_LENGTH, clen.value) with sawBad false and sawGood true")
    is_cl = E.m_cmp("==", E.m_is_mem("HttpHeaderEntry::id"), E.m_const(CLEN))
    checked = E.m_calls(CI + "checkField") & E.M(lambda t: E.m_is_mem("HttpHeaderEntry::value")(E.strip(t)["a"][0]), "(e->value)")
    require_any(ck, "L6.only-checked-fields-kept", parse, ev_call("HttpHeader::addEntry"), [(is_cl, False), (checked, True)], "addEntry()",
                why="(an unchecked or rejected Content-Length field would stay in the header)")
    ck.require_response("L6.strict-rejects-message", parse, checked, False, ev_return(E.m_const(0)), "return 0", until=ev_call("HttpHeader::addEntry"), assume=[(relaxed, False)],
                        why="(under strict parsing a bad or duplicate Content-Length would be dropped silently)")
    del_cl = ev_call("HttpHeader::delById", arg={0: E.m_const(CLEN)})
    ck.require_response("L6.bad-cl-removed", parse, E.m_is_mem(BAD), True, del_cl, "delById(CONTENT_LENGTH)", why="(callers would see a bad Content-Length value)")
    ck.require_response("L6.bad-cl-removed", parse, E.m_is_mem(BAD), True, ev_assign("HttpHeader::conflictingContentLength_", E.m_const(1)), "conflictingContentLength_=true")
    ck.require_response("L6.sanitized", parse, E.m_is_mem(SANITIZE), True, del_cl, "delById(CONTENT_LENGTH)", why="(duplicate fields would stay visible)")
    put = ev_call("HttpHeader::putInt64", arg={0: E.m_const(CLEN)})
    fl = ck.flow(parse)
    for m, v in ((E.m_is_mem(BAD), False), (E.m_is_mem(GOOD), True), (E.m_is_mem(SANITIZE), True)):
        ck.require_fact("L6.sanitized", fl, put, m, v, "putInt64(CONTENT_LENGTH, ..)", why="(a value that is not the single agreed decimal would be installed)")
    for s in fl.find(put):
        if E.m_is_mem(VALUE)(E.strip(s.ev["x"])["a"][1]):
            ck.ok("L6.sanitized", s.where(), "putInt64(CONTENT_LENGTH, clen.value)")
        else:
            ck.violation("L6.sanitized", "L6.sanitized|value", s.where(), "Content-Length is rewritten to %s, not clen.value" % E.key(E.strip(s.ev["x"])["a"][1]))
    from .C03 import list_scan_complete
    list_scan_complete(ck, rule="L7.list-scan-complete", pid="C26")
    ck.assume("numeric exactness of httpHeaderParseOffset (C27) and strListGetItem's item boundaries are not decided; how callers use conflictingContentLength() is C03")
