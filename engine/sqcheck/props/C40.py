"""C40 FTP address replies are parsed strictly: port range clause (DESIGN.md 5/C40)."""
from .. import expr as E
from ..flow import ev_call, ev_return


import re

_CONV = re.compile(r"%(\*)?(\d+)?(hh|h|ll|l|j|z|t|L)?([diouxXcsfeEgGaAn\[p%])")
_BITS = {"hh": 8, "h": 16, None: 32, "l": 64, "ll": 64, "j": 64, "z": 64, "t": 64}


def scanf_int_convs(fmt):
    """[(arg position among the stored conversions, text, width or None, bits, signed)] of the integer conversions of a scanf format"""
    out, pos = [], 0
    for m in _CONV.finditer(fmt):
        star, width, mod, conv = m.groups()
        if conv == "%":
            continue
        if conv == "[":
            pass
        if not star:
            if conv in "diouxX":
                out.append((pos, m.group(0), int(width) if width else None, _BITS.get(mod, 32), conv in "di"))
            pos += 1
    return out


def max_safe_width(bits, signed, conv):
    """largest field width for which no input can overflow the destination (decimal; the sign consumes one character of the width)"""
    lim = (1 << (bits - 1)) - 1 if signed else (1 << bits) - 1
    if conv in "xX":
        return bits // 4
    if conv == "o":
        return bits // 3
    w = 0
    while 10 ** (w + 1) - 1 <= lim:
        w += 1
    return w


def run(ck):
    facts = ck.facts(["src/ftp/Parsing.cc", "src/clients/FtpClient.cc"])
    set_port = ev_call("Ip::Address::port", nargs=1)

    ck.rule("F1 GINT(Ftp::ParseProtoIpPort): at addr.port(port) the configuration-independent guards give port in [1,65535]; "
            "port holds the full strtol result (no narrowing before the range check) and the delimiter after it is checked")
    pp = facts.fn("Ftp::ParseProtoIpPort")
    fl = ck.flow(pp)
    ck.require_interval("F1.port-range", fl, set_port, E.m_is_ref("port"), 1, 65535, "addr.port(port)",
                        why="(EPSV/EPRT replies such as |1|h|70000| or |1|h|0| yield a truncated/zero port)")
    decl = [ev for b in pp.blocks.values() for ev in b["ev"] if ev.get("e") == "decl" and ev.get("d") == "port"]
    ck.need(len(decl) == 1, "C40: local 'port' not found in ParseProtoIpPort")
    init = decl[0].get("init") or {}
    narrowed = init.get("k") == "icast" and abs(init.get("iw", 64)) < 64
    src = E.strip(init)
    if isinstance(src, dict) and src.get("f") in ("strtol", "strtoll") and not narrowed:
        ck.ok("F1.no-narrowing", pp.where(decl[0]["l"]), "port keeps the full width of strtol()")
    else:
        ck.violation("F1.no-narrowing", "F1|ParseProtoIpPort|narrowed-before-check", pp.where(decl[0]["l"]),
                     "the strtol() result is narrowed to %s bits before it is range-checked (4294967317 becomes 21)" % abs(init.get("iw", 0)))
    for s in fl.find(set_port):
        x = E.strip(s.ev["x"])
        if not E.m_is_ref("port")(x["a"][0]):
            ck.violation("F1.port-range", "F1|ParseProtoIpPort|port-arg", s.where(), "addr.port() is no longer called with the checked local")

    ck.rule("F2 GINT(Ftp::ParseIpPort): p1,p2 in [0,255], port = (p1 << 8) + p2 and port > 0 at addr.port(port); sscanf must have converted all 6 fields")
    ip = facts.fn("Ftp::ParseIpPort")
    fl = ck.flow(ip)
    ck.require_interval("F2.octets", fl, set_port, E.m_is_ref("p1"), 0, 255, "addr.port(port)")
    ck.require_interval("F2.octets", fl, set_port, E.m_is_ref("p2"), 0, 255, "addr.port(port)")
    ck.require_interval("F2.port-positive", fl, set_port, E.m_is_ref("port"), 1, None, "addr.port(port)")
    ck.require_fact("F2.all-fields", fl, set_port, E.m_cmp("==", E.m_is_ref("n"), E.m_const(6)), True, "addr.port(port)")
    d = ck.local_defs(ip).get("port", [])
    shape = bool(d) and all(E.ckey(t) == E.cbin("+", "(p1 << 8)", "p2") for t in d)
    if shape:
        ck.ok("F2.port-shape", ip.where(), "port = (p1 << 8) + p2")
    else:
        ck.violation("F2.port-shape", "F2|ParseIpPort|port-shape", ip.where(), "port is no longer (p1 << 8) + p2: %s" % [E.key(t) for t in d])
    ck.rule("F2b GINT(Ftp::ParseIpPort): `return true` only with all six components h1..h4, p1, p2 within [0,255] established (also when the address itself is "
            "replaced by forceIp: the statement says an address is yielded only if *every* component is in range)")
    ret_true = ev_return(E.m_const(1))
    for v in ("h1", "h2", "h3", "h4"):
        ck.require_interval("F2b.address-octets", fl, ret_true, E.m_is_ref(v), 0, 255, "return true (%s)" % v,
                            why="(227 replies such as (999,0,0,1,4,0) are accepted when the IP is forced to the control connection's peer)")

    ck.rule("F3 LOSSY(scanf): in the FTP address parsers (Ftp::ParseIpPort, Ftp::Client::handleEpsvReply) every integer conversion of sscanf() has a field width "
            "small enough that no input can overflow the destination type (C11 7.21.6.2p10: otherwise the behaviour is undefined; glibc silently wraps: "
            "`%hu` turns 70000 into 4464 and `%d` turns 4294967296 into 0 *before* any range check) and the destination's width agrees with the length modifier")
    nconv = 0
    for fname in ("Ftp::ParseIpPort", "Ftp::Client::handleEpsvReply"):
        f = facts.fn(fname)
        for b in f.blocks.values():
            for ev in b["ev"]:
                if ev.get("e") != "call":
                    continue
                x = E.strip(ev["x"])
                if x.get("f") != "sscanf":
                    continue
                fmt = E.strip(x["a"][1])
                ck.need(fmt.get("k") == "str", "C40: sscanf format in %s is not a literal" % fname)
                for pos, text, width, bits, signed in scanf_int_convs(fmt["v"]):
                    nconv += 1
                    dest = x["a"][2 + pos] if len(x["a"]) > 2 + pos else None
                    diw = abs(E.strip(dest).get("e", {}).get("iw", 0)) if dest and E.strip(dest).get("k") == "un" else 0
                    safe = max_safe_width(bits, signed, text[-1])
                    where = f.where(ev["l"])
                    if diw and diw != bits:
                        ck.violation("F3.scanf-exact", "F3|%s|%s|dest-width" % (fname, text), where, "%s: conversion %s stores %d bits into a %d-bit object" % (fname, text, bits, diw))
                    elif width is not None and width <= safe:
                        ck.ok("F3.scanf-exact", where, "%s: %s cannot overflow its %d-bit destination" % (fname, text, bits))
                    else:
                        ck.violation("F3.scanf-exact", "F3|%s|arg%d|unbounded-conversion" % (fname, pos), where,
                                     "%s: sscanf conversion %s into a %d-bit %s object has %s: an out-of-range component overflows during the conversion "
                                     "(undefined behaviour; glibc wraps modulo 2^%d), so the later range checks see an in-range value"
                                     % (fname, text, bits, "signed" if signed else "unsigned", "no field width" if width is None else "field width %d > %d" % (width, safe), bits))
    ck.need(nconv >= 7, "C40: expected >= 7 integer sscanf conversions in the FTP address parsers, found %d" % nconv)

    ck.rule("F4 GINT(Ftp::Client::handleEpsvReply): at remoteAddr.port(port) the guards (and the declared type of the local) give port in [1,65535]; "
            "all sscanf fields were converted and the three delimiters agree")
    ep = facts.fn("Ftp::Client::handleEpsvReply")
    fl = ck.flow(ep)
    pdecl = [ev for b in ep.blocks.values() for ev in b["ev"] if ev.get("e") == "decl" and ev.get("d") == "port"]
    ck.need(len(pdecl) == 1, "C40: local 'port' not found in handleEpsvReply")
    piw = pdecl[0].get("iw") or 0
    for st in ck.sites(fl, set_port, "remoteAddr.port(port)", 1):
        x = E.strip(st.ev["x"])
        ck.need(E.m_is_ref("port")(x["a"][0]), "C40: handleEpsvReply no longer passes the local 'port' to Ip::Address::port()")
        lo, hi = ck.interval(st, E.m_is_ref("port"))
        if piw > 0:     # unsigned type bounds
            lo = 0 if lo is None else max(lo, 0)
            hi = (1 << piw) - 1 if hi is None else min(hi, (1 << piw) - 1)
            if lo == 0 and st.has(E.m_is_ref("port"), True):       # `0 == port` is normalised to the falsity of `port`
                lo = 1
        if lo is not None and lo >= 1 and hi is not None and hi <= 65535:
            ck.ok("F4.epsv-port-range", st.where(), "handleEpsvReply: port within [%s, %s]" % (lo, hi))
        else:
            ck.violation("F4.epsv-port-range", "F4|handleEpsvReply|port-range", st.where(), "handleEpsvReply: guards only give port in [%s, %s], required [1, 65535]" % (lo, hi), fl.witness(st))

    ck.assume("directory-listing parsing (ftpListParseParts) memory safety is not decided by this module")
