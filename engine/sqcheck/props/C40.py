"""C40 FTP address replies are parsed strictly: port range clause (DESIGN.md 5/C40)."""
from .. import expr as E
from ..flow import ev_call, ev_return


import re

_CONV = re.compile(r"%(\*)?(\d+)?(hh|h|ll|l|j|z|t|L)?([diouxXcsfeEgGaAn\[p%])")
_BITS = {"hh": 8, "h": 16, None: 32, "l": 64, "ll": 64, "j": 64, "z": 64, "t": 64}


def scanf_int_convs(fmt):
    """[(arg position among the stored conversions, text, width or None, bits, signed)] of the integer conversions of a scanf format"""
    out, pos = [], 0
    for m in _CONV.finditer(fmt):
        star, width, mod, conv = m.groups()
        if conv == "%":
            continue
        if conv == "[":
            pass
        if not star:
            if conv in "diouxX":
                out.append((pos, m.group(0), int(width) if width else None, _BITS.get(mod, 32), conv in "di"))
            pos += 1
    return out


def max_safe_width(bits, signed, conv):
    """largest field width for which no input can overflow the destination (decimal; the sign consumes one character of the width)"""
    lim = (1 << (bits - 1)) - 1 if signed else (1 << bits) - 1
    if conv in "xX":
        return bits // 4
    if conv == "o":
        return bits // 3
    w = 0
    while 10 ** (w + 1) - 1 <= lim:
        w += 1
    return w


def run(ck):
    facts = ck.facts(["src/ftp/Parsing.cc", "src/clients/FtpClient.cc"])
    set_port = ev_call("Ip::Address::port", nargs=1)

    ck.rule("F1 GINT(Ftp::ParseProtoIpPort): at addr.port(port) the configuration-independent guards give port in [1,65535]; "
            "port holds the full strtol result (no narrowing before the range check) and the delimiter after it is checked")
    pp = facts.fn("Ftp::ParseProtoIpPort")
    fl = ck.flow(pp)
    ck.require_interval("F1.port-range", fl, set_port, E.m_is_ref("port"), 1, 65535, "addr.port(port)",
                        why="(EPSV/EPRT replies such as |1|h|70000| or |1|h|0| yield a truncated/zero port)")
    decl = [ev for b in pp.blocks.values() for ev in b["ev"] if ev.get("e") == "decl" and ev.get("d") == "port"]
    ck.need(len(decl) == 1, "C40: local 'port' not found in ParseProtoIpPort")
    init = decl[0].get("init") or {}
    narrowed = init.get("k") == "icast" and abs(init.get("iw", 64)) < 64
    src = E.strip(init)
    if isinstance(src, dict) and src.get("f") in ("strtol", "strtoll") and not narrowed:
        ck.ok("F1.no-narrowing", pp.where(decl[0]["l"]), "port keeps the full width of strtol()")
    else:
        ck.violation("F1.no-narrowing", "F1|ParseProtoIpPort|narrowed-before-check", pp.where(decl[0]["l"]),
                     "the strtol() result is narrowed to %s bits before it is range-checked (4294967317 becomes 21)" % abs(init.get("iw", 0)))
    for s in fl.find(set_port):
        x = E.strip(s.ev["x"])
        if not E.m_is_ref("port")(x["a"][0]):
            ck.violation("F1.port-range", "F1|ParseProtoIpPort|port-arg", s.where(), "addr.port() is no longer called with the checked local")

    ck.rule("F2 GINT(Ftp::ParseIpPort): p1,p2 in [0,255], port = (p1 << 8) + p2 and port > 0 at addr.port(port); sscanf must have converted all 6 fields")
    ip = facts.fn("Ftp::ParseIpPort")
    fl = ck.flow(ip)
    ck.require_interval("F2.octets", fl, set_port, E.m_is_ref("p1"), 0, 255, "addr.port(port)")
    ck.require_interval("F2.octets", fl, set_port, E.m_is_ref("p2"), 0, 255, "addr.port(port)")
    ck.require_interval("F2.port-positive", fl, set_port, E.m_is_ref("port"), 1, None, "addr.port(port)")
    ck.require_fact("F2.all-fields", fl, set_port, E.m_cmp("==", E.m_is_ref("n"), E.m_const(6)), True, "addr.port(port)")
    d = ck.local_defs(ip).get("port", [])
    shape = bool(d) and all(E.ckey(t) == E.cbin("+", "(p1 << 8)", "p2") for t in d)
    if shape:
        ck.ok("F2.port-shape", ip.where(), "port = (p1 << 8) + p2")
    else:
        ck.violation("F2.port-shape", "F2|ParseIpPort|port-shape", ip.where(), "port is no longer (p1 << 8) + p2: %s" % [E.key(t) for t in d])
    ck.rule("F2b GINT(Ftp::ParseIpPort): `return true` only with all six components h1..h4, p1, p2 within [0,255] established (also when the address itself is "
            "replaced by forceIp: the statement says an address is yielded only if *every* component is in range)")
    ret_true = ev_return(E.m_const(1))
    for v in ("h1", "h2", "h3", "h4"):
        ck.require_interval("F2b.address-octets", fl, ret_true, E.m_is_ref(v), 0, 255, "return true (%s)" % v,
                            why="(227 replies such as (999,0,0,1,4,0) are accepted when the IP is forced to the control connection's peer)")

    ck.rule("F3 LOSSY(scanf): in the FTP address parsers (Ftp::ParseIpPort, Ftp::Client::handleEpsvReply) every integer conversion of sscanf() has a field width "
            "small enough that no input can overflow the destination type (C11 7.21.6.2p10: otherwise the behaviour is undefined; glibc silently wraps: "
            "`%hu` turns 70000 into 4464 and `%d` turns 4294967296 into 0 *before* any range check) and the destination's width agrees with the length modifier")
    nconv = 0
    for fname in ("Ftp::ParseIpPort", "Ftp::Client::handleEpsvReply"):
        f = facts.fn(fname)
        for b in f.blocks.values():
            for ev in b["ev"]:
                if ev.get("e") != "call":
                    continue
                x = E.strip(ev["x"])
                if x.get("f") != "sscanf":
                    continue
                fmt = E.strip(x["a"][1])
                ck.need(fmt.get("k") == "str", "C40: sscanf format in %s is not a literal" % fname)
                for pos, text, width, bits, signed in scanf_int_convs(fmt["v"]):
                    nconv += 1
                    dest = x["a"][2 + pos] if len(x["a"]) > 2 + pos else None
                    diw = abs(E.strip(dest).get("e", {}).get("iw", 0)) if dest and E.strip(dest).get("k") == "un" else 0
                    safe = max_safe_width(bits, signed, text[-1])
                    where = f.where(ev["l"])
                    if diw and diw != bits:
                        ck.violation("F3.scanf-exact", "F3|%s|%s|dest-width" % (fname, text), where, "%s: conversion %s stores %d bits into a %d-bit object" % (fname, text, bits, diw))
                    elif width is not None and width <= safe:
                        ck.ok("F3.scanf-exact", where, "%s: %s cannot overflow its %d-bit destination" % (fname, text, bits))
                    else:
                        ck.violation("F3.scanf-exact", "F3|%s|arg%d|unbounded-conversion" % (fname, pos), where,
                                     "%s: sscanf conversion %s into a %d-bit %s object has %s: an out-of-range component overflows during the conversion "
                                     "(undefined behaviour; glibc wraps modulo 2^%d), so the later range checks see an in-range value"
                                     % (fname, text, bits, "signed" if signed else "unsigned", "no field width" if width is None else "field width %d > %d" % (width, safe), bits))
    ck.need(nconv >= 7, "C40: expected >= 7 integer sscanf conversions in the FTP address parsers, found %d" % nconv)

    ck.rule("F3b LOSSY(scanf, tail): a width-limited integer conversion that ends the format stops after <width> digits and leaves the rest of an over-long last "
            "component unread (`%3d` turns the p2 of \"...,0,1000\" into 100): such a format must end in %n and every `return true` must be reached only after a test "
            "on the byte at that offset (buf[consumed]), so that a component continuing with more digits is rejected rather than truncated")
    ntail = 0
    for fname in ("Ftp::ParseIpPort", "Ftp::Client::handleEpsvReply"):
        f = facts.fn(fname)
        ffl = None
        for b in f.blocks.values():
            for ev in b["ev"]:
                x = E.strip(ev.get("x")) if ev.get("e") == "call" else None
                if not isinstance(x, dict) or x.get("f") != "sscanf":
                    continue
                fmt = E.strip(x["a"][1])["v"]
                body = fmt[:-2] if fmt.endswith("%n") else fmt
                m = list(_CONV.finditer(body))
                if not m or m[-1].end() != len(body) or m[-1].group(4) not in "diouxX":
                    continue            # the last integer field is followed by a literal or another conversion that must match (EPSV: the closing delimiter)
                ntail += 1
                where = f.where(ev["l"])
                nstored = sum(1 for c in _CONV.finditer(body) if not c.group(1) and c.group(4) != "%")
                dest = E.strip(x["a"][2 + nstored]) if fmt.endswith("%n") and len(x["a"]) > 2 + nstored else None
                cons = E.strip(dest.get("e")) if isinstance(dest, dict) and dest.get("k") == "un" and dest.get("op") == "&" else None
                if not (isinstance(cons, dict) and cons.get("k") == "ref"):
                    ck.violation("F3b.tail-examined", "F3b|%s|no-consumed-count" % fname, where, "%s: the format \"%s\" ends in a width-limited integer conversion and records no "
                                 "%%n offset: digits beyond the field width of the last component are silently ignored (\"...,0,1000\" is accepted as ...,0,100)" % (fname, fmt))
                    continue
                src = E.strip(x["a"][0])
                at_tail = E.M(lambda t, cons=cons, src=src: any(n.get("k") == "idx" and E.key(n.get("b")) == E.key(src) and E.m_is_ref(cons["d"])(n.get("i")) for n in E.walk(t))
                              or any(n.get("k") == "un" and n.get("op") == "*" and cons["d"] in E.mentions(n) and E.key(src) in E.key(n) for n in E.walk(t)),
                              "%s[%s]" % (E.key(src), cons["d"]))
                ffl = ffl or ck.flow(f)
                for st in ck.sites(ffl, ev_return(E.m_const(1)), "return true", 1):
                    if any(fc[0] == "A" and at_tail(ffl.trees[fc[1]]) for fc in st.facts):
                        ck.ok("F3b.tail-examined", st.where(), "%s: success only after a test on %s" % (fname, at_tail.desc))
                    else:
                        ck.violation("F3b.tail-examined", "F3b|%s|tail-not-examined" % fname, st.where(), "%s: `return true` is reachable without any test on %s, the byte after the "
                                     "width-limited last field: an over-long last component is truncated, not rejected" % (fname, at_tail.desc), ffl.witness(st))
    ck.need(ntail >= 1, "C40: no sscanf format ending in a width-limited integer field found (Ftp::ParseIpPort changed shape?)")

    ck.rule("F4 GINT(Ftp::Client::handleEpsvReply): at remoteAddr.port(port) the guards (and the declared type of the local) give port in [1,65535]; "
            "all sscanf fields were converted and the three delimiters agree")
    ep = facts.fn("Ftp::Client::handleEpsvReply")
    fl = ck.flow(ep)
    pdecl = [ev for b in ep.blocks.values() for ev in b["ev"] if ev.get("e") == "decl" and ev.get("d") == "port"]
    ck.need(len(pdecl) == 1, "C40: local 'port' not found in handleEpsvReply")
    piw = pdecl[0].get("iw") or 0
    for st in ck.sites(fl, set_port, "remoteAddr.port(port)", 1):
        x = E.strip(st.ev["x"])
        ck.need(E.m_is_ref("port")(x["a"][0]), "C40: handleEpsvReply no longer passes the local 'port' to Ip::Address::port()")
        lo, hi = ck.interval(st, E.m_is_ref("port"))
        if piw > 0:     # unsigned type bounds
            lo = 0 if lo is None else max(lo, 0)
            hi = (1 << piw) - 1 if hi is None else min(hi, (1 << piw) - 1)
            if lo == 0 and st.has(E.m_is_ref("port"), True):       # `0 == port` is normalised to the falsity of `port`
                lo = 1
        if lo is not None and lo >= 1 and hi is not None and hi <= 65535:
            ck.ok("F4.epsv-port-range", st.where(), "handleEpsvReply: port within [%s, %s]" % (lo, hi))
        else:
            ck.violation("F4.epsv-port-range", "F4|handleEpsvReply|port-range", st.where(), "handleEpsvReply: guards only give port in [%s, %s], required [1, 65535]" % (lo, hi), fl.witness(st))

    listing(ck)
    ck.assume("of directory-listing parsing (ftpListParseParts) the module decides the token-array index discipline and the cursor-advance discipline (L1-L3); "
              "the string library calls themselves (strtok/snprintf/xstrndup/regexec) and the EPLF field arithmetic are not decided")


def listing(ck):
    """ftpListParseParts: the structural memory-safety clauses"""
    facts = ck.facts(["src/clients/FtpGateway.cc"], whole=False)
    lp = facts.fn("ftpListParseParts")
    arr = [ev for b in lp.blocks.values() for ev in b["ev"] if ev.get("e") == "decl" and re.search(r"\[(\d+)\]$", ev.get("t") or "") and "Token" in ev.get("t", "")]
    ck.need(len(arr) == 1, "C40: the token array of ftpListParseParts was not found")
    TOK = arr[0]["d"]
    CAP = int(re.search(r"\[(\d+)\]$", arr[0]["t"]).group(1))
    stores = [ev for b in lp.blocks.values() for ev in b["ev"] if ev.get("e") == "asg" and any(n.get("k") == "idx" and E.m_is_ref(TOK)(n.get("b")) for n in E.walk(ev["lhs"]))]
    counts = {E.strip(n["i"]).get("d") for ev in stores for n in E.walk(ev["lhs"]) if n.get("k") == "idx" and E.strip(n["i"]).get("k") == "ref"}
    ck.need(len(counts) == 1 and None not in counts, "C40: ftpListParseParts no longer fills %s[<count>]" % TOK)
    N = counts.pop()
    is_n, is_tok = E.m_is_ref(N), E.m_is_ref(TOK)

    def assigned(ev, name):
        return ev.get("e") == "asg" and E.m_is_ref(name)(ev.get("lhs"))

    def on_event(ev, env, fs):
        # lower bound of every int local that is only ever set to a constant and incremented: env['%min:<name>']
        if ev.get("e") == "asg":
            l = E.strip(ev.get("lhs"))
            if isinstance(l, dict) and l.get("k") == "ref" and l.get("dk") == "local":
                if ev.get("op") == "=" and E.const(ev.get("rhs")) is not None:
                    env["%min:" + l["d"]] = E.const(ev["rhs"])
                elif ev.get("op") != "++":
                    env.pop("%min:" + l["d"], None)
                # the last definition of a cursor: found by strstr/strchr of a non-empty needle (then it points at a non-NUL byte when non-null)
                r = E.strip(ev.get("rhs"))
                if ev.get("op") == "=":
                    found = isinstance(r, dict) and r.get("k") == "call" and r.get("f") in ("strstr", "strchr", "strpbrk") and len(r.get("a", [])) == 2 and (
                        (E.strip(r["a"][1]).get("k") == "str" and E.strip(r["a"][1]).get("v")) or (E.const(r["a"][1]) or 0) > 0)
                    env["%found:" + l["d"]] = 1 if found else 0
    fl = ck.flow(lp, on_event=on_event)

    ck.rule("L1 BUDGET(ftpListParseParts): the token count is only ever set to 0 or incremented, and both the store %s[count] and the increment happen only with count < %d "
            "(the declared array size) established" % (TOK, CAP))
    for st in fl.sites:
        ev = st.ev
        if assigned(ev, N):
            if (ev.get("op") == "=" and E.const(ev.get("rhs")) == 0):
                ck.ok("L1.token-budget", st.where(), "count = 0")
                continue
            lo, hi = ck.interval(st, is_n)
            if ev.get("op") == "++" and hi is not None and hi <= CAP - 1:
                ck.ok("L1.token-budget", st.where(), "++%s only with %s <= %d" % (N, N, hi))
            else:
                ck.violation("L1.token-budget", "L1|ftpListParseParts|count-update", st.where(), "ftpListParseParts changes the token count by '%s' where the guards only give %s <= %s "
                             "(required: constant 0 or ++ below %d)" % (st.desc()[:60], N, hi, CAP), fl.witness(st))
    ck.need(any(assigned(e, N) and e.get("op") == "++" for b in lp.blocks.values() for e in b["ev"]), "C40: the token count is no longer incremented")

    ck.rule("L2 GINT(ftpListParseParts): every subscript of the token array is provably inside [0, count) and count <= %d: a constant c needs c < count established; "
            "the count itself (the fill loop) needs count < %d; a loop index i + k needs i < count - m with k <= m established and a constant initial value v of i "
            "(only ++ afterwards) with v + k >= 0" % (CAP, CAP))
    n_idx = 0
    for st in fl.sites:
        trees = [st.ev.get(k) for k in ("x", "lhs", "rhs", "init")]
        if st.ev.get("e") == "call":
            continue            # sub-expressions are re-listed as part of the statement that uses them
        for n in [n for t in trees for n in E.walk(t) if n.get("k") == "idx" and is_tok(n.get("b"))]:
            n_idx += 1
            verdict(ck, fl, st, n["i"], N, CAP, is_n)
    for b in lp.blocks.values():       # subscripts inside branch conditions
        c = (b.get("term") or {}).get("c")
        sts = [st for st in fl.sites if st.bid == b["id"]]
        for n in [n for n in E.walk(c) if n.get("k") == "idx" and is_tok(n.get("b"))] if c is not None else []:
            ck.need(sts, "C40: a token subscript sits in a condition of a block without events")
            n_idx += 1
            verdict(ck, fl, sts[-1], n["i"], N, CAP, is_n)
    ck.need(n_idx >= 10, "C40: only %d token subscripts found in ftpListParseParts" % n_idx)

    ck.rule("L3 ftpListParseParts: a cursor into the received line (const char * local) is advanced (++, +=) only where it is known not to stand on the terminating NUL: "
            "`*cursor` established true, or the cursor is non-null and was last set by strstr/strchr of a non-empty needle")
    n_adv = 0
    for st in fl.sites:
        ev = st.ev
        l = E.strip(ev.get("lhs")) if ev.get("e") == "asg" else None
        if not (isinstance(l, dict) and l.get("k") == "ref" and l.get("dk") == "local" and (l.get("t") or "").replace(" ", "") == "constchar*" and ev.get("op") in ("++", "+=")):
            continue
        n_adv += 1
        name = l["d"]
        deref = E.M(lambda t, name=name: E.strip(t).get("k") == "un" and E.strip(t).get("op") == "*" and E.m_is_ref(name)(E.strip(t).get("e")), "*%s" % name)
        if st.has(deref, True):
            ck.ok("L3.cursor-not-past-nul", st.where(), "%s advanced only with *%s non-zero" % (name, name))
        elif st.env.get("%found:" + name) == 1 and st.has(E.m_is_ref(name), True):
            ck.ok("L3.cursor-not-past-nul", st.where(), "%s advanced only after a successful strstr/strchr of a non-empty needle" % name)
        else:
            ck.violation("L3.cursor-not-past-nul", "L3|ftpListParseParts|%s|advance-unguarded" % name, st.where(), "ftpListParseParts advances %s by '%s' without *%s being "
                         "known non-zero on every path (facts: %s): on a line that ends here the cursor steps over the terminating NUL and what follows is read as the name"
                         % (name, st.desc()[:40], name, ", ".join(st.fact_keys())[:160]), fl.witness(st))
    ck.need(n_adv >= 3, "C40: expected the three cursor advances of ftpListParseParts, found %d" % n_adv)


def verdict(ck, fl, st, idx, N, CAP, is_n):
    i = E.strip(idx)
    c = E.const(idx)
    lo_n, hi_n = ck.interval(st, is_n)
    if c is not None:
        for f in st.facts:      # i < count - m with i >= v gives count >= v + m + 1
            if f[0] == "A" and f[2] is True:
                t = E.strip(fl.trees[f[1]])
                if isinstance(t, dict) and t.get("k") == "bin" and t.get("op") == "<" and E.strip(t["l"]).get("k") == "ref":
                    v, r, m = st.env.get("%min:" + E.strip(t["l"])["d"]), E.strip(t["r"]), None
                    if is_n(r):
                        m = 0
                    elif isinstance(r, dict) and r.get("k") == "bin" and r.get("op") == "-" and is_n(r["l"]) and E.const(r["r"]) is not None:
                        m = E.const(r["r"])
                    if v is not None and m is not None:
                        lo_n = max(lo_n if lo_n is not None else v + m + 1, v + m + 1)
        good, why = c >= 0 and lo_n is not None and lo_n > c, "constant %d with %s >= %s" % (c, N, lo_n)
    elif is_n(i):
        good, why = hi_n is not None and hi_n <= CAP - 1, "%s itself with %s <= %s" % (N, N, hi_n)
    else:
        k, base = 0, i
        if i.get("k") == "bin" and i.get("op") in ("+", "-") and E.const(i.get("r")) is not None:
            k, base = (E.const(i["r"]) if i["op"] == "+" else -E.const(i["r"])), E.strip(i["l"])
        ck.need(isinstance(base, dict) and base.get("k") == "ref" and base.get("dk") == "local", "C40: token subscript %s has an unrecognised shape" % E.key(idx))
        v = st.env.get("%min:" + base["d"])
        slack = None
        for f in st.facts:
            if f[0] == "A" and f[2] is True:
                t = E.strip(fl.trees[f[1]])
                if isinstance(t, dict) and t.get("k") == "bin" and t.get("op") == "<" and E.m_is_ref(base["d"])(t["l"]):
                    r = E.strip(t["r"])
                    if is_n(r):
                        slack = max(slack or 0, 0)
                    elif isinstance(r, dict) and r.get("k") == "bin" and r.get("op") == "-" and is_n(r["l"]) and E.const(r["r"]) is not None:
                        slack = max(slack or 0, E.const(r["r"]))
        good = v is not None and v + k >= 0 and slack is not None and k <= slack
        why = "%s%+d with %s >= %s and %s < %s - %s" % (base["d"], k, base["d"], v, base["d"], N, slack)
    if good:
        ck.ok("L2.token-index", st.where(), "subscript %s: %s" % (E.key(idx), why))
    else:
        ck.violation("L2.token-index", "L2|ftpListParseParts|%s" % E.key(idx), st.where(), "ftpListParseParts: subscript %s is not provably inside [0, %s): %s" % (E.key(idx), N, why), fl.witness(st))
