"""C40 FTP address replies are parsed strictly: port range clause (DESIGN.md 5/C40)."""
from .. import expr as E
from ..flow import ev_call, ev_return


def run(ck):
    facts = ck.facts(["src/ftp/Parsing.cc"])
    set_port = ev_call("Ip::Address::port", nargs=1)

    ck.rule("F1 GINT(Ftp::ParseProtoIpPort): at addr.port(port) the configuration-independent guards give port in [1,65535]; "
            "port holds the full strtol result (no narrowing before the range check) and the delimiter after it is checked")
    pp = facts.fn("Ftp::ParseProtoIpPort")
    fl = ck.flow(pp)
    ck.require_interval("F1.port-range", fl, set_port, E.m_is_ref("port"), 1, 65535, "addr.port(port)",
                        why="(EPSV/EPRT replies such as |1|h|70000| or |1|h|0| yield a truncated/zero port)")
    decl = [ev for b in pp.blocks.values() for ev in b["ev"] if ev.get("e") == "decl" and ev.get("d") == "port"]
    ck.need(len(decl) == 1, "C40: local 'port' not found in ParseProtoIpPort")
    init = decl[0].get("init") or {}
    narrowed = init.get("k") == "icast" and abs(init.get("iw", 64)) < 64
    src = E.strip(init)
    if isinstance(src, dict) and src.get("f") in ("strtol", "strtoll") and not narrowed:
        ck.ok("F1.no-narrowing", pp.where(decl[0]["l"]), "port keeps the full width of strtol()")
    else:
        ck.violation("F1.no-narrowing", "F1|ParseProtoIpPort|narrowed-before-check", pp.where(decl[0]["l"]),
                     "the strtol() result is narrowed to %s bits before it is range-checked (4294967317 becomes 21)" % abs(init.get("iw", 0)))
    for s in fl.find(set_port):
        x = E.strip(s.ev["x"])
        if not E.m_is_ref("port")(x["a"][0]):
            ck.violation("F1.port-range", "F1|ParseProtoIpPort|port-arg", s.where(), "addr.port() is no longer called with the checked local")

    ck.rule("F2 GINT(Ftp::ParseIpPort): p1,p2 in [0,255], port = (p1 << 8) + p2 and port > 0 at addr.port(port); sscanf must have converted all 6 fields")
    ip = facts.fn("Ftp::ParseIpPort")
    fl = ck.flow(ip)
    ck.require_interval("F2.octets", fl, set_port, E.m_is_ref("p1"), 0, 255, "addr.port(port)")
    ck.require_interval("F2.octets", fl, set_port, E.m_is_ref("p2"), 0, 255, "addr.port(port)")
    ck.require_interval("F2.port-positive", fl, set_port, E.m_is_ref("port"), 1, None, "addr.port(port)")
    ck.require_fact("F2.all-fields", fl, set_port, E.m_cmp("==", E.m_is_ref("n"), E.m_const(6)), True, "addr.port(port)")
    d = ck.local_defs(ip).get("port", [])
    shape = bool(d) and all(E.key(t) == "((p1 << 8) + p2)" for t in d)
    if shape:
        ck.ok("F2.port-shape", ip.where(), "port = (p1 << 8) + p2")
    else:
        ck.violation("F2.port-shape", "F2|ParseIpPort|port-shape", ip.where(), "port is no longer (p1 << 8) + p2: %s" % [E.key(t) for t in d])
    ck.assume("directory-listing parsing (ftpListParseParts) memory safety is not decided by this module")
