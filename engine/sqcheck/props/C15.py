"""C15 Range responses contain exactly the requested bytes: the 206 gate and the range packing arithmetic (DESIGN.md 5/C15)."""
from .. import expr as E
from ..flow import ev_call, ev_return, ev_assign, ev_exit, ev_any

S = "Http::Stream::"
IT = "HttpHdrRangeIter::"


def run(ck):
    facts = ck.facts(["src/http/Stream.cc", "src/client_side_request.cc"], whole=False)
    sc = facts.enum("Http::(anonymous)")            # typedef enum { ... } Http::StatusCode
    ck.need("scOkay" in sc and "scPartialContent" in sc, "C15: Http::StatusCode enumerators not found")
    hdr = facts.enum("Http::HdrType")
    OK200, PARTIAL = sc["scOkay"], sc["scPartialContent"]

    # ------------------------------------------------------------------ the 206 gate
    brh = facts.fn(S + "buildRangeHeader")
    ck.need(len(brh.params) == 1, "C15: buildRangeHeader signature changed")
    rep = brh.params[0]["d"]
    set206 = ev_call("Http::StatusLine::set", arg={1: E.m_const(PARTIAL)})
    ignore = ev_call("HttpRequest::ignoreRange")
    has_hdr = lambda k: E.m_calls("HttpHeader::has") & E.M(lambda t: E.const(E.strip(t)["a"][0]) == k, "(%d)" % k)
    clen = E.m_is_mem("Http::Message::content_length")

    ck.rule("R1 UNREACH Http::Stream::buildRangeHeader (flag local range_err propagated): sline.set(206) is reached only with rep non-null, status 200 (decided per StatusCode enumerator), no Content-Range "
            "header, content_length >= 0 and equal to the stored reply's, canonize(rep) true, isComplex() false, canonize() itself called only with (not a hit | no If-Range | clientIfRangeMatch true), "
            "(a hit | offsetLimitExceeded false), and with range_err still null")
    flags = sorted(n for n, ds in ck.local_defs(brh).items() if len(ds) >= 5 and all(E.strip(d).get("k") in ("str", "null") for d in ds))
    ck.need(len(flags) == 1, "C15: the range_err flag local vanished from buildRangeHeader (%s)" % flags)
    flag = flags[0]
    fl = ck.flow(brh, tracked=[flag])
    gates = [(E.m_is_ref(rep), True, "no reply"),
             (has_hdr(hdr["CONTENT_RANGE"]), False, "the reply already is partial"),
             (E.m_cmp("<", clen, E.m_const(0)), False, "the representation length is unknown"),
             (E.m_cmp("==", clen, clen) & E.m_mentions("MemObject::baseReply"), True, "the length differs from the stored reply"),
             (E.m_calls("HttpHdrRange::canonize"), True, "the ranges were not canonised/satisfiable against this reply"),
             (E.m_calls("HttpHdrRange::isComplex"), False, "overlapping/unordered ranges would be packed")]
    for m, v, why in gates:
        ck.require_fact("R1.206-gate", fl, set206, m, v, "sline.set(206)", why="(%s)" % why)
    for s in ck.sites(fl, set206, "sline.set(206)", 1):
        if s.env.get(flag) == ("c", 0):
            ck.ok("R1.206-gate", s.where(), "sline.set(206) only with %s == nullptr" % flag)
        else:
            ck.violation("R1.206-gate", "R1|buildRangeHeader|206-with-range_err", s.where(), "sline.set(206) reachable with %s = %s" % (flag, s.env.get(flag)), fl.witness(s))
    # status gate by case exclusion: with rep->sline.status() bound to each enumerator K, set(206) must be unreachable unless K == 200
    from .C34 import concrete_flow
    is_status = lambda t: t.get("k") == "call" and t.get("f") == "Http::StatusLine::status"
    reach = set()
    for name, k in sorted(sc.items(), key=lambda kv: kv[1]):
        cfl = concrete_flow(ck, brh, [(is_status, k)], tracked=[flag])
        if cfl.find(set206):
            reach.add(k)
            if k != OK200 and len(reach) <= 4:
                s = cfl.find(set206)[0]
                ck.violation("R1.206-gate", "R1|buildRangeHeader|206-for-status|%s" % name, s.where(), "sline.set(206) is reachable when the reply status is %s (%d)" % (name, k), cfl.witness(s))
    ck.need(OK200 in reach, "C15: sline.set(206) is not reachable for a 200 reply (analysis or code broken)")
    if reach == {OK200}:
        ck.ok("R1.206-gate", brh.where(), "sline.set(206) is reachable only for status 200 (%d status enumerators decided)" % len(sc))
    hit = E.m_calls("LogTags::isTcpHit")
    # isTcpHit() is evaluated again later, so this disjunction is decided where canonize() is called (set(206) requires canonize() true, see above)
    ck.require_any("R1.if-range", brh, ev_call("HttpHdrRange::canonize"), [(hit, False), (has_hdr(hdr["IF_RANGE"]), False), (E.m_calls("clientIfRangeMatch"), True)], "range->canonize(rep)",
                   why="(a hit whose validator does not match If-Range would be answered with a 206 of the wrong representation)", tracked=[flag])
    ck.require_any("R1.offset-limit", brh, set206, [(hit, True), (E.m_calls("HttpHdrRange::offsetLimitExceeded"), False)], "sline.set(206)", tracked=[flag])

    ck.rule("R2 RESPONSE: every exit of buildRangeHeader has passed ignoreRange() or sline.set(206); after set(206) every path passes prepPartialResponseGeneration(), "
            "delById+putInt64(CONTENT_LENGTH, its result) and either httpHeaderAddContRange(hdr, *spec, rep->content_length) under spec_count == 1 or a multipart/byteranges Content-Type")
    ck.require_any("R2.either-or", brh, ev_exit(("ret", "fall")), [("P", "ignoreRange()", ignore), ("P", "sline.set(206)", set206)], "exit", tracked=[flag],
                   why="(the Range request would be neither honoured nor cancelled)")
    prep = "ClientHttpRequest::prepPartialResponseGeneration"
    cl_put = ev_call("HttpHeader::putInt64", arg={0: E.m_const(hdr["CONTENT_LENGTH"]), 1: ck.m_result_of(brh, prep)})
    cl_del = ev_call("HttpHeader::delById", arg={0: E.m_const(hdr["CONTENT_LENGTH"])})
    crange = ev_call("httpHeaderAddContRange", arg={2: clen & E.M(lambda t: E.m_is_ref(rep)(E.strip(t)["b"]), "of rep")})
    ctype = ev_call("httpHeaderPutStrf", arg={1: E.m_const(hdr["CONTENT_TYPE"]), 2: E.M(lambda t: E.strip(t).get("v", "").startswith("multipart/byteranges; boundary="), "multipart/byteranges")})
    ex = ev_exit(("ret", "fall"))
    ck.require_any("R2.partial-headers", brh, ex, [("P", "ignoreRange()", ignore), ("P", "putInt64(CONTENT_LENGTH, prepPartialResponseGeneration())", cl_put)], "exit", tracked=[flag])
    ck.require_any("R2.partial-headers", brh, ex, [("P", "ignoreRange()", ignore), ("P", "delById(CONTENT_LENGTH)", cl_del)], "exit", tracked=[flag])
    ck.require_any("R2.partial-headers", brh, ex, [("P", "ignoreRange()", ignore), ("P", "httpHeaderAddContRange(.., rep->content_length)", crange), ("P", "Content-Type: multipart/byteranges", ctype)],
                   "exit", tracked=[flag], why="(a 206 without Content-Range / multipart framing)")
    one = E.m_cmp("==", ck.m_closure(brh, "HttpHdrRange::specs"), E.m_const(1))
    f2 = ck.flow(brh, tracked=[flag])
    ck.require_fact("R2.single-part", f2, crange, one, True, "httpHeaderAddContRange()", why="(a single Content-Range for a multi-range reply)")
    ck.require_fact("R2.single-part", f2, ctype, one, False, "Content-Type: multipart/byteranges")

    # ------------------------------------------------------------------ packing arithmetic
    ck.rule("R3 ARGS Http::Stream::packRange: mb->append(buf, n) and noteSentBodyBytes(n) use one local n defined exactly by lengthToSend(available), only with n != 0 "
            "established; afterwards available.start += n and buf += n on all paths; the part header is packed only with multipartRangeRequest() and debt()==currentSpec()->length "
            "(start of a part); skipping uses nextOffset - out.offset of getNextRangeOffset()")
    pr = facts.fn(S + "packRange")
    ck.need(len(pr.params) == 2, "C15: packRange signature changed")
    mb = pr.params[1]["d"]
    is_lts = lambda d: E.strip(d).get("k") == "call" and E.strip(d).get("f") == S + "lengthToSend"
    lts = lambda n: (any(is_lts(d) for d in ck.local_defs(pr).get(n["d"], [])) and
                     all(is_lts(d) or E.const(d) == 0 for d in ck.local_defs(pr).get(n["d"], [])))     # lengthToSend(..), possibly after a zero initialisation
    pfl = ck.flow(pr)
    apps = ck.sites(pfl, ev_call("MemBuf::append", obj=E.m_is_ref(mb)), "mb->append()", 1)
    for s in apps:
        a = E.strip(s.ev["x"])["a"]
        n = E.strip(a[1])
        if n.get("k") == "ref" and lts(n) and s.has(E.m_is_ref(n["d"]), True):
            ck.ok("R3.copy-length", s.where(), "packRange appends %s = lengthToSend(available) bytes, only when non-zero" % n["d"])
        else:
            ck.violation("R3.copy-length", "R3|packRange|append-length", s.where(), "packRange appends %s bytes, which is not (a non-zero) lengthToSend(available)" % E.key(a[1]))
            continue
        nm = n["d"]
        src = E.strip(a[0]).get("d")
        avail = {E.strip(E.strip(d)["a"][0]).get("d") for d in ck.local_defs(pr)[nm] if is_lts(d)}
        m2 = {"noted": ev_call(S + "noteSentBodyBytes", arg={0: E.m_is_ref(nm)})}
        fl2 = ck.flow(pr, markers=m2)
        ck.require_passed("R3.copy-length", fl2, ev_call("MemBuf::append", obj=E.m_is_ref(mb)), "noted", "mb->append()", why="(sent bytes would not be accounted against the range debt)")
        ck.need(len(pfl.find(ev_call(S + "noteSentBodyBytes"))) == len(pfl.find(m2["noted"])), "C15: packRange accounts a different byte count than it appends")
        adv_a = lambda ev, avail=avail: (ev.get("e") == "asg" and ev.get("op") == "+=" and E.strip(ev["lhs"]).get("k") == "mem" and E.strip(ev["lhs"])["m"].endswith("::start")
                                         and E.strip(E.strip(ev["lhs"])["b"]).get("d") in avail and E.m_is_ref(nm)(ev["rhs"]))
        adv_b = ev_assign(src, E.m_is_ref(nm), ops=("+=",))
        fl3 = ck.flow(pr, start=s.bid, markers={"available.start += n": adv_a, "buf += n": adv_b})
        nxt_iter = ev_any(ev_exit(("ret", "fall")), ev_call(S + "lengthToSend"))
        for nm2 in ("available.start += n", "buf += n"):
            ck.require_passed("R3.advance", fl3, nxt_iter, nm2, "return|next lengthToSend()", why="(the next part would be copied from the wrong source position)")
    hdrcall = ev_call("clientPackRangeHdr")
    ck.require_fact("R3.part-header", pfl, hdrcall, E.m_calls("ClientHttpRequest::multipartRangeRequest"), True, "clientPackRangeHdr()")
    ck.require_fact("R3.part-header", pfl, hdrcall, E.m_cmp("==", E.m_calls(IT + "debt"), E.m_is_mem("HttpHdrRangeSpec::length")) |
                    E.m_cmp("==", E.m_is_mem("HttpHdrRangeSpec::length"), E.m_calls(IT + "debt")), True, "clientPackRangeHdr()", why="(a part header in the middle of a part)")
    skips = [d for d in ck.local_defs(pr).get("skip", [])]
    nxt = ck.m_result_of(pr, S + "getNextRangeOffset")
    good = len(skips) == 1 and E.strip(skips[0]).get("op") == "-" and nxt(E.strip(skips[0])["l"]) and E.m_is_mem("ClientHttpRequest::Out::offset")(E.strip(skips[0])["r"])
    if good:
        ck.ok("R3.skip", pr.where(), "packRange skips getNextRangeOffset() - out.offset source bytes")
    else:
        ck.violation("R3.skip", "R3|packRange|skip-def", pr.where(), "packRange: skip is no longer getNextRangeOffset() - http->out.offset (%s)" % [E.key(x) for x in skips])

    ck.rule("R4 Http::Stream::lengthToSend: `return maximum` (everything available) only with no Range or debt() == -1 established; the bounded return is "
            "min(range_iter.debt(), maximum) with maximum = available.size(); 0 is returned when available.start < currentSpec()->offset; "
            "noteSentBodyBytes: out.offset += bytes and debt(debt() - bytes) of the same parameter; getNextRangeOffset: start = spec offset + length - debt()")
    lt = facts.fn(S + "lengthToSend")
    avp = lt.params[0]["d"]
    mx = [n for n, ds in ck.local_defs(lt).items() if len(ds) == 1 and E.key(ds[0]) == "%s.size()" % avp]
    ck.need(len(mx) == 1, "C15: lengthToSend no longer computes maximum = available.size()")
    mx = mx[0]
    ck.require_any("R4.unbounded-only-if-open", lt, ev_return(E.m_is_ref(mx)), [(E.m_is_mem("HttpRequest::range"), False), (E.m_cmp("==", E.m_calls(IT + "debt"), E.m_const(-1)), True)],
                   "return maximum", why="(more than the requested range would be sent)")
    lfl = ck.flow(lt)
    n_min = 0
    for s in ck.sites(lfl, ev_return(), "return", 3):
        x = E.strip(s.ev["x"])
        if E.m_is_ref(mx)(x) or E.const(x) == 0:
            continue
        args = [E.key(a) for a in x.get("a", [])] if x.get("k") == "call" and x.get("f", "").split("::")[-1] == "min" else []
        if len(args) == 2 and any(a.endswith("range_iter.debt()") for a in args) and mx in args:
            n_min += 1
            ck.ok("R4.bounded", s.where(), "lengthToSend returns min(debt(), maximum)")
        else:
            ck.violation("R4.bounded", "R4|lengthToSend|return-expr", s.where(), "lengthToSend returns %s, not min(range_iter.debt(), maximum)" % E.key(x))
    ck.need(n_min >= 1, "C15: the min(debt, maximum) return vanished from lengthToSend")
    before = E.M(lambda t: E.strip(t).get("op") == "<" and E.key(E.strip(t)["l"]) == "%s.start" % avp and E.m_is_mem("HttpHdrRangeSpec::offset")(E.strip(t)["r"]), "(available.start < spec offset)")
    ck.require_fact("R4.not-before-range", lfl, ev_return(E.m_calls("min") | E.M(lambda t: E.strip(t).get("f", "").endswith("min"), "min()")), before, False, "return min(..)",
                    why="(bytes preceding the requested range would be sent)")
    ns = facts.fn(S + "noteSentBodyBytes")
    nb = ns.params[0]["d"]
    nfl = ck.flow(ns)
    ck.sites(nfl, ev_assign("ClientHttpRequest::Out::offset", E.m_is_ref(nb), ops=("+=",)), "out.offset += bytes", 1)
    for s in ck.sites(nfl, ev_call(IT + "debt", nargs=1), "range_iter.debt(x)", 1):
        a = E.strip(E.strip(s.ev["x"])["a"][0])
        if a.get("k") == "bin" and a.get("op") == "-" and E.m_calls(IT + "debt")(a["l"]) and E.m_is_ref(nb)(a["r"]):
            ck.ok("R4.debt", s.where(), "noteSentBodyBytes: debt = debt() - bytes")
        else:
            ck.violation("R4.debt", "R4|noteSentBodyBytes|debt-update", s.where(), "noteSentBodyBytes updates the debt with %s" % E.key(a))
    gn = facts.fn(S + "getNextRangeOffset")
    st = [(n, ds) for n, ds in ck.local_defs(gn).items() if any("HttpHdrRangeSpec::offset" in E.mentions(d) and "HttpHdrRangeSpec::length" in E.mentions(d) for d in ds)]
    ck.need(len(st) == 1 and len(st[0][1]) == 1, "C15: getNextRangeOffset no longer computes start from the current spec")
    d = E.strip(st[0][1][0])
    shape = (d.get("op") == "-" and E.m_calls(IT + "debt")(d["r"]) and E.strip(d["l"]).get("op") == "+" and
             {E.strip(E.strip(d["l"])[k]).get("m") for k in ("l", "r")} == {"HttpHdrRangeSpec::offset", "HttpHdrRangeSpec::length"})
    if shape:
        ck.ok("R4.next-offset", gn.where(), "getNextRangeOffset: start = offset + length - debt()")
    else:
        ck.violation("R4.next-offset", "R4|getNextRangeOffset|start-def", gn.where(), "getNextRangeOffset: start = %s" % E.key(d))
    ck.require_fact("R4.next-offset", ck.flow(gn), ev_return(E.m_is_ref(st[0][0])), E.m_is_mem("HttpRequest::range"), True, "return start")
    # ------------------------------------------------------------------ the first body chunk is labelled with its true object offset
    ck.rule("R5 LABEL clientReplyContext::processReplyAccessResult: the StoreIOBuffer handed to clientStreamCallback() describes the bytes it carries: its data pointer is "
            "the received body pointer itself (bytes from object offset .offset = 0), or, if it is advanced by some amount, its .offset member is set to that same amount "
            "on every path. Http::Stream decides what to send from bodyData.range(); a chunk advanced to the lowest requested offset but labelled 0 is harmless only "
            "while the Range stays in force and becomes the start of a 200 body when buildRangeHeader() ignores the Range (If-Range mismatch, too complex range set)")
    crf = ck.facts(["src/client_side_reply.cc"], whole=False)
    pra = crf.fn("clientReplyContext::processReplyAccessResult")
    pfl = ck.flow(pra)
    cb = ck.sites(pfl, ev_call("clientStreamCallback"), "clientStreamCallback()", 1)
    bufs = sorted({E.strip(E.strip(st.ev["x"])["a"][3]).get("d") for st in cb if len(E.strip(st.ev["x"]).get("a", [])) == 4})
    ck.need(len(bufs) == 1 and bufs[0], "C15: processReplyAccessResult no longer passes one local StoreIOBuffer to clientStreamCallback: %s" % bufs)
    lb = bufs[0]
    is_member = lambda lhs, m: E.strip(lhs).get("k") == "mem" and E.strip(lhs)["m"] == "StoreIOBuffer::" + m and E.m_is_ref(lb)(E.strip(lhs).get("b"))
    ndata = 0
    for b in pra.blocks.values():
        for ev in b["ev"]:
            if ev.get("e") != "asg" or not is_member(ev.get("lhs"), "data"):
                continue
            ndata += 1
            rhs = E.strip(ev.get("rhs"))
            if rhs.get("k") in ("ref", "null") or (rhs.get("k") == "mem"):
                ck.ok("R5.chunk-label", pra.where(ev["l"]), "data = %s (bytes from offset 0 of what was received)" % E.key(rhs))
                continue
            adv = None
            if rhs.get("k") == "bin" and rhs.get("op") == "+":
                adv = rhs["r"] if E.strip(rhs["l"]).get("k") == "ref" else rhs["l"]
            same_block = adv is not None and any(E.ckey(e2.get("rhs")) == E.ckey(adv) for e2 in b["ev"] if e2.get("e") == "asg" and is_member(e2.get("lhs"), "offset"))
            if same_block:
                ck.ok("R5.chunk-label", pra.where(ev["l"]), "data advanced by %s and .offset set to the same amount" % E.key(adv))
            else:
                ck.violation("R5.chunk-label", "R5|processReplyAccessResult|advanced-chunk-labelled-0", pra.where(ev["l"]),
                             "the first body chunk is advanced (%s) but still labelled as starting at object offset 0: when Http::Stream::buildRangeHeader() later ignores the "
                             "Range (If-Range mismatch, out-of-order or too complex set), a 200 response with the full Content-Length starts with the bytes at the lowest "
                             "requested offset" % E.key(rhs))
    ck.need(ndata >= 1, "C15: processReplyAccessResult no longer sets the chunk's data pointer")

    ck.assume("the bytes actually delivered are not compared with the representation; HttpHdrRange::canonize (C28) and the store offsets requested upstream are not analysed; "
              "Squid never generates 416 itself (an unsatisfiable Range falls back to the full 200)")
