"""C01 Response bodies: completeness clause — a shortened body is never presented as complete (DESIGN.md 5/C01)."""
from .. import expr as E
from ..flow import ev_call, ev_return, ev_exit, ev_assign, ev_any

H = "HttpStateData::"


def run(ck):
    facts = ck.facts(["src/http.cc", "src/clients/Client.cc", "src/FwdState.cc", "src/store.cc", "src/client_side_reply.cc", "src/http/Stream.cc"], whole=True)
    mark_whole = ev_call("Client::markParsedVirginReplyAsWhole")
    mark_fail = ev_call(H + "markPrematureReplyBodyEofFailure")

    ck.rule("R1 HttpStateData::writeReplyBody (flag local parsedWhole propagated): markParsedVirginReplyAsWhole only with parsedWhole set, which is set only under "
            "(!expectingBody) | (clen >= 0 && clen == payloadSeen - payloadTruncated) | (clen < 0 && eof); every path ends in mark-whole, mark-premature-EOF, or with eof false")
    wr = facts.fn(H + "writeReplyBody")
    fl = ck.flow(wr, tracked=["parsedWhole"], markers={"whole": mark_whole, "fail": mark_fail}, track_markers=["whole", "fail"], track_atoms={"eof": E.m_is_mem("eof")}, track_history=True)
    for s in ck.sites(fl, mark_whole, "markParsedVirginReplyAsWhole()", 1):
        if s.env.get("parsedWhole") == "NZ" and E.m_is_ref("parsedWhole")(E.strip(s.ev["x"])["a"][0]):
            ck.ok("R1.whole-needs-reason", s.where(), "marked whole only with a reason established on this path")
        else:
            ck.violation("R1.whole-needs-reason", "R1|writeReplyBody|whole-without-reason", s.where(), "the virgin reply can be marked whole without parsedWhole being set (%s)" % s.env.get("parsedWhole"))
    exp = E.m_calls("Http::Message::expectingBody") | E.m_calls("HttpReply::expectingBody")
    got_all = E.m_cmp("==", E.m_is_ref("clen"),
                      E.M(lambda t: E.strip(t).get("op") == "-" and E.m_is_mem("payloadSeen")(E.strip(t)["l"]) and E.m_is_mem("payloadTruncated")(E.strip(t)["r"]), "payloadSeen - payloadTruncated"))
    sets = ck.sites(fl, lambda ev: ev.get("e") == "asg" and E.m_is_ref("parsedWhole")(ev.get("lhs")) and E.strip(ev.get("rhs")).get("k") == "str", "parsedWhole = <reason>", 3)
    for s in sets:
        r = E.strip(s.ev["rhs"])["v"]
        a = s.has(exp, False)
        b = s.has(got_all, True) and s.has(E.m_cmp("<", E.m_is_ref("clen"), E.m_const(0)), False)
        c = s.has(E.m_cmp("<", E.m_is_ref("clen"), E.m_const(0)), True) and s.has(E.m_is_mem("eof"), True)
        if a or b or c:
            ck.ok("R1.reason-is-justified", s.where(), "'%s' is set under %s" % (r, "no body expected" if a else ("all Content-Length bytes seen" if b else "close-delimited body and EOF")))
        else:
            ck.violation("R1.reason-is-justified", "R1|writeReplyBody|unjustified-reason", s.where(),
                         "parsedWhole = '%s' is reachable without any of the three completeness conditions (facts: %s)" % (r, s.fact_keys()), fl.witness(s))
    for s in ck.sites(fl, ev_exit(), "return", 1):
        if s.passed("whole") or s.passed("fail") or s.tracked("eof") is False:
            ck.ok("R1.eof-is-accounted", s.where(), "exit after mark-whole, mark-premature-EOF, or without EOF")
        else:
            ck.violation("R1.eof-is-accounted", "R1|writeReplyBody|silent-eof", s.where(), "writeReplyBody can return at EOF with the reply neither marked whole nor failed", fl.witness(s))

    ck.rule("R2 decodeAndWriteReplyBody: marked whole only if httpChunkDecoder->parse() said done (the last-chunk was seen); otherwise EOF is a premature-EOF failure")
    dw = facts.fn(H + "decodeAndWriteReplyBody")
    done = ck.m_result_of(dw, "Http::One::TeChunkedParser::parse")
    fl = ck.flow(dw)
    ck.require_fact("R2.last-chunk-seen", fl, mark_whole, done, True, "markParsedVirginReplyAsWhole()", why="(a chunked body cut before the last-chunk would be stored as complete)")
    ck.require_response("R2.premature-eof", dw, E.m_is_mem("eof"), True, mark_fail, "markPrematureReplyBodyEofFailure()", term_kinds=("IfStmt",))

    ck.rule("R3 WHO chain: markParsedVirginReplyAsWhole callers; storedWholeReply_ is written only by markStoredReplyAsWhole/ctor/reset; markStoredReplyAsWhole is called by "
            "completeForwarding only with a non-null reason (virgin mark or receivedWholeAdaptedReply) and by the whois client; StoreEntry::completeSuccessfully callers are the confirmed set")
    ck.who_calls("R3.who-marks-virgin-whole", facts, "Client::markParsedVirginReplyAsWhole",
                 {H + "writeReplyBody": "R1", H + "decodeAndWriteReplyBody": "R2", "ftpReadTransferDone": "FTP 226/250", "ftpWriteTransferDone": "FTP 226/250",
                  "Ftp::Relay::forwardReply": "control replies are forwarded whole", "Ftp::Relay::readTransferDoneReply": "FTP 226/250"}, min_callers=4, kinds=("call",))
    ck.who_writes("R3.who-writes-stored-whole", facts, "FwdState::storedWholeReply_",
                  {"FwdState::FwdState": "init null", "FwdState::markStoredReplyAsWhole": "the only setter", "FwdState::complete": "reset to null before re-forwarding"}, min_writers=2)
    for (n, f, l, op, cv) in facts.writers("FwdState::storedWholeReply_"):
        if n in ("FwdState::FwdState", "FwdState::complete") and cv not in (0, None):
            ck.violation("R3.who-writes-stored-whole", "R3|%s|nonnull" % n, "src/FwdState.cc:%d" % l, "%s writes a non-null storedWholeReply_" % n)
    ck.who_calls("R3.who-marks-stored-whole", facts, "FwdState::markStoredReplyAsWhole",
                 {"Client::completeForwarding": "guarded by a non-null reason", "WhoisState::readReply": "whois reply ends at EOF by protocol definition"}, min_callers=2, kinds=("call",))
    cf = facts.fn("Client::completeForwarding")
    fl = ck.flow(cf, tracked=["storedWholeReply"])
    for s in ck.sites(fl, ev_call("FwdState::markStoredReplyAsWhole"), "markStoredReplyAsWhole()", 1):
        if s.has(E.m_is_ref("storedWholeReply"), True) and E.m_is_ref("storedWholeReply")(E.strip(s.ev["x"])["a"][0]):
            ck.ok("R3.complete-forwarding", s.where(), "stored-whole mark is forwarded only with a non-null reason")
        else:
            ck.violation("R3.complete-forwarding", "R3|completeForwarding|null-reason", s.where(), "completeForwarding can mark the stored reply whole without a reason")
    defs = ck.local_defs(cf).get("storedWholeReply", [])
    okd = all((E.m_is_mem("markedParsedVirginReplyAsWhole")(t)) or (E.strip(t).get("k") == "cond" and E.m_is_mem("receivedWholeAdaptedReply")(E.strip(t)["c"]) and E.strip(E.strip(t)["f"]).get("k") == "null") for t in defs)
    if defs and okd:
        ck.ok("R3.complete-forwarding", cf.where(), "the reason is the virgin mark or (adapted) receivedWholeAdaptedReply ? reason : null")
    else:
        ck.violation("R3.complete-forwarding", "R3|completeForwarding|reason-source", cf.where(), "storedWholeReply has an unexpected definition: %s" % [E.key(t)[:80] for t in defs])
    fc = facts.fn("FwdState::completed")
    fl = ck.flow(fc)
    ck.require_fact("R3.fwd-completes-by-mark", fl, ev_call("StoreEntry::completeSuccessfully"), E.m_is_mem("storedWholeReply_"), True, "completeSuccessfully()",
                    why="(a reply that was not marked whole would become STORE_OK with a good length)")
    ck.require_response("R3.fwd-truncates-otherwise", fc, E.m_is_mem("storedWholeReply_"), False, ev_call("StoreEntry::completeTruncated"), "completeTruncated()", term_kinds=("IfStmt",))
    ck.who_calls("R3.who-completes-successfully", facts, "StoreEntry::completeSuccessfully",
                 {"FwdState::completed": "only with storedWholeReply_ (R3)", "StoreEntry::storeErrorResponse": "squid-generated error page, stored whole",
                  "StoreEntry::adjustVary": "squid-generated Vary marker object", "clientReplyContext::traceReply": "squid-generated TRACE reply",
                  "ClientHttpRequest::endRequestSatisfaction": "REQMOD request satisfaction: only with receivedWholeAdaptedReply (checked below)"},
                 min_callers=3, kinds=("call",), why="(a new producer can declare a stored reply complete)")
    ck.who_calls("R3.who-completes-legacy", facts, "StoreEntry::complete",
                 {"StoreEntry::completeSuccessfully": "wrapper", "StoreEntry::completeTruncated": "wrapper (sets ENTRY_BAD_LENGTH first)",
                  "CacheManager::start": "generated", "ClientHttpRequest::handleAdaptedHeader": "generated (adaptation without body)", "Mgr::Action::fillEntry": "generated",
                  "Mgr::Forwarder::sendError": "generated", "MimeIcon::load": "icon file loaded whole", "clientReplyContext::processMiss": "generated redirect",
                  "clientReplyContext::purgeDoPurge": "generated", "clientReplyContext::sendNotModified": "generated 304", "internalStart": "generated", "netdbBinaryExchange": "generated",
                  "statObjects": "generated", "urnHandleReply": "generated"}, min_callers=5, kinds=("call",), why="(a new producer can complete a store entry)")
    ck.rule("R3c verdict is per attempt: whenever FwdState starts another forwarding attempt for the same entry (FwdState::complete with reforward() true, where the "
            "stored reply is discarded by entry->reset()), storedWholeReply_ is cleared on every path before the next attempt (useDestinations()) is started, so that a "
            "'whole' verdict about a discarded 502/504 cannot complete the retry's truncated reply; every StoreEntry::reset() call in FwdState passes that clearing")
    cpl = facts.fn("FwdState::complete")
    clear = ev_assign("FwdState::storedWholeReply_", E.M(lambda t: E.strip(t).get("k") == "null" or E.const(t) == 0, "nullptr"))
    ck.require_response("R3c.reforward-clears-verdict", cpl, E.m_calls("FwdState::reforward"), True, clear, "storedWholeReply_ = nullptr",
                        until=ev_call("FwdState::useDestinations"), term_kinds=("IfStmt",),
                        why="(a retried transaction would inherit the previous attempt's 'stored whole' verdict and present a truncated chunked reply as complete)")
    nreset = 0
    is_reset = ev_call("StoreEntry::reset")
    for f in facts.all_fns(lambda f: f.name.startswith("FwdState::")):
        if not any(is_reset(ev) for b in f.blocks.values() for ev in b["ev"]):
            continue
        nreset += 1
        fl2 = ck.flow(f, markers={"reset": is_reset, "cleared": clear}, track_markers=["reset", "cleared"])
        bad = [st for st in fl2.find(ev_exit(("ret", "fall"))) if st.env.get("#reset") == 1 and st.env.get("#cleared") != 1]
        if not bad:
            ck.ok("R3c.reset-clears-verdict", f.where(), "%s: every path through entry->reset() also clears storedWholeReply_" % f.name)
        for st in bad[:1]:
            ck.violation("R3c.reset-clears-verdict", "R3c|%s|reset-without-clear" % f.name, st.where(),
                         "%s discards the stored reply (entry->reset()) on a path that keeps the 'stored whole reply' verdict of the discarded reply" % f.name, fl2.witness(st))
    ck.need(nreset >= 1, "C01: FwdState no longer calls StoreEntry::reset()")
    ck.rule("R4 clientReplyContext::replyStatus: STREAM_COMPLETE only with the entry not ABORTED, not ENTRY_BAD_LENGTH, checkTransferDone() non-zero and "
            "(no known body size | gotEnough()); checkTransferDone returns 0 while a chunked reply has not sent its last-chunk")
    rs = facts.fn("clientReplyContext::replyStatus")
    fl = ck.flow(rs)
    complete = lambda ev: ev.get("e") == "ret" and E.key(ev.get("x")).endswith("STREAM_COMPLETE")
    ss = ck.sites(fl, complete, "return STREAM_COMPLETE", 1)
    for s in ss:
        facts_ok = s.has(E.m_is_ref("done"), True) or s.has(E.M(lambda t: "done" in E.mentions(t) and "clientReplyContext::checkTransferDone" in E.mentions(t), "done = checkTransferDone()"), True)
        flags = [f for f in s.fact_keys()]
        aborted_f = any("ENTRY_ABORTED" in k and k.endswith("=F") for k in flags) or any("& 1)" in k for k in flags)
        if s.has(E.m_is_ref("done"), True):
            ck.ok("R4.complete-needs-done", s.where(), "STREAM_COMPLETE only with done != 0")
        else:
            ck.violation("R4.complete-needs-done", "R4|replyStatus|complete-without-done", s.where(), "STREAM_COMPLETE reachable with done == 0 (facts %s)" % flags)
    ck.require_any("R4.complete-needs-enough", rs, complete, [(E.m_calls("ClientHttpRequest::gotEnough"), True), (E.m_cmp("<", E.m_is_ref("expectedBodySize"), E.m_const(0)), True)], "return STREAM_COMPLETE",
                   why="(a reply shorter than its declared length would end as a normal, reusable transaction)")
    flagbit = lambda name: E.M(lambda t, name=name: name in " ".join(E.mentions(t)) or any(n.get("dk") == "enum" and n.get("d", "").endswith(name) for n in E.walk(t)), name)
    ck.require_fact("R4.bad-length-not-complete", fl, complete, flagbit("ENTRY_BAD_LENGTH"), False, "return STREAM_COMPLETE", why="(a truncated stored reply would end as complete)")
    ck.require_fact("R4.aborted-not-complete", fl, complete, flagbit("ENTRY_ABORTED"), False, "return STREAM_COMPLETE")
    ct = facts.fn("clientReplyContext::checkTransferDone")
    flc = ck.flow(ct)
    unsent = E.m_is_mem("chunkedReply")
    ck.require_response("R4.chunked-needs-last-chunk", ct, unsent, True, ev_return(E.m_const(0)), "return 0", term_kinds=None, until=None) if False else None
    nz = lambda ev: ev.get("e") == "ret" and E.const(ev.get("x")) != 0
    ck.require_any("R4.chunked-needs-last-chunk", ct, lambda ev: ev.get("e") == "ret" and (E.const(ev.get("x")) is None or E.const(ev.get("x")) != 0) and "done_copying" not in str(ev),
                   [(E.m_is_mem("chunkedReply"), False), (E.m_is_mem("complete"), True), (E.m_is_mem("done_copying"), True)], "non-zero return",
                   why="(a chunked client reply would be considered done before its last-chunk)")

    ck.rule("R5 Http::Stream::writeComplete: finished()/kick() (connection reuse) only under STREAM_COMPLETE; UNPLANNED_COMPLETE and FAILED always initiateClose(); "
            "packChunk writes the same length in the chunk-size line, the data append and noteSentBodyBytes")
    wc = facts.fn("Http::Stream::writeComplete")
    cs = facts.enum_with("STREAM_UNPLANNED_COMPLETE")
    for nm in ("STREAM_UNPLANNED_COMPLETE", "STREAM_FAILED"):
        ck.need(nm in cs, "C01: %s vanished" % nm)
        fl = ck.flow(wc, switch_assume=lambda cond, v=cs[nm]: v if "Http::Stream::socketState" in E.mentions(cond) else None, markers={"close": ev_call("Http::Stream::initiateClose")})
        ck.require_unreachable("R5.no-reuse-after-short-reply", fl, ev_any(ev_call("Http::Stream::finished"), ev_call("ConnStateData::kick")), "finished()/kick()", "socketState()==%s" % nm,
                               why="(the connection would be reused after an incomplete reply)")
        ck.require_passed("R5.close-after-short-reply", fl, ev_exit(), "close", "return under %s" % nm)
    pc = facts.fn("Http::Stream::packChunk")
    evs = [ev for b in pc.blocks.values() for ev in b["ev"]]
    from ..flow import ev_call_short
    sizes = [E.key(E.strip(ev["x"])["a"][-1]) for ev in evs if ev_call_short("appendf")(ev)]
    datas = [E.key(E.strip(ev["x"])["a"][1]) for ev in evs if ev_call_short("append")(ev) and not E.strip(E.strip(ev["x"])["a"][0]).get("k") == "str"]
    notes = [E.key(E.strip(ev["x"])["a"][0]) for ev in evs if ev_call("Http::Stream::noteSentBodyBytes")(ev)]
    if sizes and datas and notes and len(set(sizes + datas + notes)) == 1:
        ck.ok("R5.chunk-length-consistent", pc.where(), "chunk-size line, data length and sent-bytes accounting all use '%s'" % sizes[0])
    else:
        ck.violation("R5.chunk-length-consistent", "R5|packChunk|lengths", pc.where(), "packChunk uses different lengths: size line %s, data %s, accounting %s" % (sizes, datas, notes))
    ck.rule("R6 SIBLING framing of body bytes in Http::Stream: sendBody() sends raw bytes only with flags.chunkedReply false (and otherwise packChunk()); the body bytes "
            "that arrive together with the headers (disk hits) go through sendStartOfMessage(), which must make the same distinction: a raw append of bodyData "
            "is reached only with flags.chunkedReply established false. Otherwise a reply announced as chunked starts with unframed bytes")
    hs = ck.facts(["src/http/Stream.cc"], whole=False)
    chunked = E.m_is_mem("chunkedReply")
    nraw = 0
    for fname in ("Http::Stream::sendStartOfMessage", "Http::Stream::sendBody"):
        f = hs.fn(fname)
        ck.need(f.params, "C01: %s lost its parameters" % fname)
        BODY = f.params[-1]["d"]
        raw = lambda ev, BODY=BODY: ev.get("e") == "call" and E.strip(ev["x"]).get("f", "").split("::")[-1] in ("append", "write") and \
            any(BODY in E.mentions(a) and any(n.get("k") == "mem" and n.get("m", "").endswith("::data") for n in E.walk(a)) for a in E.strip(ev["x"]).get("a", []))
        fl6 = ck.flow(f)
        for st in fl6.find(raw):
            nraw += 1
            if st.has(chunked, False):
                ck.ok("R6.body-framing-agrees", st.where(), "%s: raw body bytes only with flags.chunkedReply false" % fname)
            else:
                ck.violation("R6.body-framing-agrees", "R6|%s|raw-body-when-chunked" % fname, st.where(), "%s sends %s.data raw although flags.chunkedReply was not established "
                             "false on the path: the reply is announced as chunked (and the rest of the body is chunked by sendBody()) but these bytes are unframed" % (fname, BODY), fl6.witness(st))
    ck.need(nraw >= 2, "C01: expected the raw body writes of sendStartOfMessage() and sendBody(), found %d" % nraw)

    ck.rule("R7 clientReplyContext::sendMoreData: what the client-stream buffer holds is recorded (noteStreamBufferredBytes(result)) on every path before the bytes are pushed "
            "or the reply is prepared -- also for a zero-length result: processReplyAccessResult() later sends lastStreamBufferedBytes after the headers, and a stale "
            "record (the body bytes a revalidated disk hit had buffered) is sent in front of the new reply's body")
    csr = ck.facts(["src/client_side_reply.cc"], whole=False)
    smd = csr.fn("clientReplyContext::sendMoreData")
    note = ev_call("clientReplyContext::noteStreamBufferredBytes")
    uses = lambda ev: ev.get("e") == "call" and E.strip(ev["x"]).get("f", "") in ("clientReplyContext::pushStreamData", "clientReplyContext::processReplyAccess", "clientReplyContext::cloneReply")
    ck.require_passed("R7.stream-buffer-recorded", ck.flow(smd, markers={"noted": note}), uses, "noted", "pushStreamData()|cloneReply()|processReplyAccess()", min_sites=2,
                      why="(bytes recorded for an earlier store read would be sent as the start of this reply's body)")

    ck.assume("byte equality, segmentation independence and cache interplay are not decided; only the gates that keep a shortened body from being presented as complete")
