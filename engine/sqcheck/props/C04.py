"""C04 Hop-by-hop and proxy credential headers are not relayed (DESIGN.md section 5, C04)."""
from .. import expr as E
from ..flow import ev_call, ev_exit, ev_any, ev_assign

HOP_REQ = ["CONNECTION", "TE", "KEEP_ALIVE", "PROXY_AUTHENTICATE", "TRAILER", "TRANSFER_ENCODING", "UPGRADE", "PROXY_CONNECTION"]
HOP_TABLE = {"Connection", "Keep-Alive", "Proxy-Authorization", "Proxy-Connection", "TE", "Trailer", "Transfer-Encoding", "Upgrade"}

# ids that httpBuildRequestHeader itself may emit, with the reason
BUILD_ALLOWED = {
    "IF_MODIFIED_SINCE": "squid's own revalidation validator",
    "IF_NONE_MATCH": "squid's own revalidation validator",
    "VIA": "squid appends itself",
    "SURROGATE_CAPABILITY": "surrogate id",
    "X_FORWARDED_FOR": "forwarded_for handling",
    "HOST": "derived from the request URI",
    "CONNECTION": "squid's own hop connection option",
    "FRONT_END_HTTPS": "peer option",
    "TRANSFER_ENCODING": "only the literal 'chunked' when squid re-chunks",
    "AUTHORIZATION": "peer login",
    "PROXY_AUTHORIZATION": "credentials for the *next* proxy generated from peer login= configuration (httpFixupAuthentication), not the client's header",
    "CACHE_CONTROL": "regenerated cache-control",
    "UPGRADE": "filtered by http_upgrade_request_protocols",
}

MUTATORS = {"HttpHeader::addEntry", "HttpHeader::putStr", "HttpHeader::putInt", "HttpHeader::putInt64", "HttpHeader::putTime",
            "HttpHeader::putExt", "HttpHeader::putCc", "HttpHeader::putAuth", "HttpHeader::putRange", "HttpHeader::putSc",
            "HttpHeader::putContRange", "HttpHeader::insertEntry", "HttpHeader::append", "HttpHeader::update", "HttpHeader::addVia"}


def is_mutator(ev):
    if ev.get("e") != "call":
        return False
    x = E.strip(ev.get("x"))
    return isinstance(x, dict) and x.get("f") in MUTATORS


def run(ck):
    facts = ck.facts(["src/http.cc", "src/HttpHeader.cc", "src/client_side_reply.cc", "src/http/RegisteredHeaders.cc"], whole=True)
    hdr = facts.enum("Http::HdrType")
    copy1 = facts.fn("copyOneHeaderFromClientsideRequestToUpstreamRequest")

    # --- the switch must dispatch on the entry's id
    sw = [b for b in copy1.blocks.values() if b.get("term", {}).get("k") == "SwitchStmt"]
    ck.need(len(sw) == 1, "C04: expected exactly one switch in copyOneHeader..., found %d" % len(sw))
    ck.need("HttpHeaderEntry::id" in E.mentions(sw[0]["term"]["c"]), "C04: the header filter no longer switches on HttpHeaderEntry::id")
    on_id = lambda K: (lambda cond: K if "HttpHeaderEntry::id" in E.mentions(cond) else None)

    ck.rule("R1 UNREACH(copyOneHeaderFromClientsideRequestToUpstreamRequest, case K -> any HttpHeader mutator) for K in %s" % HOP_REQ)
    for name in HOP_REQ:
        ck.need(name in hdr, "C04: enumerator Http::HdrType::%s vanished" % name)
        fl = ck.flow(copy1, switch_assume=on_id(hdr[name]))
        ck.require_unreachable("R1.case-excluded", fl, is_mutator, "header-mutator", "e->id==%s" % name,
                               why="(a hop-by-hop request header would be copied upstream)")

    ck.rule("R1b from case PROXY_AUTHORIZATION addEntry only with !flags.toOrigin and a peer_login test established")
    fl = ck.flow(copy1, switch_assume=on_id(hdr["PROXY_AUTHORIZATION"]))
    ck.require_fact("R1b.proxy-auth-gate", fl, is_mutator, E.m_mentions("Http::StateFlags::toOrigin"), False, "mutator-under-PROXY_AUTHORIZATION",
                    why="(client proxy credentials would reach an origin)")
    ck.require_fact("R1b.proxy-auth-gate", fl, is_mutator, E.m_is_mem("HttpRequest::peer_login"), True, "mutator-under-PROXY_AUTHORIZATION")

    ck.rule("R1c default branch: addEntry only when strListIsMember(&strConnection, e->name) is false (Connection-listed names dropped)")
    ck.require_any("R1c.connection-listed", copy1, is_mutator,
                        [(E.m_calls("strListIsMember") & E.m_mentions("strConnection", "HttpHeaderEntry::name"), False),
                         (E.m_cmp("<", E.m_const(0), E.m_calls("String::size") & E.m_mentions("strConnection")), False)],
                   "mutator-in-default", why="(a header named in Connection: would be forwarded)", switch_assume=on_id(-99999))

    # --- who calls the filter, and what else the builder emits
    ck.rule("R2 WHO(copyOneHeader...) = {HttpStateData::httpBuildRequestHeader}; every other header id emitted by the builder is in the confirmed table")
    ck.who_calls("R2.who-calls-filter", facts, "copyOneHeaderFromClientsideRequestToUpstreamRequest",
                 {"HttpStateData::httpBuildRequestHeader": "the only request-header builder"})
    inv = {v: k for k, v in hdr.items()}
    for fname in ("HttpStateData::httpBuildRequestHeader", "HttpStateData::forwardUpgrade", "httpFixupAuthentication"):
        fn = facts.fn(fname)
        fl = ck.flow(fn)
        n = 0
        for s in fl.find(is_mutator):
            x = E.strip(s.ev["x"])
            args = x.get("a", [])
            ident = None
            lit = None
            if x["f"] == "HttpHeader::addEntry" and args:
                a0 = E.strip(args[0])
                if isinstance(a0, dict) and a0.get("k") == "new" and a0.get("a"):
                    ident = E.const(a0["a"][0])
                elif "HttpHeaderEntry::clone" in E.mentions(a0):
                    ck.violation("R2.builder-emits", "R2|%s|clone-outside-filter" % fname, s.where(),
                                 "%s copies a received entry verbatim (%s) outside the per-header filter" % (fname, s.desc()))
                    continue
            elif x["f"] in ("HttpHeader::putCc",):
                ident = hdr["CACHE_CONTROL"]
            elif x["f"] in ("HttpHeader::addVia",):
                ident = hdr["VIA"]
            elif args:
                ident = E.const(args[0])
                a0 = E.strip(args[0])
                if ident is None and isinstance(a0, dict) and a0.get("k") == "ref" and a0.get("dk") == "local":
                    # id chosen by a local defined from enumerators only: all alternatives must be allowed
                    alts = set()
                    for d in fl.find(lambda ev: ev.get("e") == "decl" and ev.get("d") == a0["d"]):
                        for n_ in E.walk(d.ev.get("init")):
                            if n_.get("k") == "ref" and n_.get("dk") == "enum" and "v" in n_:
                                alts.add(n_["v"])
                    bad = [inv.get(v, v) for v in alts if inv.get(v) not in BUILD_ALLOWED]
                    if alts and not bad:
                        n += 1
                        ck.ok("R2.builder-emits", s.where(), "%s emits one of %s (confirmed table)" % (fname, sorted(inv[v] for v in alts)))
                        continue
                if len(args) > 1 and E.strip(args[1]).get("k") == "str":
                    lit = E.strip(args[1])["v"]
            nm = inv.get(ident)
            n += 1
            if nm is None:
                ck.violation("R2.builder-emits", "R2|%s|unknown-id|%s" % (fname, E.key(x)[:60]), s.where(), "%s emits a header whose id is not a constant: %s" % (fname, s.desc()))
            elif nm not in BUILD_ALLOWED:
                ck.violation("R2.builder-emits", "R2|%s|emits|%s" % (fname, nm), s.where(), "%s emits %s which is not in the confirmed table" % (fname, nm))
            elif nm == "TRANSFER_ENCODING" and lit != "chunked":
                ck.violation("R2.builder-emits", "R2|%s|TE-not-chunked" % fname, s.where(), "%s emits Transfer-Encoding with a value other than the literal \"chunked\"" % fname)
            elif nm == "TRANSFER_ENCODING" and not s.has(E.m_mentions("Http::StateFlags::chunked_request"), True):
                ck.violation("R2.builder-emits", "R2|%s|TE-unguarded" % fname, s.where(), "%s emits Transfer-Encoding: chunked without flags.chunked_request established" % fname)
            else:
                ck.ok("R2.builder-emits", s.where(), "%s emits %s (%s)" % (fname, nm, BUILD_ALLOWED[nm]))
        ck.need(n >= 1, "C04: no header emission found in %s" % fname)

    # --- response side
    ck.rule("R3 ORDER(clientReplyContext::buildReplyHeader): removeHopByHopEntries() on every path to return; "
            "delById(PROXY_AUTHENTICATE) on every path except peer_login PASS/PASSTHRU and REQMOD request satisfaction")
    brh = facts.fn("clientReplyContext::buildReplyHeader")
    fl = ck.flow(brh,
                 markers={"hbh": ev_call("HttpHeader::removeHopByHopEntries"),
                          "delPA": ev_call("HttpHeader::delById", arg={0: E.m_const(hdr["PROXY_AUTHENTICATE"])})},
                 track_markers=["delPA"],
                 track_atoms={"peer_login": E.m_is_mem("HttpRequest::peer_login"),
                              "satisfaction": E.m_calls("ClientHttpRequest::requestSatisfactionMode")})
    ck.require_passed("R3.reply-hop-by-hop", fl, ev_exit(), "hbh", "return", why="(hop-by-hop response headers would reach the client)")
    ck.require_any_fact("R3.reply-proxy-authenticate", fl, ev_exit(),
                        [("P", "delPA"), ("T", "peer_login", True), ("T", "satisfaction", True)], "return",
                        why="(Proxy-Authenticate from upstream would be relayed)")

    ck.rule("R3c 1xx control messages never pass through buildReplyHeader(): Http::One::Server::writeControlMsgAndCall is their own enforcement site -- the message is "
            "written (Comm::Write) only after rep->header.removeHopByHopEntries() on every path, whatever the status code (a 101 keeps only the Upgrade it re-adds)")
    h1 = ck.facts(["src/servers/Http1Server.cc"], whole=False)
    wcm = h1.fn("Http::One::Server::writeControlMsgAndCall")
    ck.require_passed("R3c.control-msg-hop-by-hop", ck.flow(wcm, markers={"hbh": ev_call("HttpHeader::removeHopByHopEntries")}), ev_call("Comm::Write"), "hbh", "Comm::Write(control message)",
                      why="(the origin's Connection-listed and hop-by-hop fields of a 1xx would reach the client)")
    ck.rule("R3d the PASS/PASSTHRU exception of R3 trusts HttpRequest::peer_login, which only prepForPeering()/prepForDirect() set: FwdState::dispatch() runs once per "
            "attempt, so every protocol start in it (httpStart, Ftp::StartRelay/StartGateway, whoisStart) is reached only after one of the two on that path. A direct "
            "attempt that follows a failed attempt through a login=PASS peer would otherwise keep the peer's setting and relay the origin's Proxy-Authenticate")
    fw = ck.facts(["src/FwdState.cc"], whole=False)
    dsp = fw.fn("FwdState::dispatch")
    starts = ev_call({"httpStart", "Ftp::StartRelay", "Ftp::StartGateway", "whoisStart"})
    prep = lambda ev: ev.get("e") == "call" and E.strip(ev["x"]).get("f") in ("HttpRequest::prepForPeering", "HttpRequest::prepForDirect")
    ck.require_passed("R3d.peer-login-per-attempt", ck.flow(dsp, markers={"prepared": prep}), starts, "prepared", "protocol start in dispatch()", min_sites=3,
                      why="(peer_login of an earlier attempt would still be in force)")
    pfd = ck.facts(["src/HttpRequest.cc"], whole=False).fn("HttpRequest::prepForDirect")
    ck.sites(ck.flow(pfd), ev_assign("HttpRequest::peer_login"), "peer_login = ... in prepForDirect", 1)

    ck.rule("R3b HttpHeader::removeHopByHopEntries: removeConnectionHeaderEntries() first; RESPONSE(lookup(id).hopbyhop true -> delAt); "
            "removeConnectionHeaderEntries: RESPONSE(strListIsMember(...) true -> delAt)")
    rh = facts.fn("HttpHeader::removeHopByHopEntries")
    fl = ck.flow(rh, markers={"conn": ev_call("HttpHeader::removeConnectionHeaderEntries")})
    ck.require_passed("R3b.connection-listed-first", fl, ev_exit(), "conn", "return")
    ck.require_response("R3b.hopbyhop-deleted", rh, E.m_mentions("Http::HeaderTableRecord::hopbyhop"), True, ev_call("HttpHeader::delAt"), "delAt")
    rc = facts.fn("HttpHeader::removeConnectionHeaderEntries")
    # SIBLING: request and response direction must decide "is this field named in Connection:" with the same predicate
    def membership_callees(fn):
        """callees of boolean call atoms that look at the entry's name (directly or through a local copy of it)"""
        out = set()
        for b in fn.blocks.values():
            c = (b.get("term") or {}).get("c")
            for leaf in E.leaves(c) if c is not None else []:
                l = E.strip(leaf)
                if isinstance(l, dict) and l.get("k") == "call" and "HttpHeaderEntry::name" in ck.closure_mentions(fn, l) \
                        and l.get("f", "").split("::")[-1] not in ("operator==", "operator!=", "getEntry"):
                    out.add(l.get("f"))
        return out
    req_pred = membership_callees(copy1)
    rep_pred = membership_callees(rc)
    ck.need(req_pred and rep_pred, "C04: Connection-membership tests not found (request side %s, response side %s)" % (sorted(req_pred), sorted(rep_pred)))
    if req_pred == rep_pred:
        ck.ok("R3b.sibling-membership", rc.where(), "both directions test Connection membership with %s" % sorted(req_pred))
    else:
        ck.violation("R3b.sibling-membership", "R3b|connection-membership-predicates-differ", rc.where(),
                     "the request-side filter tests Connection membership with %s but the response side uses %s: the two directions "
                     "tokenise the Connection list differently (e.g. optional whitespace before a comma)" % (sorted(req_pred), sorted(rep_pred)))
    member = E.M(lambda t: E.strip(t).get("k") == "call" and E.strip(t).get("f") in rep_pred, "membership-test(e->name)")
    ck.require_response("R3b.connection-listed-deleted", rc, member, True, ev_call("HttpHeader::delAt"), "delAt")

    # --- table
    ck.rule("R4 ENUMTABLE(Http::HttpHeaderDefinitionsTable): rows flagged HopByHopHeader ⊇ %s; ctor maps the flag to .hopbyhop" % sorted(HOP_TABLE))
    tab = facts.var("Http::HttpHeaderDefinitionsTable")
    kinds = facts.enum("Http::HdrKind")
    hop = set()
    rows = 0
    for row in tab["init"].get("a", []):
        r = E.strip(row)
        a = r.get("a", []) if isinstance(r, dict) else []
        if len(a) == 4:
            rows += 1
            k = E.const(a[3])
            if k is not None and k & kinds["HopByHopHeader"]:
                hop.add(E.strip(a[0]).get("v"))
    ck.need(rows >= 80, "C04: registered header table has only %d full rows" % rows)
    for h in sorted(HOP_TABLE):
        if h in hop:
            ck.ok("R4.table", "src/http/RegisteredHeadersHash.cci", "header %s is flagged HopByHopHeader" % h)
        else:
            ck.violation("R4.table", "R4|table|%s" % h, "src/http/RegisteredHeadersHash.cci", "registered header %s lost its HopByHopHeader flag" % h)
    ctor = facts.fn("Http::HeaderTableRecord::HeaderTableRecord", sig="int")
    okc = False
    for b in ctor.blocks.values():
        for ev in b["ev"]:
            if ev.get("e") == "asg" and E.root_decl(ev.get("lhs"))[1] == "Http::HeaderTableRecord::hopbyhop":
                m = E.mentions(ev.get("rhs"))
                okc = "theKind" in m and E.const([x for x in E.walk(ev["rhs"]) if x.get("k") == "ref" and x.get("dk") == "enum"][0]) == kinds["HopByHopHeader"]
    if okc:
        ck.ok("R4.table", ctor.where(), "HeaderTableRecord::hopbyhop is initialised from kind & HopByHopHeader")
    else:
        ck.violation("R4.table", "R4|ctor|hopbyhop", ctor.where(), "HeaderTableRecord::hopbyhop is no longer derived from kind & HopByHopHeader")
    ck.assume("strListIsMember() token semantics are not analysed")
