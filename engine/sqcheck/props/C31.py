"""C31 Percent-encoding: shape clause of AnyP::Uri::Encode/Decode and bounded reads of rfc1738_unescape (DESIGN.md 5/C31)."""
from .. import expr as E
from ..flow import ev_call, ev_return, ev_exit


def run(ck):
    facts = ck.facts(["src/anyp/Uri.cc", "lib/rfc1738.cc"])

    ck.rule("P1 AnyP::Uri::Encode: every byte not in `ignore` is emitted as appendf(\"%%%02X\", (unsigned)(unsigned char)ch) of the byte just inspected and then skipped; "
            "unencoded output comes only from tk.prefix(_, ignore); the output reservation is 3x the input")
    en = facts.fn("AnyP::Uri::Encode")
    fl = ck.flow(en)
    apf = ck.sites(fl, ev_call("SBuf::appendf"), "appendf()", 1)
    for s in apf:
        a = E.strip(s.ev["x"])["a"]
        fmt = E.strip(a[0]).get("v")
        arg = a[1] if len(a) > 1 else None
        inner = E.strip(arg) if arg is not None else None
        # the cast chain must go through unsigned char (no sign extension of bytes >= 0x80)
        through_uchar = isinstance(arg, dict) and any(n.get("k") == "cast" and n.get("to") in ("unsigned char", "uint8_t") for n in E.walk(arg))
        if fmt == "%%%02X" and E.m_is_ref("ch")(inner) and through_uchar:
            ck.ok("P1.triplet-shape", s.where(), "encoded bytes are written as %%%02X of (unsigned char)ch")
        else:
            ck.violation("P1.triplet-shape", "P1|Encode|triplet-shape", s.where(), "Encode emits a byte with format %r of %s (needs \"%%%%%%02X\" of the byte cast through unsigned char)" % (fmt, E.key(arg)))
    chd = ck.local_defs(en).get("ch", [])
    if chd and all("Parser::Tokenizer::remaining" in E.mentions(t) and E.const(E.strip(t).get("a", [{}])[0] if E.strip(t).get("k") == "call" else None) in (0, None) for t in chd):
        ck.ok("P1.byte-source", en.where(), "ch = tk.remaining()[0]")
    else:
        ck.violation("P1.byte-source", "P1|Encode|byte-source", en.where(), "the encoded byte is no longer the first remaining input byte")
    fl2 = ck.flow(en, markers={"encoded": ev_call("SBuf::appendf")})
    ck.require_passed("P1.skip-after-encode", fl2, ev_call("Parser::Tokenizer::skip", arg={0: E.m_is_ref("ch")}), "encoded", "tk.skip(ch)")
    for s in fl.find(ev_call("SBuf::append", obj=E.m_is_ref("output"))):
        a = E.strip(s.ev["x"])["a"]
        if E.m_is_ref("goodSection")(a[0]):
            ck.ok("P1.raw-only-ignored", s.where(), "raw output is the section matched by prefix(_, ignore)")
        else:
            ck.violation("P1.raw-only-ignored", "P1|Encode|raw-source", s.where(), "Encode appends %s unencoded" % E.key(a[0]))
    pre = [s for s in fl.find(ev_call("Parser::Tokenizer::prefix"))]
    if pre and all(E.m_is_ref("goodSection")(E.strip(s.ev["x"])["a"][0]) and E.m_is_ref("ignore")(E.strip(s.ev["x"])["a"][1]) for s in pre):
        ck.ok("P1.raw-only-ignored", en.where(), "goodSection is always prefix(_, ignore)")
    else:
        ck.violation("P1.raw-only-ignored", "P1|Encode|prefix-set", en.where(), "goodSection is filled from a set other than `ignore`")

    ck.rule("P2 AnyP::Uri::Decode: after '%' exactly two hex digits are read with int64(_, 16, false, 1) each; the byte appended is (hex1 << 4) | hex2; any other sequence returns nullopt; "
            "text outside triplets comes from prefix(_, complement of '%')")
    de = facts.fn("AnyP::Uri::Decode")
    fl = ck.flow(de)
    hexd = lambda name: E.m_calls("Parser::Tokenizer::int64") & E.M(lambda t, name=name: E.m_is_ref(name)(E.strip(t)["a"][0]) and E.const(E.strip(t)["a"][1]) == 16 and E.const(E.strip(t)["a"][2]) == 0 and E.const(E.strip(t)["a"][3]) == 1, "int64(%s,16,false,1)" % name)
    byte_app = lambda ev: ev_call("SBuf::append")(ev) and any(n.get("k") == "bin" and n.get("op") == "|" for n in E.walk(E.strip(ev["x"])["a"][0]))
    ss = ck.sites(fl, byte_app, "append(decoded byte)", 1)
    for s in ss:
        v = [n for n in E.walk(E.strip(s.ev["x"])["a"][0]) if n.get("k") == "bin" and n.get("op") == "|"][0]
        l, r = E.strip(v["l"]), E.strip(v["r"])
        if l.get("k") == "bin" and l.get("op") == "<<" and E.m_is_ref("hex1")(l["l"]) and E.const(l["r"]) == 4 and E.m_is_ref("hex2")(r):
            ck.ok("P2.byte-value", s.where(), "decoded byte = (hex1 << 4) | hex2")
        else:
            ck.violation("P2.byte-value", "P2|Decode|byte-value", s.where(), "decoded byte is %s" % E.key(v))
    ck.require_fact("P2.two-hex-digits", fl, byte_app, hexd("hex1"), True, "append(decoded byte)", history=True)
    ck.require_fact("P2.two-hex-digits", fl, byte_app, hexd("hex2"), True, "append(decoded byte)", history=True)
    ck.require_fact("P2.two-hex-digits", fl, byte_app, E.m_calls("Parser::Tokenizer::skip") & E.M(lambda t: E.const(E.strip(t)["a"][0]) == 37, "skip('%')"), True, "append(decoded byte)", history=True)
    ck.require_response("P2.bad-triplet-rejected", de, hexd("hex1") | hexd("hex2"), False,
                        lambda ev: ev.get("e") == "ret" and "nullopt" in E.key(ev.get("x")), "return nullopt", term_kinds=None,
                        why="(a malformed %XX would be passed through or mis-decoded)")

    ck.rule("P3 rfc1738_unescape: s[j+1] is read only after s[j] != 0 was established by the loop test and s[j+2] only after fromhex(s[j+1]) >= 0 (hence not NUL); "
            "the write index never exceeds the read index (i and j start equal, j only grows faster)")
    ue = facts.fn("rfc1738_unescape")
    fl = ck.flow(ue)
    n2 = 0
    for s in fl.sites:
        for t in (s.ev.get("x"), s.ev.get("rhs"), s.ev.get("init")):
            if t is None or s.ev.get("e") not in ("call", "asg", "decl"):
                continue
            for n in E.walk(t):
                if n.get("k") == "idx" and E.m_is_ref("s")(n.get("b")) and E.key(n.get("i")) == "(j + 2)":
                    n2 += 1
                    if s.has(E.m_cmp("<", E.m_is_ref("v1"), E.m_const(0)), False):
                        ck.ok("P3.lookahead-2", s.where(), "s[j+2] is read only with v1 = fromhex(s[j+1]) >= 0")
                    else:
                        ck.violation("P3.lookahead-2", "P3|rfc1738_unescape|lookahead-2", s.where(), "s[j+2] can be read although s[j+1] may be the terminator", fl.witness(s))
    ck.need(n2 >= 1, "C31: s[j + 2] read not found in rfc1738_unescape")
    v1 = ck.local_defs(ue).get("v1", [])
    if v1 and all(E.strip(t).get("f") == "fromhex" and E.key(E.strip(t)["a"][0]) == "s[(j + 1)]" for t in v1):
        ck.ok("P3.lookahead-2", ue.where(), "v1 = fromhex(s[j + 1])")
    else:
        ck.violation("P3.lookahead-2", "P3|rfc1738_unescape|v1-def", ue.where(), "v1 is no longer fromhex(s[j + 1])")
    fh = facts.fn("fromhex")
    flh = ck.flow(fh)
    nonneg = lambda ev: ev.get("e") == "ret" and (E.const(ev.get("x")) is None or E.const(ev.get("x")) >= 0)
    rets = ck.sites(flh, nonneg, "non-negative return of fromhex", 1)
    for s in rets:
        lo, hi = ck.interval(s, E.m_is_ref("ch"))
        if lo is not None and lo >= 48:
            ck.ok("P3.fromhex-rejects-nul", s.where(), "fromhex returns >= 0 only for ch >= '%s'" % chr(lo))
        else:
            ck.violation("P3.fromhex-rejects-nul", "P3|fromhex|nul", s.where(), "fromhex can return a non-negative value for NUL (guards give ch in [%s,%s])" % (lo, hi))
    writes = [s for s in fl.sites if s.ev.get("e") == "asg" and E.strip(s.ev.get("lhs")).get("k") == "idx" and E.m_is_ref("s")(E.strip(s.ev["lhs"])["b"])]
    ck.need(len(writes) >= 2, "C31: writes to s[] not found")
    for s in writes:
        if E.m_is_ref("i")(E.strip(s.ev["lhs"])["i"]):
            ck.ok("P3.write-index", s.where(), "writes go to s[i]")
        else:
            ck.violation("P3.write-index", "P3|rfc1738_unescape|write-index", s.where(), "rfc1738_unescape writes s[%s]" % E.key(E.strip(s.ev["lhs"])["i"]))
    for s in fl.sites:
        ev = s.ev
        if ev.get("e") == "asg" and E.m_is_ref("i")(ev.get("lhs")) and ev.get("op") not in ("++", "=", "init"):
            ck.violation("P3.write-index", "P3|rfc1738_unescape|i-step", s.where(), "the write index moves by more than one per iteration (%s)" % s.desc())
        if ev.get("e") == "asg" and E.m_is_ref("j")(ev.get("lhs")) and ev.get("op") in ("--", "-="):
            ck.violation("P3.write-index", "P3|rfc1738_unescape|j-back", s.where(), "the read index moves backwards")
    ck.rule("P4 CAPACITY rfc1738_do_escape: each input byte yields at most 3 output bytes (a %XX triplet), so the static output buffer must hold 3*strlen(url)+1 bytes "
            "whenever the escape loop runs: it is (re)allocated as xcalloc(bufsize) with bufsize = 3*strlen(url) + c (c >= 1), and it is reused without reallocation only "
            "with `k*strlen(url) > bufsize` (k >= 3) established false; a weaker reuse test truncates the output (unescape(escape(x)) != x) and lets the terminator be "
            "written past the buffer")
    de = facts.fn("rfc1738_do_escape")
    ddefs = ck.local_defs(de)
    purl = de.params[0]["d"] if de.params else "?"

    def is_len(t):
        t = E.strip(t)
        if t.get("k") == "call" and t.get("f") == "strlen" and E.m_is_ref(purl)(t["a"][0]):
            return True
        if t.get("k") == "ref" and t.get("dk") in ("local", "static"):
            ds = ddefs.get(t["d"], [])
            return bool(ds) and all(is_len(d) for d in ds)
        return False

    def linear(t):
        """(k, c) with t == k*strlen(url) + c, or None"""
        t = E.strip(t)
        if is_len(t):
            return (1, 0)
        c = E.const(t)
        if c is not None:
            return (0, c)
        if t.get("k") == "bin" and t.get("op") in ("+", "-", "*"):
            a, b = linear(t["l"]), linear(t["r"])
            if a is None or b is None:
                return None
            if t["op"] == "+":
                return (a[0] + b[0], a[1] + b[1])
            if t["op"] == "-":
                return (a[0] - b[0], a[1] - b[1])
            if a[0] == 0:
                return (a[1] * b[0], a[1] * b[1])
            if b[0] == 0:
                return (a[0] * b[1], a[1] * b[1])
        return None
    allocs = [E.strip(ev["x"]) for b in de.blocks.values() for ev in b["ev"] if ev.get("e") == "call" and E.strip(ev["x"]).get("f") in ("xcalloc", "xmalloc")]
    ck.need(len(allocs) == 1, "C31: rfc1738_do_escape no longer allocates its buffer with one xcalloc()")
    cap = E.strip(allocs[0]["a"][0])
    ck.need(cap.get("k") == "ref", "C31: the allocation size of rfc1738_do_escape is not a variable: %s" % E.key(cap))
    capname = cap["d"]
    sets = [ev for b in de.blocks.values() for ev in b["ev"] if ev.get("e") == "asg" and E.m_is_ref(capname)(ev.get("lhs")) and ev.get("op") == "="]
    ck.need(len(sets) == 1, "C31: expected one assignment to %s in rfc1738_do_escape" % capname)
    lin = linear(sets[0]["rhs"])
    if lin and lin[0] >= 3 and lin[1] >= 1:
        ck.ok("P4.escape-capacity", de.where(sets[0]["l"]), "%s = %d*strlen(url) + %d" % (capname, lin[0], lin[1]))
    else:
        ck.violation("P4.escape-capacity", "P4|rfc1738_do_escape|allocation-size", de.where(sets[0]["l"]), "the output buffer is allocated with %s, less than 3*strlen(url)+1" % E.key(sets[0]["rhs"]))
    dfl = ck.flow(de)
    guards = []
    for b in de.blocks.values():
        t = b.get("term")
        if t and t.get("c") is not None:
            for leaf, _ in E.implied(t["c"], False):
                ls = E.strip(leaf)
                if ls.get("k") == "bin" and ls.get("op") == "<" and E.m_is_ref(capname)(ls.get("l")) and linear(ls.get("r")):
                    guards.append(linear(ls["r"]))
    if guards and all(g[0] >= 3 and g[1] >= 0 for g in guards):
        ck.ok("P4.escape-capacity", de.where(), "the buffer is reused only with %d*strlen(url) > %s false" % (guards[0][0], capname))
    else:
        ck.violation("P4.escape-capacity", "P4|rfc1738_do_escape|reuse-test", de.where(),
                     "the static buffer is reused when %s: it may hold fewer than 3*strlen(url) bytes, so escaped output is truncated (round trip broken) and the terminator "
                     "can land past the allocation" % (["%d*strlen(url)%+d > %s is false" % (g[0], g[1], capname) for g in guards] or ["no length test"]))
    ck.assume("decode(encode(x)) == x is not decided; only the triplet shape, digit sources and bounded look-ahead")
