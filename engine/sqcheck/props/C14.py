"""C14 Conditional requests are answered according to their validators (DESIGN.md section 5, C14): 304/412/full-response gates."""
from .. import expr as E
from ..flow import ev_call, ev_return, ev_assign, ev_any, ev_exit

CRC = "clientReplyContext::"
SE = "StoreEntry::"


def hdr_has(hdr, name):
    return E.m_calls("HttpHeader::has") & E.M(lambda t: E.const(E.strip(t)["a"][0]) == hdr[name], "arg0==" + name)


def conj(t):
    """leaves of a `&&` chain"""
    t = E.strip(t)
    if isinstance(t, dict) and t.get("k") == "bin" and t.get("op") == "&&":
        return conj(t["l"]) + conj(t["r"])
    return [t]


def run(ck):
    facts = ck.facts(["src/client_side_reply.cc", "src/store.cc", "src/ETag.cc", "src/HttpReply.cc", "src/store/Controller.cc"], whole=True)
    hdr = facts.enum("Http::HdrType")
    sc = facts.enum("Http::(anonymous)")      # `typedef enum {...} StatusCode` is an unnamed enum to the front end
    ck.need("scOkay" in sc and "scNotModified" in sc, "C14: Http::StatusCode enumerators not found")
    meth = facts.enum("Http::_method_t")

    # ------------------------------------------------------------------ P: clientReplyContext::processConditional
    pc = facts.fn(CRC + "processConditional")
    fl = ck.flow(pc)
    status = E.M(lambda t: E.strip(t).get("k") == "ref" and all(E.m_calls("Http::StatusLine::status")(d) for d in ck.local_defs(pc).get(E.strip(t).get("d"), [None])), "local:=sline.status()")
    is200 = E.m_cmp("==", status, E.m_const(sc["scOkay"]))
    if_match, if_none = hdr_has(hdr, "IF_MATCH"), hdr_has(hdr, "IF_NONE_MATCH")
    im_ok, inm_hit = E.m_calls(SE + "hasIfMatchEtag"), E.m_calls(SE + "hasIfNoneMatchEtag")
    ims, modified = E.m_is_mem("RequestFlags::ims"), E.m_calls(SE + "modifiedSince")
    send304, send412, send_either = ev_call(CRC + "sendNotModified"), ev_call(CRC + "sendPreconditionFailedError"), ev_call(CRC + "sendNotModifiedOrPreconditionFailedError")
    unconditional = ev_return(E.m_const(0))

    ck.rule("P1 processConditional: sendNotModified() only with flags.ims T, modifiedSince(r.ims, r.imslen) F and has(IF_NONE_MATCH) F; sendNotModifiedOrPreconditionFailedError() only with "
            "has(IF_NONE_MATCH) T and hasIfNoneMatchEtag(r) T; sendPreconditionFailedError() only with has(IF_MATCH) T and hasIfMatchEtag(r) F; all three and `return false` only with "
            "the stored status == 200 established (RESPONSE: other status -> processMiss)")
    for m, v, why in [(ims, True, "(304 without an If-Modified-Since validator)"), (modified, False, "(304 although the entry was modified since the client's date)"),
                      (if_none, False, "(If-Modified-Since would override If-None-Match, RFC 7232 3.3)")]:
        ck.require_fact("P1.304-needs-unmodified", fl, send304, m, v, "sendNotModified()", why=why)
    ck.require_fact("P1.inm-answer-needs-etag-match", fl, send_either, if_none, True, "sendNotModifiedOrPreconditionFailedError()")
    ck.require_fact("P1.inm-answer-needs-etag-match", fl, send_either, inm_hit, True, "sendNotModifiedOrPreconditionFailedError()", why="(304/412 although no If-None-Match entity-tag matched)")
    ck.require_fact("P1.412-needs-if-match-failure", fl, send412, if_match, True, "sendPreconditionFailedError()")
    ck.require_fact("P1.412-needs-if-match-failure", fl, send412, im_ok, False, "sendPreconditionFailedError()", why="(412 although an If-Match entity-tag matched)")
    ck.require_fact("P1.only-stored-200", fl, ev_any(send304, send412, send_either, unconditional), is200, True, "conditional answer|return false", min_sites=6,
                    why="(validators would be evaluated against a non-200 stored response)")
    ck.require_response("P1.only-stored-200", pc, is200, False, ev_call(CRC + "processMiss"), "processMiss()")
    for s in ck.sites(fl, ev_call(SE + "modifiedSince"), "modifiedSince()", 1):
        a = E.strip(s.ev["x"])["a"]
        if len(a) == 2 and E.m_is_mem("HttpRequest::ims")(a[0]) and E.m_is_mem("HttpRequest::imslen")(a[1]):
            ck.ok("P1.304-needs-unmodified", s.where(), "modifiedSince() is asked about the client's r.ims/r.imslen")
        else:
            ck.violation("P1.304-needs-unmodified", "P1|processConditional|modifiedSince-args", s.where(), "modifiedSince() is called with %s" % E.key(s.ev["x"]))

    ck.rule("P2 processConditional: `return false` (serve the full response) is unreachable after a failed If-Match, after a matching If-None-Match, and "
            "after an If-Modified-Since that the entry does not satisfy (If-None-Match absent); RESPONSE(has(IF_NONE_MATCH) -> flags.ims = false and IMS header removed)")
    ck.require_any("P2.full-response-needs-precondition", pc, unconditional, [(if_match, False), (im_ok, True)], "return false", min_sites=3, why="(a failed If-Match would get the full response instead of 412)")
    ck.require_any("P2.full-response-needs-change", pc, unconditional, [(if_none, False), (inm_hit, False)], "return false", why="(a matching If-None-Match would get the full response instead of 304)")
    ck.require_any("P2.full-response-needs-change", pc, unconditional, [(if_none, True), (ims, False), (modified, True)], "return false", why="(an unmodified entity would be resent in full to an If-Modified-Since request)")
    ck.require_response("P2.inm-overrides-ims", pc, if_none, True, ev_assign("RequestFlags::ims", E.m_const(0)), "flags.ims = false", until=ev_call(SE + "hasIfNoneMatchEtag"))
    ck.require_response("P2.inm-overrides-ims", pc, if_none, True, ev_call("HttpHeader::delById", arg={0: E.m_const(hdr["IF_MODIFIED_SINCE"])}), "delById(IF_MODIFIED_SINCE)")

    ck.rule("P3 ENUMTABLE(sendNotModifiedOrPreconditionFailedError, per Http::_method_t enumerator): sendNotModified() reachable only for GET and HEAD, sendPreconditionFailedError() only for the others; "
            "sendNotModified builds its reply by freshestReply().make304() and make304 sets status scNotModified; WHO(sendNotModified, sendPreconditionFailedError, sendNotModifiedOr...)")
    either = facts.fn(CRC + "sendNotModifiedOrPreconditionFailedError")
    is_m = lambda c: E.m_cmp("==", E.m_is_mem("HttpRequest::method"), E.m_const(c))
    methods = {n: v for n, v in meth.items() if n.startswith("METHOD_") and n != "METHOD_ENUM_END"}
    ck.need(any(ck.trigger_edges(either, is_m(v), True) or ck.trigger_edges(either, is_m(v), False) for v in methods.values()), "C14: sendNotModifiedOrPreconditionFailedError no longer tests the request method")
    ck.sites(ck.flow(either), send304, "sendNotModified()", 1)
    ck.sites(ck.flow(either), send412, "sendPreconditionFailedError()", 1)
    for n, k in sorted(methods.items()):   # ENUMTABLE: decide every `method == X` atom for each enumerator in turn
        efl = ck.flow(either, assume=[(is_m(v), v == k) for v in set(methods.values())])
        if n in ("METHOD_GET", "METHOD_HEAD"):
            ck.require_unreachable("P3.304-only-for-get-head", efl, send412, "sendPreconditionFailedError()", "method == %s" % n)
        else:
            ck.require_unreachable("P3.304-only-for-get-head", efl, send304, "sendNotModified()", "method == %s" % n, why="(RFC 7232 3.2: methods other than GET/HEAD get 412)")
    snm = facts.fn(CRC + "sendNotModified")
    nfl = ck.flow(snm)
    made = ck.m_result_of(snm, "HttpReply::make304")
    for s in ck.sites(nfl, ev_call(SE + "replaceHttpReply"), "replaceHttpReply()", 1):
        a0 = E.strip(s.ev["x"])["a"][0]
        if made(a0) or any(made(n) for n in E.walk(a0)):
            ck.ok("P3.304-reply-built-by-make304", s.where(), "sendNotModified stores make304() of the freshest reply")
        else:
            ck.violation("P3.304-reply-built-by-make304", "P3|sendNotModified|reply-source", s.where(), "sendNotModified stores %s, not the result of make304()" % E.key(a0))
    m304 = facts.fn("HttpReply::make304")
    sets = ck.sites(ck.flow(m304), ev_call("Http::StatusLine::set"), "sline.set()", 1)
    for s in sets:
        if E.const(E.strip(s.ev["x"])["a"][1]) == sc["scNotModified"]:
            ck.ok("P3.304-reply-built-by-make304", s.where(), "make304 sets status 304")
        else:
            ck.violation("P3.304-reply-built-by-make304", "P3|make304|status", s.where(), "make304 sets status %s" % E.key(E.strip(s.ev["x"])["a"][1]))
    ck.who_calls("P3.who-answers-conditionals", facts, CRC + "sendNotModified", {CRC + "processConditional": "IMS gate (P1)", CRC + "sendNotModifiedOrPreconditionFailedError": "INM gate (P1/P3)"}, min_callers=2)
    ck.who_calls("P3.who-answers-conditionals", facts, CRC + "sendPreconditionFailedError", {CRC + "processConditional": "If-Match gate (P1)", CRC + "sendNotModifiedOrPreconditionFailedError": "INM gate for non-GET/HEAD"}, min_callers=2)
    ck.who_calls("P3.who-answers-conditionals", facts, CRC + "sendNotModifiedOrPreconditionFailedError", {CRC + "processConditional": "INM gate (P1)"})

    # ------------------------------------------------------------------ C: the hit path consults it
    ck.rule("C1 clientReplyContext::cacheHit: RESPONSE(r->conditional() T -> processConditional()); the final sendMoreData() only with conditional() F or processConditional() F "
            "(negative hits excepted)")
    hit = facts.fn(CRC + "cacheHit")
    cond, pcall = E.m_calls("HttpRequest::conditional"), E.m_calls(CRC + "processConditional")
    ck.require_response("C1.conditional-hits-evaluated", hit, cond, True, ev_call(CRC + "processConditional"), "processConditional()", why="(a conditional request would be answered as an unconditional hit)")
    ck.require_any("C1.conditional-hits-evaluated", hit, ev_call(CRC + "sendMoreData"), [(cond, False), (pcall, False), (E.m_calls(SE + "checkNegativeHit"), True)], "sendMoreData()", min_sites=2,
                   why="(the full hit would be sent after processConditional() already answered)")

    # ------------------------------------------------------------------ E: validator comparison plumbing
    ck.rule("E1 StoreEntry::hasIfMatchEtag reads getList(IF_MATCH) and compares strongly (hasOneOfEtags(.., false)); hasIfNoneMatchEtag reads getList(IF_NONE_MATCH); hasOneOfEtags calls "
            "etagIsWeakEqual only with allowWeakMatch T and etagIsStrongEqual only with it F, both only after etagParseInit() T; etagIsStrongEqual reaches etagStringsMatch() only with tag1.weak F and tag2.weak F and returns true only through it")
    for fname, h, weak in ((SE + "hasIfMatchEtag", "IF_MATCH", 0), (SE + "hasIfNoneMatchEtag", "IF_NONE_MATCH", None)):
        f = facts.fn(fname)
        ffl = ck.flow(f)
        lists = ck.sites(ffl, ev_call("HttpHeader::getList"), "getList()", 1)
        one = ck.sites(ffl, ev_call(SE + "hasOneOfEtags"), "hasOneOfEtags()", 1)
        good = all(E.const(E.strip(s.ev["x"])["a"][0]) == hdr[h] for s in lists) and all(weak is None or E.const(E.strip(s.ev["x"])["a"][1]) == weak for s in one)
        src = all(any(E.m_calls("HttpHeader::getList")(d) for d in ck.local_defs(f).get(E.root_decl(E.strip(s.ev["x"])["a"][0])[1], [])) for s in one)
        if good and src:
            ck.ok("E1.validator-header-and-strength", f.where(), "%s compares the %s list%s" % (fname, h, " strongly" if weak == 0 else ""))
        else:
            ck.violation("E1.validator-header-and-strength", "E1|%s|list-or-strength" % fname, f.where(), "%s no longer compares exactly the %s list%s" % (fname, h, " with allowWeakMatch=false" if weak == 0 else ""))
    hoe = facts.fn(SE + "hasOneOfEtags")
    weak_param = [p["d"] for p in hoe.params if p["t"].replace("const ", "") == "bool"]
    ck.need(len(weak_param) == 1, "C14: hasOneOfEtags lost its bool allowWeakMatch parameter")
    hfl = ck.flow(hoe)
    ck.require_fact("E1.weak-only-if-allowed", hfl, ev_call("etagIsWeakEqual"), E.m_is_ref(weak_param[0]), True, "etagIsWeakEqual()", why="(If-Match / ranged requests would accept a weak match)")
    ck.require_fact("E1.weak-only-if-allowed", hfl, ev_call("etagIsStrongEqual"), E.m_is_ref(weak_param[0]), False, "etagIsStrongEqual()")
    ck.require_fact("E1.compare-parsed-tags", hfl, ev_call({"etagIsWeakEqual", "etagIsStrongEqual"}), E.m_calls("etagParseInit"), True, "etagIs*Equal()", min_sites=2)
    ck.rule("E1c a match is sticky: hasOneOfEtags returns a local verdict; once it is true no later list member can overwrite it (every assignment of a "
            "non-constant-true value to it is reached only with the verdict still false), so `\"a\", \"b\"` matches an entity tagged \"a\"")
    rets = [E.strip(ev.get("x")) for b in hoe.blocks.values() for ev in b["ev"] if ev.get("e") == "ret"]
    verdicts = sorted({r.get("d") for r in rets if isinstance(r, dict) and r.get("k") == "ref" and r.get("dk") == "local"})
    ck.need(len(verdicts) == 1, "C14: hasOneOfEtags no longer returns one local verdict: %s" % verdicts)
    vd = verdicts[0]
    vfl = ck.flow(hoe, tracked=[vd])
    nasg = 0
    for st in vfl.find(ev_assign(vd, None, ops=("=",))):
        if E.const(st.ev.get("rhs")) == 1:
            continue        # setting the verdict to true is always fine
        nasg += 1
        cur = st.env.get(vd)
        if cur == ("c", 0) or st.has(E.m_is_ref(vd), False):
            ck.ok("E1c.match-is-sticky", st.where(), "hasOneOfEtags: '%s' is overwritten by a comparison result only while it is still false" % vd)
        else:
            ck.violation("E1c.match-is-sticky", "E1c|hasOneOfEtags|verdict-overwritten", st.where(),
                         "hasOneOfEtags assigns a comparison result to '%s' on a path where it may already be true: a later non-matching entity-tag of the list "
                         "erases an earlier match (If-None-Match: \"a\", \"b\" against ETag \"a\" -> 200 instead of 304)" % vd, vfl.witness(st))
    ck.need(nasg >= 1, "C14: hasOneOfEtags no longer assigns a comparison result to its verdict")
    strong = facts.fn("etagIsStrongEqual")
    ck.need(len(strong.params) == 2, "C14: etagIsStrongEqual signature changed")
    sfl = ck.flow(strong)
    for p in strong.params:   # short-circuit evaluation: the string comparison is reached only past both weakness tests, whatever the statement shape
        ck.require_fact("E1.strong-excludes-weak-tags", sfl, ev_call("etagStringsMatch"), E.m_is_mem("ETag::weak") & E.m_mentions(p["d"]), False, "etagStringsMatch()",
                        why="(a weak entity-tag would satisfy a strong comparison: If-Match / ranged If-None-Match)")
    for s in ck.sites(sfl, ev_return(), "return", 1):   # a true result must come from the string comparison
        ck.need(E.const(s.ev.get("x")) == 0 or any(E.m_calls("etagStringsMatch")(l) for l in conj(s.ev.get("x"))),
                "C14: etagIsStrongEqual returns %s, which is not a conjunction with etagStringsMatch()" % E.key(s.ev.get("x")))

    ck.rule("E2 StoreEntry::modifiedSince: `return false` only with lastModified() >= 0 and !(mod_time > ims) established; `return true` only with mod_time < 0 or mod_time > ims")
    ms = facts.fn(SE + "modifiedSince")
    lm = ck.m_result_of(ms, SE + "lastModified")
    client = [p["d"] for p in ms.params if "time_t" in p["t"]]
    ck.need(len(client) == 1, "C14: modifiedSince lost its time_t ims parameter")
    newer = E.m_cmp("<", E.m_is_ref(client[0]), lm)
    unknown = E.m_cmp("<", lm, E.m_const(0))
    mfl = ck.flow(ms)
    ck.require_fact("E2.unmodified-needs-date-compare", mfl, ev_return(E.m_const(0)), newer, False, "return false", why="(a newer entity would be reported unmodified -> wrong 304)")
    ck.require_fact("E2.unmodified-needs-date-compare", mfl, ev_return(E.m_const(0)), unknown, False, "return false", why="(an entity without Last-Modified would be reported unmodified)")
    ck.require_any("E2.modified-needs-reason", ms, ev_return(E.m_const(1)), [(newer, True), (unknown, True)], "return true", min_sites=2)

    # ------------------------------------------------------------------ R: revalidation merge
    ck.rule("R1 clientReplyContext::handleIMSReply under status == scNotModified: sendClientOldEntry()/sendClientUpstreamResponse() only after Store::Controller::updateOnNotModified(old_entry, ...) "
            "returned true (else release + processMiss); the origin's 304 is forwarded (sendClientUpstreamResponse) only with flags.ims T and old_entry->modifiedSince(client ims) F")
    ims_reply = facts.fn(CRC + "handleIMSReply")
    st = E.M(lambda t: E.strip(t).get("k") == "ref" and all(
        E.m_calls("Http::StatusLine::status")(d) and "ClientHttpRequest::storeEntry" in ck.closure_mentions(ims_reply, d) and CRC + "old_entry" not in ck.closure_mentions(ims_reply, d)
        for d in ck.local_defs(ims_reply).get(E.strip(t).get("d"), [None])), "local:=new reply status")
    is304 = E.m_cmp("==", st, E.m_const(sc["scNotModified"]))
    ck.need(ck.trigger_edges(ims_reply, is304, True), "C14: handleIMSReply no longer tests the new reply's status == scNotModified")
    upd = E.m_calls("Store::Controller::updateOnNotModified")
    rfl = ck.flow(ims_reply)
    old, fwd = ev_call(CRC + "sendClientOldEntry"), ev_call(CRC + "sendClientUpstreamResponse")
    in304 = [s for s in rfl.find(ev_any(old, fwd)) if s.has(is304, True)]
    ck.need(len(in304) >= 2, "C14: expected the 304 branch of handleIMSReply to answer in >= 2 places, found %d" % len(in304))
    for s in in304:
        if s.has(upd, True):
            ck.ok("R1.answer-after-merge", s.where(), "handleIMSReply: %s follows a successful updateOnNotModified()" % s.desc()[:60])
        else:
            ck.violation("R1.answer-after-merge", "R1|handleIMSReply|answer-without-merge", s.where(),
                         "handleIMSReply: '%s' is reachable on a 304 without updateOnNotModified() having succeeded (later hits would miss the updated headers); facts: %s"
                         % (s.desc()[:80], ", ".join(s.fact_keys())[:300]), rfl.witness(s))
        if fwd(s.ev):
            for m, v in ((ims, True), (modified, False)):
                if s.has(m, v):
                    ck.ok("R1.forward-304-needs-client-ims", s.where(), "forwarding the origin 304 requires %s=%s" % (m.desc, v))
                else:
                    ck.violation("R1.forward-304-needs-client-ims", "R1|handleIMSReply|forward-304|needs:%s=%s" % (m.desc, v), s.where(),
                                 "handleIMSReply forwards the origin's 304 to the client without %s being %s (an unconditional client would get 304)" % (m.desc, v), rfl.witness(s))
    for s in rfl.find(ev_call("Store::Controller::updateOnNotModified")):
        a = E.strip(s.ev["x"])["a"]
        if E.m_is_mem(CRC + "old_entry")(a[0]) and s.has(is304, True):
            ck.ok("R1.answer-after-merge", s.where(), "the merge target is old_entry and happens only for a 304")
        else:
            ck.violation("R1.answer-after-merge", "R1|handleIMSReply|merge-target", s.where(), "updateOnNotModified() is applied to %s%s" % (E.key(a[0]), "" if s.has(is304, True) else " outside the 304 branch"))
    ck.require_response("R1.failed-merge-is-a-miss", ims_reply, upd, False, ev_call(CRC + "processMiss"), "processMiss()", why="(the client would get an entry whose update failed)")

    ck.rule("R2 Store::Controller::updateOnNotModified passes old->updateOnNotModified(e304) unless e304 was already applied; StoreEntry::updateOnNotModified: RESPONSE(recreateOnNotModified() "
            "non-null -> mem_obj->updateReply()), `return false` only with timestampsSet() F and no updated reply; HttpReply::recreateOnNotModified: a non-null return passes "
            "header.update(&reply304.header) and hdrCacheInit()")
    cu = facts.fn("Store::Controller::updateOnNotModified")
    ck.require_any("R2.controller-updates-entry", cu, ev_exit(("ret", "fall")), [("P", "old->updateOnNotModified()", ev_call(SE + "updateOnNotModified")), (E.m_is_mem("MemObject::appliedUpdates"), True)], "return")
    eu = facts.fn(SE + "updateOnNotModified")
    fresh = ck.m_result_of(eu, "HttpReply::recreateOnNotModified")
    ck.need(ck.trigger_edges(eu, fresh, True), "C14: StoreEntry::updateOnNotModified no longer tests the recreated reply")
    ck.require_any("R2.entry-takes-new-headers", eu, ev_exit(("ret", "fall")), [(fresh, False), ("P", "mem_obj->updateReply()", ev_call("MemObject::updateReply"))], "return",
                   why="(the 304's header updates would be dropped)")
    ufl = ck.flow(eu)
    # the 304 is merged into the *freshest* reply (the one already carrying earlier 304 updates), never into the original base reply
    nmerge = 0
    for st in ufl.find(ev_call("HttpReply::recreateOnNotModified")):
        nmerge += 1
        o = E.strip(st.ev["x"]).get("o")
        defs = [o] if not (E.strip(o).get("k") == "ref" and E.strip(o).get("dk") == "local") else ck.local_defs(eu).get(E.strip(o)["d"], [])
        if defs and all(any(n.get("k") == "call" and n.get("f") == "MemObject::freshestReply" for n in E.walk(d)) for d in defs):
            ck.ok("R2.merge-into-freshest", st.where(), "updateOnNotModified merges the 304 into mem_obj->freshestReply()")
        else:
            ck.violation("R2.merge-into-freshest", "R2|StoreEntry::updateOnNotModified|merge-base", st.where(),
                         "the 304 is merged into %s instead of the freshest reply: header updates brought by an earlier 304 are reverted by the next one"
                         % [E.key(d)[:80] for d in defs])
    ck.need(nmerge >= 1, "C14: StoreEntry::updateOnNotModified no longer calls recreateOnNotModified()")
    ck.require_fact("R2.entry-takes-new-headers", ufl, ev_return(E.m_const(0)), E.m_calls(SE + "timestampsSet"), False, "return false")
    ck.require_fact("R2.entry-takes-new-headers", ufl, ev_return(E.m_const(0)), fresh, False, "return false")
    rec = facts.fn("HttpReply::recreateOnNotModified")
    p304 = [p["d"] for p in rec.params]
    ck.need(len(p304) == 1, "C14: recreateOnNotModified signature changed")
    kfl = ck.flow(rec, markers={"merged": ev_call("HttpHeader::update", arg={0: E.m_mentions(p304[0])}), "reindexed": ev_call("HttpReply::hdrCacheInit")})
    def is_null(t):
        t = E.strip(t or {})
        return t.get("k") == "null" or E.const(t) == 0 or (t.get("k") == "ctor" and len(t.get("a", [])) == 1 and is_null(t["a"][0]))
    nonnull = lambda ev: ev.get("e") == "ret" and not is_null(ev.get("x"))
    for mk in ("merged", "reindexed"):
        ck.require_passed("R2.recreate-merges-304-headers", kfl, nonnull, mk, "return <reply>")
    ck.assume("entity-tag string comparison (etagStringsMatch/etagParseInit), date parsing and the header-by-header merge policy of HttpHeader::update/skipUpdateHeader are not decided")
    ck.assume("revalidation started for a client If-None-Match that differs from the cached entity's ETag, collapsed revalidation and the store back ends' updateHeaders() are not analysed")
    ck.assume("a full response where a 304 would also have been allowed is not a violation of the property and is not reported")
