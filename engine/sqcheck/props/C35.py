"""C35 HTTP dates: field-range clause of the parser (DESIGN.md 5/C35)."""
from .. import expr as E
from ..flow import ev_return

RANGES = {"tm_sec": (0, 59), "tm_min": (0, 59), "tm_hour": (0, 23), "tm_mday": (1, 31), "tm_mon": (0, 11)}


def run(ck):
    facts = ck.facts(["src/time/rfc1123.cc"])
    ck.rule("D1 GINT(tmSaneValues): `return 1` only with sec in [0,59], min in [0,59], hour in [0,23], mday in [1,31], mon in [0,11] established on every path")
    sane = facts.fn("tmSaneValues")
    fl = ck.flow(sane)
    for field, (lo, hi) in RANGES.items():
        ck.require_interval("D1.field-range", fl, ev_return(E.m_const(1)), E.m_is_mem(field), lo, hi, "return 1",
                            why="(an out-of-range %s would reach timegm())" % field)

    ck.rule("D2 parse_date_elements: a non-null result requires tmSaneValues(&tm) true, make_month() >= 0 and a GMT (or absent) zone; "
            "the month index stored is exactly make_month(month)")
    pde = facts.fn("parse_date_elements")
    fl = ck.flow(pde)
    nonnull = lambda ev: ev.get("e") == "ret" and E.strip(ev.get("x") or {}).get("k") != "null" and E.const(ev.get("x")) != 0
    rets = ck.sites(fl, nonnull, "non-null return", 1)
    for s in rets:
        x = E.strip(s.ev["x"])
        # either `return sane ? &tm : nullptr` (cond on the call) or a plain &tm dominated by the call
        cond_ok = x.get("k") == "cond" and E.m_calls("tmSaneValues")(E.norm(x["c"])[0]) and E.strip(x["f"]).get("k") == "null"
        if cond_ok or s.has(E.m_calls("tmSaneValues"), True):
            ck.ok("D2.sane-gate", s.where(), "the parsed tm is returned only if tmSaneValues(&tm)")
        else:
            ck.violation("D2.sane-gate", "D2|parse_date_elements|sane-gate", s.where(), "a tm is returned without tmSaneValues(): %s" % E.key(x))
    ck.require_response("D2.month-gate", pde, E.m_cmp("<", E.m_is_mem("tm_mon"), E.m_const(0)), True,
                        ev_return(E.M(lambda t: E.strip(t).get("k") == "null", "nullptr")), "return nullptr", why="(an unknown month name would be accepted)")
    mon = [ev for b in pde.blocks.values() for ev in b["ev"] if ev.get("e") == "asg" and E.m_is_mem("tm_mon")(ev.get("lhs"))]
    if mon and all(E.strip(ev["rhs"]).get("f") == "make_month" for ev in mon):
        ck.ok("D2.month-source", pde.where(), "tm_mon = make_month(month)")
    else:
        ck.violation("D2.month-source", "D2|parse_date_elements|month-source", pde.where(), "tm_mon no longer comes from make_month()")
    ck.assume("round-trip over all times, calendar correctness and the atoi()-based field conversion (trailing garbage, year range) are not decided")
