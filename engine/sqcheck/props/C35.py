"""C35 HTTP dates: field-range clause of the parser (DESIGN.md 5/C35)."""
from .. import expr as E
from ..flow import ev_return, ev_call

RANGES = {"tm_sec": (0, 59), "tm_min": (0, 59), "tm_hour": (0, 23), "tm_mday": (1, 31), "tm_mon": (0, 11)}


def run(ck):
    facts = ck.facts(["src/time/rfc1123.cc"])
    ck.rule("D1 GINT(tmSaneValues): `return 1` only with sec in [0,59], min in [0,59], hour in [0,23], mday in [1,31], mon in [0,11] established on every path")
    sane = facts.fn("tmSaneValues")
    fl = ck.flow(sane)
    for field, (lo, hi) in RANGES.items():
        ck.require_interval("D1.field-range", fl, ev_return(E.m_const(1)), E.m_is_mem(field), lo, hi, "return 1",
                            why="(an out-of-range %s would reach timegm())" % field)

    ck.rule("D2 parse_date_elements: a non-null result requires tmSaneValues(&tm) true, make_month() >= 0 and a GMT (or absent) zone; "
            "the month index stored is exactly make_month(month)")
    pde = facts.fn("parse_date_elements")
    fl = ck.flow(pde)
    nonnull = lambda ev: ev.get("e") == "ret" and E.strip(ev.get("x") or {}).get("k") != "null" and E.const(ev.get("x")) != 0
    rets = ck.sites(fl, nonnull, "non-null return", 1)
    for s in rets:
        x = E.strip(s.ev["x"])
        # either `return sane ? &tm : nullptr` (cond on the call) or a plain &tm dominated by the call
        cond_ok = x.get("k") == "cond" and E.m_calls("tmSaneValues")(E.norm(x["c"])[0]) and E.strip(x["f"]).get("k") == "null"
        if cond_ok or s.has(E.m_calls("tmSaneValues"), True):
            ck.ok("D2.sane-gate", s.where(), "the parsed tm is returned only if tmSaneValues(&tm)")
        else:
            ck.violation("D2.sane-gate", "D2|parse_date_elements|sane-gate", s.where(), "a tm is returned without tmSaneValues(): %s" % E.key(x))
    ck.require_response("D2.month-gate", pde, E.m_cmp("<", E.m_is_mem("tm_mon"), E.m_const(0)), True,
                        ev_return(E.M(lambda t: E.strip(t).get("k") == "null", "nullptr")), "return nullptr", why="(an unknown month name would be accepted)")
    mon = [ev for b in pde.blocks.values() for ev in b["ev"] if ev.get("e") == "asg" and E.m_is_mem("tm_mon")(ev.get("lhs"))]
    if mon and all(E.strip(ev["rhs"]).get("f") == "make_month" for ev in mon):
        ck.ok("D2.month-source", pde.where(), "tm_mon = make_month(month)")
    else:
        ck.violation("D2.month-source", "D2|parse_date_elements|month-source", pde.where(), "tm_mon no longer comes from make_month()")
    ck.rule("D3 SIBLING format/parse: Time::FormatRfc1123 formats the broken-down *UTC* time (gmtime of its argument, never localtime) with the IMF-fixdate layout "
            "`%a, %d %b %Y %H:%M:%S GMT`; Time::ParseRfc1123 converts the parsed fields back with the UTC inverse timegm() of the tm that parse_date() returned "
            "(on this build HAVE_TIMEGM), and returns -1 when parse_date() failed")
    fmt = facts.fn("Time::FormatRfc1123")
    st = [E.strip(ev["x"]) for b in fmt.blocks.values() for ev in b["ev"] if ev.get("e") == "call" and E.strip(ev["x"]).get("f") == "strftime"]
    ck.need(len(st) == 1 and len(st[0].get("a", [])) == 4, "C35: FormatRfc1123 no longer formats with one strftime() call")
    layout = E.strip(st[0]["a"][2])
    want = "%a, %d %b %Y %H:%M:%S GMT"
    if layout.get("k") == "str" and layout.get("v") == want:
        ck.ok("D3.format-layout", fmt.where(), "strftime layout is the IMF-fixdate form")
    else:
        ck.violation("D3.format-layout", "D3|FormatRfc1123|layout", fmt.where(), "FormatRfc1123 formats with %r instead of %r: the parser's field order / zone check no longer match" % (layout.get("v"), want))
    tmdefs = ck.local_defs(fmt).get(E.strip(st[0]["a"][3]).get("d"), [])
    if tmdefs and all(E.strip(d).get("f") == "gmtime" and E.m_is_ref(fmt.params[0]["d"])(E.strip(E.strip(d)["a"][0]).get("e")) for d in tmdefs):
        ck.ok("D3.format-utc", fmt.where(), "the formatted fields are gmtime(&t)")
    else:
        ck.violation("D3.format-utc", "D3|FormatRfc1123|not-utc", fmt.where(), "FormatRfc1123 no longer formats gmtime(&t): %s (a local-time rendering labelled GMT does not parse back to the same time)" % [E.key(d) for d in tmdefs])
    prs = facts.fn("Time::ParseRfc1123")
    pfl = ck.flow(prs)
    inv = ck.sites(pfl, lambda ev: ev.get("e") == "call" and E.strip(ev["x"]).get("f") in ("timegm", "mktime"), "timegm()", 1)
    for s_ in inv:
        x = E.strip(s_.ev["x"])
        if x.get("f") == "timegm" and ck.m_result_of(prs, "parse_date")(x["a"][0]) and s_.has(ck.m_result_of(prs, "parse_date"), True):
            ck.ok("D3.parse-utc-inverse", s_.where(), "ParseRfc1123 converts parse_date()'s non-null tm with timegm()")
        else:
            ck.violation("D3.parse-utc-inverse", "D3|ParseRfc1123|inverse", s_.where(), "ParseRfc1123 converts with %s: not the UTC inverse of the formatter" % E.key(x))
    ck.require_response("D3.parse-failure-reported", prs, ck.m_result_of(prs, "parse_date"), False, ev_return(E.m_const(-1)), "return -1", why="(an unparsable date would yield a time)")

    ck.rule("D4 ENUMTABLE month names: month_names[] has the 12 English abbreviations in calendar order (what strftime(%b) prints in the C locale and what tm_mon means); "
            "make_month returns the matching index of that table (or -1)")
    mn = facts.var("month_names")
    names = [E.strip(a).get("v") for a in mn["init"].get("a", [])]
    want_m = ["Jan", "Feb", "Mar", "Apr", "May", "Jun", "Jul", "Aug", "Sep", "Oct", "Nov", "Dec"]
    if names == want_m:
        ck.ok("D4.month-table", "src/time/rfc1123.cc:%d" % mn["l"], "month_names[] = Jan..Dec in order")
    else:
        ck.violation("D4.month-table", "D4|month_names", "src/time/rfc1123.cc:%d" % mn["l"], "month_names[] is %s" % names)
    mm = facts.fn("make_month")
    mfl = ck.flow(mm)
    nret = 0
    for s_ in mfl.find(lambda ev: ev.get("e") == "ret" and E.const(ev.get("x")) is None):
        nret += 1
        r = E.strip(s_.ev["x"])
        cmp_ok = any(f[0] == "A" and f[2] is False and "strncmp" in f[1] and "month_names[%s]" % E.key(r) in f[1] for f in s_.facts)
        if r.get("k") == "ref" and cmp_ok:
            ck.ok("D4.month-index", s_.where(), "make_month returns the index whose table entry compared equal")
        else:
            ck.violation("D4.month-index", "D4|make_month|index", s_.where(), "make_month returns %s without month_names[%s] having compared equal" % (E.key(r), E.key(r)))
    ck.need(nret >= 1, "C35: make_month no longer returns a table index")
    ck.assume("round-trip over all times, calendar correctness and the atoi()-based field conversion (trailing garbage, year range) are not decided")
