"""C08 No descriptor leaks: descriptor-table bookkeeping clause (DESIGN.md 5/C08)."""
from .. import expr as E
from ..flow import ev_call, ev_return, ev_exit, ev_assign, ev_any


def run(ck):
    facts = ck.facts(["src/comm.cc", "src/fd.cc", "src/fs_io.cc", "src/comm/TcpAcceptor.cc"], whole=True)

    ck.rule("D1 WHO: Number_FD is changed only by fd_open (++) and fd_close (--); fd_close has only the confirmed callers; comm_close_complete is scheduled only by _comm_close")
    ck.who_writes("D1.fd-counter", facts, "Number_FD", {"fd_open": "++ when a descriptor is registered", "fd_close": "-- when it is released"}, min_writers=2)
    for (n, f, l, op, cv) in facts.writers("Number_FD"):
        good = (op == "init") or (n == "fd_open" and (op == "++" or (op == "+=" and cv == 1))) or (n == "fd_close" and (op == "--" or (op == "-=" and cv == 1)))
        if not good:
            ck.violation("D1.fd-counter", "D1|Number_FD|%s|%s" % (n, op), "src/fd.cc:%d" % l, "%s changes Number_FD with '%s'" % (n, op))
    ck.who_calls("D1.who-releases", facts, "fd_close",
                 {"comm_close_complete": "socket close", "file_close": "disk file close", "fd_open": "re-registration of a stale open entry", "DebugFile::reset": "cache.log rotation",
                  "CommIO::NotifyIOClose": "DiskThreads notification pipe"}, min_callers=3, kinds=("call",))
    ck.who_calls("D1.who-completes-close", facts, "comm_close_complete", {"_comm_close": "the only close sequence"}, min_callers=1)

    ck.rule("D2 ORDER: comm_close_complete and file_close release the table entry (fd_close(fd)) and the OS descriptor (xclose/close(fd)) on every path, for the same fd")
    for fname, fdarg in (("comm_close_complete", "fd"),):
        fn = facts.fn(fname)
        fl = ck.flow(fn, markers={"table": ev_call("fd_close", arg={0: E.m_is_ref(fdarg)}), "os": ev_call("xclose", arg={0: E.m_is_ref(fdarg)})})
        ck.require_passed("D2.both-released", fl, ev_exit(), "table", "return of %s" % fname, why="(the fd_table entry would stay open: Number_FD never decreases)")
        ck.require_passed("D2.both-released", fl, ev_exit(), "os", "return of %s" % fname, why="(the OS descriptor would leak)")
    fc = facts.fn("file_close")
    fl = ck.flow(fc, markers={"table": ev_call("fd_close"), "os": ev_call("xclose")}, track_markers=["table", "os"])
    for s in ck.sites(fl, ev_exit(), "return of file_close", 1):
        if s.passed("table") == s.passed("os"):
            ck.ok("D2.both-or-neither", s.where(), "file_close releases the table entry and the OS descriptor together (%s)" % ("both" if s.passed("os") else "deferred: write pending"))
        else:
            ck.violation("D2.both-or-neither", "D2|file_close|unpaired", s.where(), "file_close can release only one of {fd_table entry, OS descriptor}", fl.witness(s))

    ck.rule("D3 _comm_close: once flags.close_request is set, every path runs the close handlers and schedules comm_close_complete; a second close of a closing descriptor returns early")
    cc = facts.fn("_comm_close")
    req = ev_assign("fde::(anonymous struct)::close_request", E.m_const(1)) if False else (lambda ev: ev.get("e") == "asg" and E.m_is_mem("close_request")(ev.get("lhs")) and E.const(ev.get("rhs")) == 1)
    sites = [(b["id"], ev) for b in cc.blocks.values() for ev in b["ev"] if req(ev)]
    ck.need(len(sites) == 1, "C08: F->flags.close_request = true not found in _comm_close")
    complete_def = ck.local_defs(cc).get("completeCall", [])
    ck.need(complete_def and all("comm_close_complete" in E.mentions(t) for t in complete_def), "C08: completeCall is no longer built from comm_close_complete")
    fl = ck.flow(cc, start=sites[0][0], markers={"handlers": ev_call("commCallCloseHandlers"),
                                                  "complete": lambda ev: ev.get("e") == "call" and "ScheduleCall" in E.strip(ev["x"]).get("f", "") and "completeCall" in E.mentions(ev["x"])})
    ck.require_passed("D3.close-runs-to-completion", fl, ev_exit(), "handlers", "return after close_request", why="(close handlers would never learn about the closure)")
    ck.require_passed("D3.close-runs-to-completion", fl, ev_exit(), "complete", "return after close_request", why="(the descriptor would stay half-closed forever)")
    flall = ck.flow(cc)
    ck.require_fact("D3.single-close", flall, req, E.m_calls("fde::closing"), False, "close_request = true", why="(close handlers would run twice)")

    ck.rule("D4 a descriptor obtained from accept()/socket() is registered or closed on every path: TcpAcceptor::acceptInto registers the accepted socket right after the "
            "failure check; comm_openex reaches comm_init_opened() (which calls fd_open) for every successfully created socket")
    ai = facts.fn("Comm::TcpAcceptor::acceptInto")
    fl = ck.flow(ai)
    reg = ev_call("fd_open", arg={0: ck.m_closure(ai, "xaccept")})
    ck.require_fact("D4.accepted-registered", fl, reg, E.m_cmp("<", ck.m_closure(ai, "xaccept"), E.m_const(0)), False, "fd_open(accepted socket)")
    # after a successful accept, every path (including the later failure returns) has passed fd_open: the caller then closes through comm
    okedges = ck.trigger_edges(ai, E.m_cmp("<", ck.m_closure(ai, "xaccept"), E.m_const(0)), False)
    ck.need(len(okedges) >= 1, "C08: accept() failure test vanished")
    ck.require_response("D4.accepted-registered", ai, E.m_cmp("<", ck.m_closure(ai, "xaccept"), E.m_const(0)), False, reg, "fd_open(sock)", term_kinds=("IfStmt",),
                        why="(an accepted connection would be neither registered nor closed)")
    co = facts.fn("comm_openex")
    fl = ck.flow(co, markers={"init": ev_call("comm_init_opened")})
    ck.require_response("D4.created-registered", co, E.m_cmp("<", E.m_is_ref("new_socket"), E.m_const(0)), False, ev_call("comm_init_opened"), "comm_init_opened()", term_kinds=("IfStmt",),
                        why="(a created socket would be neither registered nor closed)")
    ci = facts.fn("comm_init_opened")
    flci = ck.flow(ci, markers={"open": ev_call("fd_open")})
    ck.require_passed("D4.created-registered", flci, ev_exit(), "open", "return of comm_init_opened")
    ck.rule("D5 IdleConnList (the idle server-connection array that pop/close/timeout handlers index and dereference): push() grows the array only with "
            "size_ == capacity_, copies *every* live entry -- the copy loop runs index = 0; index < size_ (exactly size_, no arithmetic on the bound); ++index and stores "
            "theList_[index] = oldList[index] -- stores the new connection at theList_[size_] and then increments size_ exactly once; an entry left nil below size_ "
            "is dereferenced by findIndexOf() when an older idle connection closes")
    pc = ck.facts(["src/pconn.cc"], whole=False)
    ph = pc.fn("IdleConnList::push")
    SZ, CAP, LST = "IdleConnList::size_", "IdleConnList::capacity_", "IdleConnList::theList_"
    loops = [b for b in ph.blocks.values() if b.get("term") and b["term"].get("k") == "ForStmt" and b["term"].get("c") is not None]
    ck.need(len(loops) == 1, "C08: IdleConnList::push no longer has exactly one copy loop")
    cond = E.strip(loops[0]["term"]["c"])
    lhs, rhs = E.strip(cond.get("l") or {}), E.strip(cond.get("r") or {})
    if cond.get("op") == "<" and lhs.get("k") == "ref" and lhs.get("dk") == "local" and E.m_is_mem(SZ)(rhs):
        ck.ok("D5.grow-copies-all", ph.where(loops[0]["term"]["l"]), "copy loop bound is index < size_")
        idx = lhs["d"]
    else:
        ck.violation("D5.grow-copies-all", "D5|IdleConnList::push|copy-bound", ph.where(loops[0]["term"]["l"]),
                     "the copy loop of IdleConnList::push runs while %s, not while index < size_: live entries are dropped (left nil) when the array grows" % E.key(cond))
        idx = lhs.get("d") if lhs.get("k") == "ref" else None
    pfl = ck.flow(ph)
    copies = [st for st in pfl.sites if st.ev.get("e") == "call" and E.strip(st.ev["x"]).get("f", "").endswith("operator=") and E.strip(E.strip(st.ev["x"]).get("o") or {}).get("k") == "idx"
              and E.m_is_mem(LST)(E.strip(E.strip(st.ev["x"])["o"]).get("b"))]
    ck.need(len(copies) == 2, "C08: expected the grow copy and the append store into theList_ in IdleConnList::push, found %d" % len(copies))
    for st in copies:
        x = E.strip(st.ev["x"])
        at = E.strip(E.strip(x["o"])["i"])
        src = E.strip(x["a"][0])
        if src.get("k") == "idx":       # the grow copy
            good = idx and E.m_is_ref(idx)(at) and E.m_is_ref(idx)(src.get("i"))
            (ck.ok if good else (lambda r, w, t: ck.violation(r, "D5|IdleConnList::push|copy-shape", w, t)))(
                "D5.grow-copies-all", st.where(), "theList_[index] = oldList[index]" if good else "the grow copy is %s (index mismatch)" % E.key(x)[:100])
        else:                               # the append
            good = E.m_is_mem(SZ)(at)
            (ck.ok if good else (lambda r, w, t: ck.violation(r, "D5|IdleConnList::push|append-slot", w, t)))(
                "D5.append-at-size", st.where(), "the new idle connection is stored at theList_[size_]" if good else "the new idle connection is stored at theList_[%s]" % E.key(at))
    ck.require_fact("D5.grow-only-when-full", pfl, lambda ev: ev.get("e") == "asg" and E.m_is_mem(CAP)(ev.get("lhs")), E.m_cmp("==", E.m_is_mem(SZ), E.m_is_mem(CAP)), True, "capacity_ <<= 1")
    incs = [st for st in pfl.sites if st.ev.get("e") == "asg" and E.m_is_mem(SZ)(st.ev.get("lhs"))]
    if len(incs) == 1 and incs[0].ev.get("op") == "++":
        ck.ok("D5.append-at-size", incs[0].where(), "size_ is incremented once")
    else:
        ck.violation("D5.append-at-size", "D5|IdleConnList::push|size-update", ph.where(), "size_ is updated %d time(s) in push()" % len(incs))
    ck.rule("D6 checkTimeouts (the sweep that lets stalled connections expire): the loop over the descriptor table ends only when the index has passed Biggest_FD, the "
            "highest open descriptor (fd_open: `if (fd > Biggest_FD) Biggest_FD = fd`), i.e. the last loop test established Biggest_FD < fd; the index starts at 0 and only "
            "moves by ++. A bound of `fd < Biggest_FD` never expires the connection holding the highest descriptor: it stays open for ever")
    ct = facts.fn("checkTimeouts")
    cfl = ck.flow(ct)
    loops = [b for b in ct.blocks.values() if (b.get("term") or {}).get("k") in ("ForStmt", "WhileStmt") and "Biggest_FD" in E.mentions(b["term"]["c"])]
    ck.need(len(loops) == 1, "C08: checkTimeouts has no single loop bounded by Biggest_FD")
    idx = [n["d"] for n in E.walk(loops[0]["term"]["c"]) if n.get("k") == "ref" and n.get("dk") == "local"]
    ck.need(len(set(idx)) == 1, "C08: checkTimeouts loop index not identified")
    FD = idx[0]
    moves = [ev for b in ct.blocks.values() for ev in b["ev"] if ev.get("e") == "asg" and E.m_is_ref(FD)(ev.get("lhs"))]
    if moves and all((ev.get("op") == "=" and E.const(ev.get("rhs")) == 0) or ev.get("op") == "++" for ev in moves):
        ck.ok("D6.timeout-sweep-complete", ct.where(), "checkTimeouts: %s starts at 0 and only moves by ++" % FD)
    else:
        ck.violation("D6.timeout-sweep-complete", "D6|checkTimeouts|index-updates", ct.where(), "checkTimeouts: the descriptor index is set by %s" % sorted({ev.get("op") + E.key(ev.get("rhs")) for ev in moves}))
    passed = E.m_cmp("<", E.M(lambda t: "Biggest_FD" in E.mentions(t) and E.strip(t).get("k") == "ref", "Biggest_FD"), E.m_is_ref(FD))
    ck.require_fact("D6.timeout-sweep-complete", cfl, ev_exit(), passed, True, "function exit", why="(descriptors up to and including Biggest_FD must be visited)")

    ck.assume("leak freedom over job lifetimes/abort histories and liveness are not decided; only the fd_table bookkeeping pairs and the close sequence")
