"""C22 Request-line acceptance matches the HTTP grammar: character classes and field gates (DESIGN.md 5/C22)."""
import string

from .. import expr as E
from ..charset import Folder, show
from ..flow import ev_call, ev_return

RP = "Http::One::RequestParser::"

ALPHA = frozenset(map(ord, string.ascii_letters))
DIGIT = frozenset(map(ord, string.digits))
TCHAR = frozenset(map(ord, "!#$%&'*+-.^_`|~")) | DIGIT | ALPHA                      # RFC 9110 5.6.2
HEXDIG_RELAXED = frozenset(map(ord, "0123456789abcdefABCDEF"))
UNRESERVED = ALPHA | DIGIT | frozenset(map(ord, "-._~"))                          # RFC 3986 2.3
URI_CHARS = UNRESERVED | frozenset(map(ord, ":/?#[]@")) | frozenset(map(ord, "!$&'()*+,;=")) | frozenset(map(ord, "%"))   # RFC 3986 2
RELAXED_DELIMS = frozenset([0x20, 0x09, 0x0B, 0x0C, 0x0D])                         # RFC 9112 2.2 tolerated whitespace


def run(ck):
    facts = ck.facts(["src/base/CharacterSet.cc", "src/http/one/RequestParser.cc", "src/http/one/Parser.cc"])
    relaxed = E.m_is_mem("relaxed_header_parser")
    strict = Folder(ck, facts, assume=[(relaxed, False)])
    lax = Folder(ck, facts, assume=[(relaxed, True)])

    ck.rule("G1 ENUMTABLE(fold): the character classes used by the request-line parser, folded from their defining expressions in the source, equal the "
            "RFC 9110/9112/3986 sets: TCHAR, DIGIT, ALPHA, HEXDIG, RFC3986_UNRESERVED(), UriValidCharacters(), strict RequestTargetCharacters(), "
            "strict DelimiterCharacters() == {SP}, relaxed DelimiterCharacters() == {SP, HTAB, VT, FF, CR}")

    def expect(name, got, want):
        if got == want:
            ck.ok("G1.charset", "src/base/CharacterSet.cc", "%s == RFC set (%d bytes)" % (name, len(got)))
        else:
            ck.violation("G1.charset", "G1|%s" % name, "src/base/CharacterSet.cc",
                         "%s differs from the RFC set: extra {%s} missing {%s}" % (name, show(got - want), show(want - got)))

    for name, want in (("CharacterSet::TCHAR", TCHAR), ("CharacterSet::DIGIT", DIGIT), ("CharacterSet::ALPHA", ALPHA), ("CharacterSet::HEXDIG", HEXDIG_RELAXED),
                       ("CharacterSet::SP", frozenset([0x20])), ("CharacterSet::CR", frozenset([0x0D])), ("CharacterSet::LF", frozenset([0x0A])),
                       ("CharacterSet::WSP", frozenset([0x20, 0x09]))):
        expect(name, strict.fold({"k": "ref", "d": name, "dk": "global"}), want)
    expect("CharacterSet::RFC3986_UNRESERVED()", strict.fold_function("CharacterSet::RFC3986_UNRESERVED"), UNRESERVED)
    expect("UriValidCharacters()", strict.fold_function("UriValidCharacters"), URI_CHARS)
    expect("strict RequestTargetCharacters()", strict.fold_function(RP + "RequestTargetCharacters"), URI_CHARS)
    expect("strict DelimiterCharacters()", strict.fold_function("Http::One::Parser::DelimiterCharacters"), frozenset([0x20]))
    expect("relaxed DelimiterCharacters()", lax.fold_function("Http::One::Parser::DelimiterCharacters"), RELAXED_DELIMS)
    expect("strict WhitespaceCharacters()", strict.fold_function("Http::One::Parser::WhitespaceCharacters"), frozenset([0x20, 0x09]))
    got = lax.fold_function(RP + "RequestTargetCharacters")
    want_min = URI_CHARS | RELAXED_DELIMS
    if want_min <= got and not (got & frozenset(range(0, 32)) - RELAXED_DELIMS) and 0x7F not in got and 0x0A not in got:
        ck.ok("G1.charset", "src/http/one/RequestParser.cc", "relaxed RequestTargetCharacters() = URI chars + tolerated whitespace + documented extras {%s}, no other control bytes" % show(got - want_min)[:60])
    else:
        ck.violation("G1.charset", "G1|relaxed-RequestTargetCharacters", "src/http/one/RequestParser.cc",
                     "relaxed request-target set admits control bytes {%s} or lacks {%s}" % (show((got & frozenset(range(0, 33))) - RELAXED_DELIMS), show(want_min - got)))

    ck.rule("G2 parseMethodField: method = tok.prefix(_, TCHAR, 32) then a delimiter; parseUriField: uri = tok.prefix(_, RequestTargetCharacters()); "
            "skipDelimiter: count == 0 fails, count > 1 fails unless relaxed; skipTrailingCrs (strict) requires exactly one CR")
    pm = facts.fn(RP + "parseMethodField")
    fl = ck.flow(pm)
    pre = [s for s in fl.find(ev_call("Parser::Tokenizer::prefix"))]
    ck.need(len(pre) == 1, "C22: tok.prefix() call not found in parseMethodField")
    a = E.strip(pre[0].ev["x"])["a"]
    if E.strip(a[1]).get("d") == "CharacterSet::TCHAR" and E.const(a[2]) == 32:
        ck.ok("G2.method-field", pre[0].where(), "method = prefix(TCHAR, 32)")
    else:
        ck.violation("G2.method-field", "G2|parseMethodField|prefix-args", pre[0].where(), "method is parsed with prefix(%s, %s)" % (E.key(a[1]), E.key(a[2])))
    rt = ev_return(E.m_const(1))
    ck.require_fact("G2.method-field", fl, rt, E.m_calls("Parser::Tokenizer::prefix"), True, "return true", history=True)
    ck.require_fact("G2.method-field", fl, rt, E.m_calls(RP + "skipDelimiter"), True, "return true", history=True, why="(a method not followed by whitespace would be accepted)")
    pu = facts.fn(RP + "parseUriField")
    fl = ck.flow(pu)
    pre = fl.find(ev_call("Parser::Tokenizer::prefix"))
    ck.need(len(pre) == 1, "C22: tok.prefix() call not found in parseUriField")
    a = E.strip(pre[0].ev["x"])["a"]
    if RP + "RequestTargetCharacters" in E.mentions(a[1]):
        ck.ok("G2.uri-field", pre[0].where(), "uri = prefix(RequestTargetCharacters())")
    else:
        ck.violation("G2.uri-field", "G2|parseUriField|prefix-args", pre[0].where(), "URI is parsed with prefix(%s)" % E.key(a[1]))
    ck.require_fact("G2.uri-field", fl, rt, E.m_calls("Parser::Tokenizer::prefix"), True, "return true", history=True)
    sd = facts.fn(RP + "skipDelimiter")
    fl = ck.flow(sd, assume=[(relaxed, False)])
    ck.require_interval("G2.one-delimiter", fl, rt, E.m_is_ref("count"), 1, 1, "return true (strict)", why="(strict mode must accept exactly one SP between fields)")
    fl = ck.flow(sd)
    ck.require_interval("G2.some-delimiter", fl, rt, E.m_is_ref("count"), 1, None, "return true")
    sc = facts.fn(RP + "skipTrailingCrs")
    fl = ck.flow(sc, assume=[(relaxed, False)])
    one_cr = E.m_calls("Parser::Tokenizer::skipOneTrailing") & E.M(lambda t: E.strip(E.strip(t)["a"][0]).get("d") == "CharacterSet::CR", "skipOneTrailing(CR)")
    ck.require_fact("G2.strict-crlf", fl, rt, one_cr, True, "return true (strict)", history=True, why="(a bare LF line end would be accepted in strict mode)")

    ck.rule("G3 parseRequestFirstLine: `return 1` only after parseMethodField, skipTrailingCrs, parseHttpVersionField, parseUriField succeeded, the delimiter before the "
            "version was checked unless HTTP/0.9, and nothing is left after the URI (tok.atEnd())")
    fl = ck.flow(facts.fn(RP + "parseRequestFirstLine"))
    r1 = ev_return(E.m_const(1))
    for callee in ("parseMethodField", "skipTrailingCrs", "parseHttpVersionField", "parseUriField"):
        ck.require_fact("G3.all-fields", fl, r1, E.m_calls(RP + callee), True, "return 1", history=True, why="(%s failure ignored)" % callee)
    ck.require_fact("G3.nothing-left", fl, r1, E.m_calls("Parser::Tokenizer::atEnd"), True, "return 1", history=True, why="(garbage after the URI would be accepted)")
    ck.require_any("G3.version-delimiter", facts.fn(RP + "parseRequestFirstLine"), r1,
                   [(E.m_calls(RP + "http0"), True), (E.m_calls(RP + "skipDelimiter"), True)], "return 1", track_history=True,
                   why="(a version token glued to the URI would be accepted)")
    ck.rule("G4 parseHttpVersionField, general HTTP/<digits>.<digits> form: a digit string is converted through its first character (`*X.rawContent() - '0'`) only under a "
            "condition that establishes X.length() > 1 false for *that* string; otherwise the version is the 'unsupported' 0.0 (HTTP/1.10 or HTTP/11.1 must not be "
            "read as HTTP/1.1)")
    vf = facts.fn(RP + "parseHttpVersionField")
    vdefs = ck.local_defs(vf)
    nconv = 0
    for b in vf.blocks.values():
        for ev in b["ev"]:
            if ev.get("e") not in ("decl", "asg"):
                continue
            init = E.strip(ev.get("init") if ev.get("e") == "decl" else ev.get("rhs"))
            if not isinstance(init, dict):
                continue
            for n in E.walk(init):
                if n.get("k") != "cond":
                    continue
                for arm, val in ((n.get("t"), True), (n.get("f"), False)):
                    digs = [E.strip(c.get("o")).get("d") for c in E.walk(arm) if c.get("k") == "call" and c.get("f", "").endswith("SBuf::rawContent") and E.strip(c.get("o") or {}).get("k") == "ref"]
                    for dg in digs:
                        nconv += 1
                        cond = n["c"]
                        cs = E.strip(cond)
                        if cs.get("k") == "ref" and len(vdefs.get(cs.get("d"), [])) == 1:
                            cond = vdefs[cs["d"]][0]        # look through the bool local
                        leaves = E.implied(cond, val)
                        longer = E.M(lambda t, dg=dg: E.strip(t).get("k") == "bin" and E.strip(t).get("op") == "<" and E.const(E.strip(t)["l"]) == 1 and
                                     any(c.get("f", "").endswith("SBuf::length") and E.m_is_ref(dg)(c.get("o")) for c in E.walk(E.strip(t)["r"])), "%s.length() > 1" % dg)
                        if any(longer(t) and v is False for t, v in leaves):
                            ck.ok("G4.single-digit-version", vf.where(ev["l"]), "%s is read through its first digit only when it has exactly one" % dg)
                        else:
                            ck.violation("G4.single-digit-version", "G4|parseHttpVersionField|%s|multi-digit-read-as-first-digit" % dg, vf.where(ev["l"]),
                                         "`%s` is converted through its first character on a path that does not establish %s.length() > 1 false: a multi-digit "
                                         "version number (HTTP/1.10, HTTP/11.1) is accepted and reported as its first digits" % (dg, dg))
    ck.need(nconv >= 2, "C22: the single-digit conversions of major/minor version digits were not found in parseHttpVersionField")
    ck.assume("full language equivalence with the ABNF (field order, version token, length limits) is not decided beyond these gates and character classes")
