"""C56 Inter-process queues are FIFO without lost items or wakeups: SPSC discipline of Ipc::OneToOneUniQueue (DESIGN.md 5/C56)."""
from .. import expr as E
from ..flow import ev_call, ev_return, ev_exit, ev_any, ev_call_short

Q = "Ipc::OneToOneUniQueue::"
R = "Ipc::QueueReader::"


def run(ck):
    facts = ck.facts(["src/ipc/Queue.cc", "src/DiskIO/IpcIo/IpcIoFile.cc"], whole=True)

    def pattern(name):
        c = [f for f in facts.fns(Q + name) if f.tmpl == 1]
        ck.need(len(c) == 1, "C56: template pattern of %s%s not found" % (Q, name))
        return c[0]

    on_size = lambda opname: (lambda ev: ev.get("e") == "call" and E.strip(ev["x"]).get("f", "").endswith(opname) and E.m_is_mem("theSize")(E.strip(ev["x"]).get("o")))
    copy = ev_call_short("memcpy")

    ck.rule("Q1 push: the copy happens only with full() false, the item is copied before theSize++ publishes it, wasEmpty is the result of that very RMW, "
            "and the wake-up decision is (wasEmpty && (!reader || reader->raiseSignal()))")
    push = pattern("push")
    fl = ck.flow(push, markers={"copied": copy})
    ck.require_fact("Q1.not-full", fl, copy, E.m_calls(Q + "full"), False, "memcpy", why="(an unread slot would be overwritten)")
    ck.require_passed("Q1.publish-after-copy", fl, on_size("operator++"), "copied", "theSize++", why="(the reader could see the count before the data)")
    we = ck.local_defs(push).get("wasEmpty", [])
    good = bool(we) and all(E.strip(t).get("k") == "un" and E.strip(t).get("op") == "!" and on_size("operator++")({"e": "call", "x": E.strip(t)["e"]}) for t in we)
    if good:
        ck.ok("Q1.wasEmpty-from-rmw", push.where(), "wasEmpty = !theSize++ (the value returned by the publishing RMW)")
    else:
        ck.violation("Q1.wasEmpty-from-rmw", "Q1|push|wasEmpty", push.where(), "wasEmpty is no longer the result of the theSize++ RMW: %s (a separate read can miss the empty->non-empty transition)" % [E.key(t) for t in we])
    for s in fl.find(ev_return()):
        m = E.mentions(s.ev.get("x"))
        if "wasEmpty" in m and R + "raiseSignal" in m:
            ck.ok("Q1.wakeup", s.where(), "push returns %s" % E.key(s.ev["x"]))
        else:
            ck.violation("Q1.wakeup", "Q1|push|wakeup-expr", s.where(), "push no longer returns wasEmpty && (!reader || reader->raiseSignal()): %s" % E.key(s.ev["x"]))

    ck.rule("Q2 pop: the copy happens only after the last empty() test was false; once the reader announced block(), `return false` needs a second empty() "
            "test after the announcement; the item is copied before --theSize frees the slot")
    pop = pattern("pop")

    def retest(ev, env, facts_):
        if ev_call(R + "block")(ev):
            env["#blocked"] = 1
            env.pop("#retest", None)
        elif ev_call(Q + "empty")(ev) and env.get("#blocked") == 1:
            env["#retest"] = 1
    fl = ck.flow(pop, markers={"copied": copy}, on_event=retest)
    ck.require_fact("Q2.not-empty", fl, copy, E.m_calls(Q + "empty"), False, "memcpy", why="(a stale slot would be returned)")
    ck.require_passed("Q2.free-after-copy", fl, on_size("operator--"), "copied", "--theSize", why="(the writer could overwrite the slot being copied)")
    rf = ck.sites(fl, ev_return(E.m_const(0)), "return false", 2)
    blocked = [s for s in rf if s.env.get("#blocked") == 1]
    ck.need(blocked, "C56: no `return false` after reader->block() found in pop")
    for s in blocked:
        if s.env.get("#retest") == 1 and s.has(E.m_calls(Q + "empty"), True):
            ck.ok("Q2.retest-after-block", s.where(), "after block() the queue is tested again before giving up")
        else:
            ck.violation("Q2.retest-after-block", "Q2|pop|no-retest-after-block", s.where(),
                         "pop returns false after reader->block() without re-testing empty(): a push between the first test and block() is never signalled (lost wakeup)")

    ck.rule("Q3 WHO-writes: theIn only in push, theOut only in pop (single producer/consumer indexes); theSize only through ++/-- RMWs; "
            "QueueReader::raiseSignal uses exchange(); clearSignal unblocks before clearing the signal")
    ck.who_writes("Q3.index-owners", facts, "Ipc::OneToOneUniQueue::theIn", {Q + "push": "producer", Q + "OneToOneUniQueue": "constructor"}, min_writers=1)
    ck.who_writes("Q3.index-owners", facts, "Ipc::OneToOneUniQueue::theOut", {Q + "pop": "consumer", Q + "OneToOneUniQueue": "constructor"}, min_writers=1)
    for (n, f, l, op, cv) in facts.writers("Ipc::OneToOneUniQueue::theSize"):
        if op in ("++", "--", "init"):
            ck.ok("Q3.size-rmw", "%s:%d" % (f.split("/src/")[-1], l), "%s changes theSize with %s" % (n, op))
        else:
            ck.violation("Q3.size-rmw", "Q3|theSize|%s|%s" % (n, op), "%s:%d" % (f.split("/src/")[-1], l), "%s writes theSize with '%s' (not an atomic ++/--)" % (n, op))
    rs = facts.fn(R + "raiseSignal")
    ex = [ev for b in rs.blocks.values() for ev in b["ev"] if ev.get("e") == "call" and E.strip(ev["x"]).get("f", "").endswith("::exchange") and E.m_is_mem("popSignal")(E.strip(ev["x"]).get("o"))]
    if ex:
        ck.ok("Q3.signal-exchange", rs.where(), "raiseSignal claims the signal with popSignal.exchange(true)")
    else:
        ck.violation("Q3.signal-exchange", "Q3|raiseSignal|exchange", rs.where(), "raiseSignal no longer uses an atomic exchange on popSignal (two writers could both/neither notify)")
    cs = facts.fn(R + "clearSignal")
    fl = ck.flow(cs, markers={"unblocked": ev_call(R + "unblock")})
    st = lambda ev: ev.get("e") == "call" and E.strip(ev["x"]).get("f", "").endswith("::store") and E.m_is_mem("popSignal")(E.strip(ev["x"]).get("o"))
    ck.require_passed("Q3.clear-order", fl, st, "unblocked", "popSignal.store(false)")
    ck.assume("FIFO order and absence of lost wakeups under all interleavings are not decided; only the single-writer/publish-order discipline is")
