"""C03 No request smuggling: framing gates (DESIGN.md section 5, C03)."""
from .. import expr as E
from ..flow import ev_call, ev_exit, ev_return, ev_assign, ev_any
from .C04 import is_mutator


def list_scan_complete(ck, rule="P6.list-scan-complete", pid="C03"):
    ck.rule("%s ContentLengthInterpreter::checkList: the scan over a list-valued Content-Length stops early only with sawBad established; "
            "otherwise it runs until strListGetItem() is exhausted (a later conflicting value must not be skipped after a tolerated duplicate)" % rule.split(".")[0])
    cl = ck.facts(["src/http/ContentLengthInterpreter.cc"]).fn("Http::ContentLengthInterpreter::checkList")
    scan = ev_call("strListGetItem")
    after_scan = lambda ev: ev.get("e") == "ret"
    fl6 = ck.flow(cl, markers={"scan": scan}, track_markers=["scan"],
                  track_atoms={"more": E.m_calls("strListGetItem"), "bad": E.m_is_mem("sawBad")})
    rets = [s for s in fl6.find(after_scan) if s.passed("scan")]
    ck.need(rets, "%s: no return after the list scan in checkList" % pid)
    for s in rets:
        if s.tracked("more") is False or s.tracked("bad") is True:
            ck.ok(rule, s.where(), "checkList leaves the scan with the list exhausted or sawBad set")
        else:
            ck.violation(rule, "%s|checkList|early-exit-without-sawBad" % rule.split(".")[0], s.where(),
                         "checkList can stop scanning a Content-Length list while items remain and sawBad is not set: e.g. '5, 5, 95' is sanitised to 5 "
                         "and the conflicting 95 is never seen", fl6.witness(s))


def run(ck):
    facts = ck.facts(["src/HttpHeader.cc", "src/HttpRequest.cc", "src/client_side.cc", "src/http.cc", "src/client_side_reply.cc",
                      "src/servers/FtpServer.cc"], whole=False)
    hdr = facts.enum("Http::HdrType")
    CL, TE = hdr["CONTENT_LENGTH"], hdr["TRANSFER_ENCODING"]

    # ------------------------------------------------------------------ HttpHeader::parse
    parse = [f for f in facts.fns("HttpHeader::parse") if f.sig.startswith("const char *, size_t, Http::ContentLengthInterpreter")]
    ck.need(len(parse) == 1, "C03: HttpHeader::parse(const char*, size_t, ContentLengthInterpreter&) not found")
    parse = parse[0]
    add_or_ok = ev_any(ev_call("HttpHeader::addEntry"), ev_return(E.m_const(1)))

    ck.rule("P1a HttpHeader::parse: addEntry/return 1 only with memchr(header_start,'\\0',hdrLen) established null")
    fl = ck.flow(parse)
    nul = E.m_mentions("memchr", "header_start", "hdrLen")
    ck.require_fact("P1a.nul-rejected", fl, add_or_ok, nul, False, "addEntry|return 1", min_sites=2, why="(a header block with NUL bytes would be accepted)")

    ck.rule("P1b addEntry(e) only if the field was single-line without bare CR, or is not Content-Length/Transfer-Encoding "
            "(framingHeader local is defined from both ids)")
    ck.require_any("P1b.obs-fold-framing", parse, ev_call("HttpHeader::addEntry", arg={0: E.m_is_ref("e")}),
                   [(E.m_cmp("<", E.m_const(1), E.m_is_ref("lines")), False), (E.m_is_ref("framingHeader"), False)],
                   "addEntry(e)", why="(a folded/bare-CR Content-Length or Transfer-Encoding field would be accepted)")
    defs = ck.local_defs(parse).get("framingHeader", [])
    consts = set()
    for t in defs:
        for n in E.walk(t):
            if n.get("k") == "bin" and n.get("op") == "==" and "HttpHeaderEntry::id" in E.mentions(n):
                c = E.const(n.get("r"))
                if c is not None:
                    consts.add(c)
    if {CL, TE} <= consts:
        ck.ok("P1b.obs-fold-framing", parse.where(), "framingHeader is defined from e->id == CONTENT_LENGTH || e->id == TRANSFER_ENCODING")
    else:
        ck.violation("P1b.obs-fold-framing", "P1b|framingHeader-def", parse.where(), "framingHeader no longer covers both CONTENT_LENGTH and TRANSFER_ENCODING (covers ids %s)" % sorted(consts))
    # hasBareCr must be part of the same guard
    multi_edges = ck.trigger_edges(parse, E.m_is_ref("hasBareCr"), False)
    ck.need(len(multi_edges) >= 1, "C03: the (lines > 1 || hasBareCr) guard vanished")

    ck.rule("P1c RESPONSE(cr_only true -> return 0) and the CR-only scan is reached for request owners")
    ck.require_response("P1c.cr-only-rejected", parse, E.m_is_ref("cr_only"), True, ev_return(E.m_const(0)), "return 0", term_kinds=("IfStmt",),
                        why="(a CR-only request header line would be accepted)")

    ck.rule("P1d RESPONSE(Transfer-Encoding present -> delById(CONTENT_LENGTH)); RESPONSE(clen.sawBad -> delById(CONTENT_LENGTH) and conflictingContentLength_=true); "
            "RESPONSE(TE value != \"chunked\" -> teUnsupported_=true)")
    has_te = E.m_calls("HttpHeader::getByIdIfPresent") & E.M(lambda t: E.const(E.strip(t)["a"][0]) == TE, "arg0==TRANSFER_ENCODING")
    del_cl = ev_call("HttpHeader::delById", arg={0: E.m_const(CL)})
    ck.require_response("P1d.te-overrides-cl", parse, has_te, True, del_cl, "delById(CONTENT_LENGTH)", why="(both Transfer-Encoding and Content-Length would stay visible)")
    saw_bad = E.m_is_mem("Http::ContentLengthInterpreter::sawBad")
    ck.require_response("P1d.bad-cl-removed", parse, saw_bad, True, del_cl, "delById(CONTENT_LENGTH)")
    ck.require_response("P1d.bad-cl-flagged", parse, saw_bad, True, ev_assign("HttpHeader::conflictingContentLength_", E.m_const(1)), "conflictingContentLength_=true")
    not_chunked = E.m_calls("String::caseCmp") & E.M(lambda t: E.strip(E.strip(t)["a"][0]).get("v") == "chunked", "arg0==\"chunked\"")
    ck.require_response("P1d.unsupported-te-flagged", parse, not_chunked, True, ev_assign("HttpHeader::teUnsupported_", E.m_const(1)), "teUnsupported_=true",
                        why="(an unknown transfer coding would be treated as absent)")

    # ------------------------------------------------------------------ HttpRequest::checkEntityFraming
    ck.rule("P3 HttpRequest::checkEntityFraming: return scNone only with unsupportedTe() false and (chunked() true or conflictingContentLength() false)")
    cef = facts.fn("HttpRequest::checkEntityFraming")
    fl = ck.flow(cef)
    ret_none = ev_return(E.m_const(0))
    ck.require_fact("P3.unsupported-te", fl, ret_none, E.m_calls("HttpHeader::unsupportedTe"), False, "return scNone", why="(unsupported Transfer-Encoding would be accepted)")
    ck.require_any("P3.conflicting-cl", cef, ret_none,
                   [(E.m_calls("HttpHeader::chunked"), True), (E.m_calls("HttpHeader::conflictingContentLength"), False)], "return scNone",
                   why="(conflicting Content-Length values would be accepted)")

    # ------------------------------------------------------------------ clientProcessRequest
    ck.rule("P2 clientProcessRequest: doCallouts()/expectRequestBody() only with checkEntityFraming()==scNone established; "
            "RESPONSE(framing error -> quitAfterError + setReplyToError)")
    cpr = facts.fn("clientProcessRequest")
    fl = ck.flow(cpr)
    fs = ck.m_result_of(cpr, "HttpRequest::checkEntityFraming")
    ck.require_fact("P2.framing-gate", fl, ev_any(ev_call("ClientHttpRequest::doCallouts"), ev_call("ConnStateData::expectRequestBody")), fs, False,
                    "doCallouts|expectRequestBody", min_sites=2, why="(a request with bad framing would be forwarded)")
    ck.require_response("P2.framing-error-closes", cpr, fs, True, ev_call("ConnStateData::quitAfterError"), "quitAfterError", term_kinds=("IfStmt",),
                        why="(the connection would stay open after a framing error)")
    ck.require_response("P2.framing-error-replies", cpr, fs, True, ev_call("clientReplyContext::setReplyToError"), "setReplyToError", term_kinds=("IfStmt",))

    # ------------------------------------------------------------------ request header builder
    ck.rule("P4 copyOneHeader...: case TRANSFER_ENCODING never copied; case CONTENT_LENGTH copied only if !flags.chunked_request; "
            "every putStr(TRANSFER_ENCODING, x) in http.cc/client_side_reply.cc/FtpServer.cc has x == \"chunked\"")
    copy1 = facts.fn("copyOneHeaderFromClientsideRequestToUpstreamRequest")
    on_id = lambda K: (lambda cond: K if "HttpHeaderEntry::id" in E.mentions(cond) else None)
    fl = ck.flow(copy1, switch_assume=on_id(TE))
    ck.require_unreachable("P4.te-not-copied", fl, is_mutator, "header-mutator", "e->id==TRANSFER_ENCODING")
    fl = ck.flow(copy1, switch_assume=on_id(CL))
    ck.require_fact("P4.cl-only-if-not-chunking", fl, is_mutator, E.m_is_mem("Http::StateFlags::chunked_request"), False, "mutator under CONTENT_LENGTH",
                    why="(Content-Length would be sent together with squid's own chunked encoding)")
    ck.rule("P4b MUST-COPY: under e->id == CONTENT_LENGTH and !flags.chunked_request every path through the filter passes addEntry(e->clone()) "
            "(Content-Length must not be droppable, e.g. by being named in Connection:, while the body is still forwarded)")
    fl = ck.flow(copy1, switch_assume=on_id(CL), assume=[(E.m_is_mem("Http::StateFlags::chunked_request"), False)],
                 markers={"copied": ev_call("HttpHeader::addEntry", arg={0: E.m_mentions("HttpHeaderEntry::clone")})})
    ck.require_passed("P4b.cl-always-copied", fl, ev_exit(), "copied", "return", why="(a request body would be forwarded without its Content-Length framing)")
    n = 0
    for fn in facts.all_fns():
        for b in fn.blocks.values():
            for ev in b["ev"]:
                if ev_call("HttpHeader::putStr", arg={0: E.m_const(TE)})(ev):
                    n += 1
                    x = E.strip(ev["x"])
                    if E.m_str("chunked")(x["a"][1]):
                        ck.ok("P4.te-literal", fn.where(ev["l"]), "%s emits Transfer-Encoding: chunked (literal)" % fn.name)
                    else:
                        ck.violation("P4.te-literal", "P4|te-literal|%s" % fn.name, fn.where(ev["l"]), "%s emits Transfer-Encoding with a non-literal/other value %s" % (fn.name, E.key(x["a"][1])))
    ck.need(n >= 3, "C03: expected >= 3 Transfer-Encoding emitters, found %d" % n)

    # ------------------------------------------------------------------ Content-Length lists
    list_scan_complete(ck)
    ck.rule("P1e HttpHeader::parse drops only the single CR of a CRLF line end, so that the bare-CR rejection of Content-Length/Transfer-Encoding (P1) sees every other CR "
            "(shared with C25 F1b)")
    from .C25 import single_cr_drop
    single_cr_drop(ck, ck.facts(["src/HttpHeader.cc"]), rule="P1e.only-one-cr-dropped")

    # ------------------------------------------------------------------ kick
    ck.rule("P5 ConnStateData::kick: parseRequests() only with stoppedReceiving() established null")
    kick = facts.fn("ConnStateData::kick")
    fl = ck.flow(kick)
    ck.require_fact("P5.no-parse-after-error", fl, ev_call("ConnStateData::parseRequests"), ck.m_result_of(kick, "ConnStateData::stoppedReceiving"), False,
                    "parseRequests()", why="(leftover body bytes would be parsed as the next request)")
    ck.assume("does not compare message boundaries with a reference parser; only the rejection/override gates are decided")
