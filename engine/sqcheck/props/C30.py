"""C30 URI parsing validates authority: port clause (DESIGN.md 5/C30)."""
from .. import expr as E
from ..flow import ev_call, ev_return, ev_assign

LOSSY = {"atoi", "atol", "atoll", "sscanf"}


def uri_cache_coherence(ck, facts, rule="U5.canonical-cache-coherent"):
    """every AnyP::Uri member function that changes a component the canonical forms are built from clears the cached forms (touch()) afterwards"""
    from ..flow import ev_exit
    touch = facts.fn("AnyP::Uri::touch")
    cached = set()
    for b in touch.blocks.values():
        for ev in b["ev"]:
            if ev.get("e") == "call":
                x = E.strip(ev["x"])
                o = E.strip(x.get("o") or {})
                if o.get("k") == "mem" and x.get("f", "").split("::")[-1] == "clear":
                    cached.add(o["m"])
    ck.need(len(cached) >= 3, "C30: AnyP::Uri::touch() no longer clears the cached canonical forms: %s" % sorted(cached))

    def component_write(ev):
        if ev.get("e") == "asg":
            l = E.strip(ev.get("lhs"))
            return l.get("k") == "mem" and l["m"].startswith("AnyP::Uri::") and l["m"] not in cached and E.strip(l.get("b") or {}).get("k") == "this"
        if ev.get("e") == "call":
            x = E.strip(ev["x"])
            o = E.strip(x.get("o") or {})
            return (o.get("k") == "mem" and o["m"].startswith("AnyP::Uri::") and o["m"] not in cached and E.strip(o.get("b") or {}).get("k") == "this"
                    and not x.get("cm") and x.get("f", "").split("::")[-1] not in ("operator->", "operator*"))
        return False

    is_touch = lambda ev: ev.get("e") == "call" and E.strip(ev["x"]).get("f") == "AnyP::Uri::touch"
    nfn = 0
    for f in facts.all_fns(lambda f: f.name.startswith("AnyP::Uri::") and f.name.count("::") == 2):
        short = f.name.split("::")[-1]
        if short in ("Uri", "~Uri", "touch", "operator="):
            continue
        if not any(component_write(ev) for b in f.blocks.values() for ev in b["ev"]):
            continue
        nfn += 1

        def track(ev, env, fs):
            if component_write(ev):
                env["#wrote"] = 1
                env.pop("#touched", None)
            elif is_touch(ev):
                env["#touched"] = 1
        fl = ck.flow(f, on_event=track)
        bad = [st for st in fl.find(ev_exit(("ret", "fall"))) if st.env.get("#wrote") == 1 and st.env.get("#touched") != 1]
        if not bad:
            ck.ok(rule, f.where(), "%s: every path that changes a URI component ends with touch()" % f.name)
        else:
            ck.violation(rule, "%s|%s|component-changed-without-touch" % (rule.split(".")[0], f.name), bad[0].where(),
                         "%s changes a URI component but can return without touch(): absolute()/authority()/absolutePath() keep returning the forms cached before the "
                         "change (e.g. the URL purged for a relative Location is still the request URL)" % f.name, fl.witness(bad[0]))
    ck.need(nfn >= 1, "C30: no AnyP::Uri member function changing a URI component was found in the analysed unit")


def run(ck):
    facts = ck.facts(["src/anyp/Uri.cc", "src/base/CharacterSet.cc"])
    parse = facts.fn("AnyP::Uri::parse")
    fl = ck.flow(parse)

    ck.rule("U1 GINT(AnyP::Uri::parse): at port(foundPort) the guards give foundPort in [1,65535]; host(foundHost) only after the '..'/leading-dot rejection")
    set_port = ev_call("AnyP::Uri::port", nargs=1, arg={0: E.M(lambda t: E.m_is_ref("foundPort")(t) or (E.strip(t).get("k") == "ctor" and len(E.strip(t)["a"]) == 1 and E.m_is_ref("foundPort")(E.strip(t)["a"][0])), "foundPort")})
    ck.require_interval("U1.port-range", fl, set_port, E.m_is_ref("foundPort"), 1, 65535, "port(foundPort)", why="(an out-of-range port would be stored truncated)")
    set_host = ev_call("AnyP::Uri::host", nargs=1, arg={0: E.m_is_ref("foundHost")})
    dots = E.m_calls("strstr") & E.M(lambda t: E.strip(E.strip(t)["a"][1]).get("v") == "..", "strstr(foundHost, \"..\")")
    ck.require_fact("U1.host-labels", fl, set_host, dots, False, "host(foundHost)", why="(a host with an empty label would be accepted)")

    ck.rule("U1b AnyP::Uri::parse: the '..'/leading-dot rejection looks at a host from which *every* trailing dot has been removed: on each path to it the last evaluation of "
            "the trailing-dot test `foundHost[--l] == '.'` was false (or the host was empty). A single conditional strip leaves \"name..\" as \"name.\" (an empty last label)")
    on_host = lambda t: any(n.get("k") == "ref" and n.get("d") == "foundHost" for n in E.walk(t))
    last_is_dot = E.M(lambda t: E.strip(t).get("k") == "bin" and E.strip(t).get("op") == "==" and any(
        E.strip(a).get("k") == "idx" and on_host(E.strip(a).get("b")) and E.const(E.strip(a).get("i")) is None and E.const(b) == 46
        for a, b in ((E.strip(t)["l"], E.strip(t)["r"]), (E.strip(t)["r"], E.strip(t)["l"]))), "(foundHost[last] == '.')")
    non_empty = E.M(lambda t: E.strip(t).get("k") == "bin" and E.strip(t).get("op") == "<" and E.const(E.strip(t)["l"]) == 0 and "strlen" in E.key(E.strip(t)["r"]) and on_host(E.strip(t)["r"]),
                    "(0 < strlen(foundHost))")
    ck.require_any("U1b.all-trailing-dots-removed", parse, lambda ev: ev.get("e") == "call" and dots(ev["x"]), [(last_is_dot, False), (non_empty, False)],
                   "strstr(foundHost, \"..\")", why="(a host ending in two dots keeps one: an empty label is accepted)")

    ck.rule("U2 LOSSY: foundPort must not be produced by atoi/sscanf (trailing garbage accepted, values beyond int wrap before the range test)")
    n = 0
    for s in fl.find(ev_assign("foundPort", ops=("=",))):
        n += 1
        calls = {c.get("f") for c in E.calls_in(s.ev.get("rhs"))}
        bad = calls & LOSSY
        if bad:
            ck.violation("U2.lossy-port", "U2|Uri::parse|foundPort|%s" % sorted(bad)[0], s.where(),
                         "foundPort = %s: 'http://h:80abc/' is accepted as port 80 and ':4294967376' wraps to 80 before the 1..65535 test" % E.key(s.ev["rhs"]))
        else:
            ck.ok("U2.lossy-port", s.where(), "foundPort = %s" % E.key(s.ev["rhs"])[:80])
    ck.need(n >= 2, "C30: assignments to foundPort not found")

    ck.rule("U3 AnyP::Uri::parsePort: a value is returned only past the zero-prefix throw, a successful strict decimal int64(rawPort, 10, false) and !Less(65535, rawPort)")
    pp = facts.fn("AnyP::Uri::parsePort")
    fl = ck.flow(pp)
    ret = ev_return()
    from ..flow import ev_throw
    ck.require_response("U3.zero-prefix-throws", pp, E.m_calls("Parser::Tokenizer::skip") & E.M(lambda t: E.const(E.strip(t)["a"][0]) == 48, "skip('0')"), True,
                        ev_throw(), "throw", why="(a zero or zero-prefixed port would be accepted)")
    i64 = E.m_calls("Parser::Tokenizer::int64") & E.M(lambda t: E.const(E.strip(t)["a"][1]) == 10 and E.const(E.strip(t)["a"][2]) == 0, "int64(_, 10, false)")
    ck.require_fact("U3.strict-port", fl, ret, i64, True, "return")
    less = E.m_calls("Less") & E.M(lambda t: E.const(E.strip(t)["a"][0]) == 65535 and E.m_is_ref("rawPort")(E.strip(t)["a"][1]), "Less(65535, rawPort)")
    ck.require_fact("U3.strict-port", fl, ret, less, False, "return", why="(CONNECT authority ports above 65535 would be accepted)")
    ck.require_fact("U3.strict-port", fl, ret, E.m_cmp("<", E.m_const(0), E.m_is_ref("rawPort")), True, "return")
    ck.rule("U4 canonical form keeps the request-target: Squid stores path and query together in Uri::path_ and parse() does not decode it, so re-parsing the canonical form "
            "gives the same path only if AnyP::Uri::absolutePath() leaves verbatim every byte that is legal there; the CharacterSet it hands to Encode() (folded from the "
            "source) must contain RFC 3986 pchar / \"/\" / \"?\" (unreserved, sub-delims, ':', '@', '/', '?') and '%' (no double encoding). Without '?' the canonical form "
            "of http://h/p?x=y is http://h/p%3Fx=y: a different path, and the origin receives a request-target without its query delimiter")
    from ..charset import Folder, show
    ap = facts.fn("AnyP::Uri::absolutePath")
    enc = [E.strip(ev["x"]) for b in ap.blocks.values() for ev in b["ev"] if ev.get("e") == "call" and E.strip(ev["x"]).get("f") == "AnyP::Uri::Encode"]
    ck.need(len(enc) == 1 and len(enc[0].get("a", [])) == 2, "C30: absolutePath() no longer derives the canonical path by one Encode(path(), set) call")
    ck.need(any(n.get("f") == "AnyP::Uri::path" for n in E.walk(enc[0]["a"][0])), "C30: absolutePath() no longer encodes path()")
    folder = Folder(ck, facts)
    kept = folder._fold_local(ap, ck.local_defs(ap), enc[0]["a"][1])
    legal = frozenset(ord(c) for c in "abcdefghijklmnopqrstuvwxyzABCDEFGHIJKLMNOPQRSTUVWXYZ0123456789-._~!$&'()*+,;=:@/?%")
    missing = legal - kept
    if not missing:
        ck.ok("U4.canonical-path-verbatim", ap.where(), "absolutePath() keeps all %d bytes legal in path-and-query verbatim" % len(legal))
    else:
        ck.violation("U4.canonical-path-verbatim", "U4|absolutePath|encodes:%s" % show(missing), ap.where(),
                     "absolutePath() percent-encodes {%s} although these bytes are legal (and '?' is structural) in the path-and-query string kept in Uri::path_: "
                     "the canonical form no longer re-parses to the same path" % show(missing))
    extra = kept - legal - frozenset(range(0x80, 0x100))
    ck.need(not (kept & frozenset(range(0, 0x21))), "C30: absolutePath() would leave control bytes or space verbatim: %s" % show(kept & frozenset(range(0, 0x21))))
    ck.rule("U5 canonical-form cache coherence: every AnyP::Uri member function (constructors and assignment excepted) that writes a component of the URI "
            "(scheme, user-info, host, port, path) calls touch() after its last such write on every path, so that absolute()/authority()/absolutePath() never return a "
            "form cached before the change")
    uri_cache_coherence(ck, facts)
    ck.assume("canonical-form idempotence and host case folding are not decided")
