"""C30 URI parsing validates authority: port clause (DESIGN.md 5/C30)."""
from .. import expr as E
from ..flow import ev_call, ev_return, ev_assign

LOSSY = {"atoi", "atol", "atoll", "sscanf"}


def run(ck):
    facts = ck.facts(["src/anyp/Uri.cc"])
    parse = facts.fn("AnyP::Uri::parse")
    fl = ck.flow(parse)

    ck.rule("U1 GINT(AnyP::Uri::parse): at port(foundPort) the guards give foundPort in [1,65535]; host(foundHost) only after the '..'/leading-dot rejection")
    set_port = ev_call("AnyP::Uri::port", nargs=1, arg={0: E.M(lambda t: E.m_is_ref("foundPort")(t) or (E.strip(t).get("k") == "ctor" and len(E.strip(t)["a"]) == 1 and E.m_is_ref("foundPort")(E.strip(t)["a"][0])), "foundPort")})
    ck.require_interval("U1.port-range", fl, set_port, E.m_is_ref("foundPort"), 1, 65535, "port(foundPort)", why="(an out-of-range port would be stored truncated)")
    set_host = ev_call("AnyP::Uri::host", nargs=1, arg={0: E.m_is_ref("foundHost")})
    dots = E.m_calls("strstr") & E.M(lambda t: E.strip(E.strip(t)["a"][1]).get("v") == "..", "strstr(foundHost, \"..\")")
    ck.require_fact("U1.host-labels", fl, set_host, dots, False, "host(foundHost)", why="(a host with an empty label would be accepted)")

    ck.rule("U2 LOSSY: foundPort must not be produced by atoi/sscanf (trailing garbage accepted, values beyond int wrap before the range test)")
    n = 0
    for s in fl.find(ev_assign("foundPort", ops=("=",))):
        n += 1
        calls = {c.get("f") for c in E.calls_in(s.ev.get("rhs"))}
        bad = calls & LOSSY
        if bad:
            ck.violation("U2.lossy-port", "U2|Uri::parse|foundPort|%s" % sorted(bad)[0], s.where(),
                         "foundPort = %s: 'http://h:80abc/' is accepted as port 80 and ':4294967376' wraps to 80 before the 1..65535 test" % E.key(s.ev["rhs"]))
        else:
            ck.ok("U2.lossy-port", s.where(), "foundPort = %s" % E.key(s.ev["rhs"])[:80])
    ck.need(n >= 2, "C30: assignments to foundPort not found")

    ck.rule("U3 AnyP::Uri::parsePort: a value is returned only past the zero-prefix throw, a successful strict decimal int64(rawPort, 10, false) and !Less(65535, rawPort)")
    pp = facts.fn("AnyP::Uri::parsePort")
    fl = ck.flow(pp)
    ret = ev_return()
    from ..flow import ev_throw
    ck.require_response("U3.zero-prefix-throws", pp, E.m_calls("Parser::Tokenizer::skip") & E.M(lambda t: E.const(E.strip(t)["a"][0]) == 48, "skip('0')"), True,
                        ev_throw(), "throw", why="(a zero or zero-prefixed port would be accepted)")
    i64 = E.m_calls("Parser::Tokenizer::int64") & E.M(lambda t: E.const(E.strip(t)["a"][1]) == 10 and E.const(E.strip(t)["a"][2]) == 0, "int64(_, 10, false)")
    ck.require_fact("U3.strict-port", fl, ret, i64, True, "return")
    less = E.m_calls("Less") & E.M(lambda t: E.const(E.strip(t)["a"][0]) == 65535 and E.m_is_ref("rawPort")(E.strip(t)["a"][1]), "Less(65535, rawPort)")
    ck.require_fact("U3.strict-port", fl, ret, less, False, "return", why="(CONNECT authority ports above 65535 would be accepted)")
    ck.require_fact("U3.strict-port", fl, ret, E.m_cmp("<", E.m_const(0), E.m_is_ref("rawPort")), True, "return")
    ck.assume("canonical-form idempotence and host case folding are not decided")
