"""C09 Adversarial HTTP peers cannot cause memory errors: bounded-write clause in the anchored parser/forwarding files (DESIGN.md 5/C09)."""
import re

from .. import expr as E

FILES = ["src/client_side.cc", "src/http.cc", "src/http/one/Parser.cc", "src/http/one/RequestParser.cc", "src/http/one/ResponseParser.cc",
         "src/http/one/TeChunkedParser.cc", "src/http/one/Tokenizer.cc", "src/HttpHeader.cc", "src/HttpHeaderTools.cc", "src/anyp/Uri.cc", "src/parser/Tokenizer.cc"]
SIZED = {"memcpy": 2, "memmove": 2, "xmemcpy": 2, "xstrncpy": 2, "strncpy": 2, "strncat": 2, "snprintf": 1, "vsnprintf": 1, "memset": 2}
UNSIZED = {"strcpy", "strcat", "sprintf", "vsprintf", "gets", "stpcpy"}
ALLOC = {"xmalloc": 0, "xcalloc": 0, "malloc": 0, "calloc": 0, "xrealloc": 1}


def run(ck):
    facts = ck.facts(FILES)
    ck.rule("M1 every write through memcpy/memmove/xstrncpy/strncpy/strncat/snprintf/memset into a destination of constant array type (local, static LOCAL_ARRAY or member array) "
            "in the anchored files has a size argument that the front end evaluates to <= the array size (or a conditional bounded by it); into a locally allocated buffer the size "
            "argument is the allocation size expression; strcpy/strcat/sprintf/gets into such destinations are banned")
    n_arr = n_alloc = 0
    for fn in facts.all_fns(lambda f: any(f.file.endswith(x) for x in FILES)):
        decls = {}
        for b in fn.blocks.values():
            for ev in b["ev"]:
                if ev.get("e") == "decl" and ev.get("arr"):
                    decls[ev["d"]] = ev["arr"]
        defs = ck.local_defs(fn)

        def arr_size(t):
            t = E.strip(t)
            if not isinstance(t, dict):
                return None
            if t.get("k") == "ref" and t.get("d") in decls:
                return decls[t["d"]]
            m = re.search(r"\[(\d+)\]$", t.get("t", "") or "")
            return int(m.group(1)) if m else None

        def alloc_size_key(t):
            t = E.strip(t)
            if isinstance(t, dict) and t.get("k") == "ref" and t.get("dk") == "local":
                ks = set()
                for d in defs.get(t["d"], []):
                    for c in E.calls_in(d):
                        if c.get("f") in ALLOC and len(c.get("a", [])) > ALLOC[c["f"]]:
                            ks.add(E.key(c["a"][ALLOC[c["f"]]]))
                if len(ks) == 1:
                    return ks.pop()
            return None

        def bounded_by(sz, n):
            c = E.const(sz)
            if c is not None:
                return c <= n
            s = E.strip(sz)
            if isinstance(s, dict) and s.get("k") == "cond":
                # (V + 1 > K) ? K : V   /  (V >= K) ? K' : V   with the constants <= n
                tc = E.const(s.get("t"))
                cond, pol = E.norm(s.get("c"), True)
                v = E.key(s.get("f"))
                if tc is not None and tc <= n and isinstance(cond, dict) and cond.get("op") == "<":
                    l, r = E.strip(cond.get("l")), E.strip(cond.get("r"))
                    # cond true means "too big": forms K < V+1 (i.e. V+1 > K), K-1 < V ...
                    if pol and E.const(l) is not None and E.const(l) <= n and v in E.key(r):
                        return True
            return False

        for b in fn.blocks.values():
            for ev in b["ev"]:
                if ev.get("e") != "call":
                    continue
                x = E.strip(ev["x"])
                f = x.get("f")
                a = x.get("a", [])
                if not a or (f not in SIZED and f not in UNSIZED):
                    continue
                n = arr_size(a[0])
                where = fn.where(ev["l"])
                if f in UNSIZED:
                    if n is not None:
                        src = E.strip(a[1]) if len(a) > 1 else {}
                        if f in ("strcpy", "strcat") and src.get("k") == "str" and len(src.get("v", "")) < n and f == "strcpy":
                            ck.ok("M1.no-unbounded-copy", where, "%s: strcpy of a %d-byte literal into %s[%d]" % (fn.name, len(src["v"]), E.key(a[0]), n))
                        else:
                            ck.violation("M1.no-unbounded-copy", "M1|%s|%s|%s" % (fn.name, f, E.key(a[0])[:30]), where,
                                         "%s uses unbounded %s() into the fixed array %s[%d]" % (fn.name, f, E.key(a[0]), n))
                    continue
                idx = SIZED[f]
                if len(a) <= idx:
                    continue
                if n is not None:
                    n_arr += 1
                    if bounded_by(a[idx], n):
                        ck.ok("M1.bounded-array-write", where, "%s: %s into %s[%d] with size %s" % (fn.name, f, E.key(a[0])[:30], n, E.key(a[idx])[:40]))
                    else:
                        ck.violation("M1.bounded-array-write", "M1|%s|%s|%s" % (fn.name, f, E.key(a[0])[:30]), where,
                                     "%s: %s writes up to %s bytes into %s which has only %d" % (fn.name, f, E.key(a[idx])[:60], E.key(a[0])[:40], n))
                else:
                    ak = alloc_size_key(a[0])
                    if ak is not None and f in ("snprintf", "vsnprintf", "xstrncpy", "memset"):
                        n_alloc += 1
                        if E.key(a[idx]) == ak:
                            ck.ok("M1.bounded-heap-write", where, "%s: %s into a buffer allocated with the same size expression %s" % (fn.name, f, ak[:40]))
                        else:
                            ck.violation("M1.bounded-heap-write", "M1|%s|%s|%s|alloc-mismatch" % (fn.name, f, E.key(a[0])[:30]), where,
                                         "%s: %s is limited by %s but the buffer was allocated with %s" % (fn.name, f, E.key(a[idx])[:50], ak[:50]))
    ck.need(n_arr >= 8, "C09: only %d fixed-array writes found in the anchored files" % n_arr)
    ck.need(n_alloc >= 3, "C09: only %d allocation-paired writes found" % n_alloc)
    ck.rule("M2 HttpHeader mask coherence (delById() asserts that an id whose mask bit is set has at least one entry): every function that deletes entries with "
            "HttpHeader::delAt(pos, counter) repairs the mask before it returns -- refreshMask(), CBIT_CLR(mask, id) of the deleted id, or a rebuild started by "
            "httpHeaderMaskInit(&mask) -- on every path on which a deletion happened (`if (counter) refreshMask()` counts: delAt increments its counter); otherwise a later "
            "delById() of a header named in a hostile Connection field hits assert(count)")
    hh = ck.facts(["src/HttpHeader.cc", "src/client_side_reply.cc", "src/HeaderMangling.cc"], whole=False)
    is_del = lambda ev: ev.get("e") == "call" and E.strip(ev["x"]).get("f") == "HttpHeader::delAt"
    ndel = 0
    for f in hh.all_fns():
        if f.name == "HttpHeader::delAt" or not any(is_del(ev) for b in f.blocks.values() for ev in b["ev"]):
            continue
        ndel += 1

        def track(ev, env, fs):
            if ev.get("e") == "call":
                x = E.strip(ev["x"])
                fn_ = x.get("f", "")
                if fn_ == "HttpHeader::delAt":
                    env["$dirty"] = 1
                    c = E.strip(x["a"][1]) if len(x.get("a", [])) > 1 else {}
                    if c.get("k") == "ref":
                        env["$cnt:" + c["d"]] = 1
                elif fn_ in ("HttpHeader::refreshMask", "httpHeaderMaskInit"):
                    env.pop("$dirty", None)
                    if fn_ == "httpHeaderMaskInit":
                        env["$rebuilding"] = 1
            if ev.get("e") == "asg" and any(n.get("k") == "mem" and n.get("m") == "HttpHeader::mask" for n in E.walk(ev.get("lhs"))) and ev.get("op") in ("&=", "=", "|="):
                if ev.get("op") == "&=":
                    env.pop("$dirty", None)          # CBIT_CLR(mask, id)

        def edge(b, lab, imp, env, fs):
            for t, v in imp:
                t = E.strip(t)
                if v is False and t.get("k") == "ref" and env.get("$cnt:" + t.get("d", "")) == 1:
                    return False                     # the deletion counter is non-zero after a delAt()
            return True
        fl = ck.flow(f, on_event=track, on_edge=edge)
        bad = [st for st in fl.find(lambda ev: ev.get("e") == "exit" and ev.get("kind") in ("ret", "fall")) if st.env.get("$dirty") == 1 and st.env.get("$rebuilding") != 1]
        if not bad:
            ck.ok("M2.mask-repaired-after-delete", f.where(), "%s: every path that deleted an entry repairs the mask" % f.name)
        else:
            ck.violation("M2.mask-repaired-after-delete", "M2|%s|delAt-without-mask-repair" % f.name, bad[0].where(),
                         "%s can return after HttpHeader::delAt() without refreshMask()/CBIT_CLR/mask rebuild: the mask keeps bits of deleted headers and a later "
                         "delById() asserts" % f.name, fl.witness(bad[0]))
    ck.need(ndel >= 5, "C09: expected >= 5 functions calling HttpHeader::delAt, found %d" % ndel)

    ck.rule("M3 PRECONDITION ConnStateData::consumeInput(n) asserts n > 0 && n <= inBuf.length(): every caller establishes a positive amount first (inBuf non-empty for "
            "consumeInput(inBuf.length()), `n > 0` for an accepted-amount local, a successful parse for tok.parsedSize())")
    cs9 = ck.facts(["src/client_side.cc", "src/servers/FtpServer.cc"], whole=False)
    ncons = 0
    for f in cs9.all_fns():
        fl = None
        for b in f.blocks.values():
            for ev in b["ev"]:
                if ev.get("e") == "call" and E.strip(ev["x"]).get("f") == "ConnStateData::consumeInput":
                    fl = fl or ck.flow(f)
                    for st in fl.find(lambda e, ev=ev: e is ev):
                        ncons += 1
                        a0 = E.strip(E.strip(ev["x"])["a"][0])
                        if a0.get("k") == "call" and a0.get("f") == "SBuf::length":
                            okk = st.has(E.M(lambda t, o=a0.get("o"): E.strip(t).get("k") == "call" and E.strip(t).get("f") == "SBuf::isEmpty" and E.key(E.strip(t).get("o")) == E.key(o), "isEmpty()"), False)
                            how = "buffer established non-empty"
                        elif a0.get("k") == "ref":
                            okk = st.has(E.m_cmp("<", E.m_const(0), E.m_is_ref(a0["d"])), True) or st.has(E.m_is_ref(a0["d"]), True)
                            how = "%s > 0 established" % a0["d"]
                        else:
                            okk = any(f_[0] in ("A", "H") and f_[2] is True and ("parse" in f_[1].lower()) for f_ in st.facts)
                            how = "a successful parse precedes"
                        if okk:
                            ck.ok("M3.consume-positive", st.where(), "%s: consumeInput(%s): %s" % (f.name, E.key(a0)[:40], how))
                        else:
                            ck.violation("M3.consume-positive", "M3|%s|consumeInput-may-be-zero" % f.name, st.where(),
                                         "%s calls consumeInput(%s) without establishing that the amount is positive: consumeInput() asserts byteCount > 0 (an adversarial "
                                         "peer can make the buffer empty here)" % (f.name, E.key(a0)[:60]), fl.witness(st))
    ck.need(ncons >= 3, "C09: expected >= 3 consumeInput() call sites, found %d" % ncons)
    ck.rule("M4 stop-is-final (HttpStateData, src/http.cc): once a member function has called mustStop() -- always after fwd->fail()/closeServer() on an adversarial or "
            "failed reply -- it does nothing but return: no further call is reachable in that function after the stop (all 9 sites of the file follow `mustStop(...); return`). "
            "Continuing into transaction-progress code (proceedAfter1xx(), processReply(), ...) runs it on a closed server connection and ends in an assertion")
    h9 = ck.facts(["src/http.cc"], whole=False)
    nstop = 0
    is_stop = lambda ev: ev.get("e") == "call" and E.strip(ev["x"]).get("k") == "call" and E.strip(ev["x"]).get("f", "").split("::")[-1] == "mustStop"
    harmless = lambda x: x.get("k") in ("ctor", "new") or x.get("f", "").split("::")[-1].startswith(("~", "operator")) or x.get("f", "").startswith(("RefCount::", "std::", "SBuf::", "Debug::"))
    for f in sorted({(f.file, f.line): f for f in h9.all_fns(lambda f: f.name.startswith("HttpStateData::") and f.file.endswith("src/http.cc") and f.tmpl != 2)}.values(), key=lambda f: f.line):
        if not any(is_stop(ev) for b in f.blocks.values() for ev in b["ev"]):
            continue
        fl = ck.flow(f, markers={"stopped": is_stop}, track_markers=["stopped"])
        nstop += 1
        bad = [st for st in fl.sites if st.env.get("#stopped") == 1 and st.ev.get("e") == "call" and not is_stop(st.ev) and not harmless(E.strip(st.ev["x"]))]
        if not bad:
            ck.ok("M4.stop-is-final", f.where(), "%s: nothing but return follows mustStop()" % f.name)
        for st in bad[:2]:
            ck.violation("M4.stop-is-final", "M4|%s|%s|after-mustStop" % (f.name, E.strip(st.ev["x"]).get("f", "?")), st.where(), "%s: %s is reachable after mustStop() in the same "
                         "function: the job has failed/closed its server connection and is stopping, yet the transaction is driven further" % (f.name, st.desc()[:80]), fl.witness(st))
    ck.need(nstop >= 7, "C09: expected >= 7 HttpStateData member functions calling mustStop() in src/http.cc, found %d" % nstop)

    ck.assume("use-after-free, assertion reachability beyond the two precondition clauses M2/M3, SBuf/Tokenizer internals (bounds enforced dynamically there) and liveness are not decided")
