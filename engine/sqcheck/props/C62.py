"""C62 Header size limits are enforced before forwarding: limit gates of the HTTP/1 parsers and their error routing (DESIGN.md 5/C62)."""
from .. import expr as E
from ..flow import ev_call, ev_return, ev_assign, ev_exit
from .C45 import enum_with
from .C44 import local_from

P1 = "Http::One::"
STATUS = P1 + "Parser::parseStatusCode"
GRAB = P1 + "Parser::grabMimeBlock"
is_false = ev_return(E.m_const(0))


def below(lhs_mentions, rhs):
    """normalised atom  (<sum mentioning lhs_mentions> < <rhs>)   (source form:  sum >= rhs  is its negation)"""
    return E.m_cmp("<", E.M(lambda t: set(lhs_mentions) <= E.mentions(t), "+".join(lhs_mentions)), rhs)


def run(ck):
    facts = ck.facts(["src/http/one/Parser.cc", "src/http/one/RequestParser.cc", "src/http/one/ResponseParser.cc", "src/client_side.cc",
                      "src/servers/Http1Server.cc", "src/http.cc"], whole=True)
    sc = enum_with(ck, facts, "scHeaderTooLarge")
    errs = enum_with(ck, facts, "ERR_TOO_BIG")

    # ------------------------------------------------------------------ the limit itself
    ck.rule("S1 Parser::grabMimeBlock(which, limit): mimeHeaderBlock_ is assigned only with firstLineSize()+mimeHeaderBytes < limit established; "
            "`return true` only with that or with no MIME block expected; RESPONSE(total >= limit -> parseStatusCode = scHeaderTooLarge and return false), "
            "also for a still incomplete block (buf_.length()+firstLineSize() >= limit)")
    gm = facts.fn(GRAB)
    limit = E.m_is_ref(gm.params[1]["d"])
    mime_len = local_from(ck, gm, "headersEnd()", lambda n: n.get("k") == "call" and n.get("f", "").split("::")[-1] == "headersEnd")
    expect = sorted(n for n, ds in ck.local_defs(gm).items() if any("Http::One::Parser::msgProtocol_" in E.mentions(d) for d in ds))
    ck.need(len(expect) == 1, "C62: grabMimeBlock: expected one local derived from msgProtocol_ (expectMime), found %s" % expect)
    fits = below([P1 + "Parser::firstLineSize", mime_len], limit)
    partial_fits = below([P1 + "Parser::firstLineSize", "SBuf::length"], limit)
    fl = ck.flow(gm)
    stores = lambda ev: ev.get("e") == "call" and E.strip(ev["x"]).get("f", "").endswith("operator=") and E.m_is_mem(P1 + "Parser::mimeHeaderBlock_")(E.strip(ev["x"]).get("o"))
    ck.require_fact("S1.limit", fl, stores, fits, True, "mimeHeaderBlock_ = ...", why="(an over-long header block would be accepted)")
    ck.require_any("S1.limit", gm, ev_return(E.M(lambda x: E.const(x) != 0, "non-false")), [(fits, True), (E.m_is_ref(expect[0]), False)], "return true")
    too_large = ev_assign(STATUS, E.m_const(sc["scHeaderTooLarge"]))
    for atom, what in ((fits, "complete"), (partial_fits, "incomplete")):
        ck.require_response("S1.too-large-%s" % what, gm, atom, False, too_large, "parseStatusCode = scHeaderTooLarge",
                            why="(an over-long header block would not be reported)")
        ck.require_response("S1.too-large-%s" % what, gm, atom, False, is_false, "return false")

    # ------------------------------------------------------------------ who passes which limit, and what a failure becomes
    ck.rule("S2 RequestParser::doParse passes Config.maxRequestHeaderSize, ResponseParser::parse passes Config.maxReplyHeaderSize to grabMimeBlock; both: "
            "RESPONSE(grabMimeBlock false -> return false), RESPONSE(first line retcode < 0 -> return false); doParse maps scHeaderTooLarge to 431; "
            "WHO(grabMimeBlock) = the two parsers + the chunked trailer parser")
    for fname, cfg in ((P1 + "RequestParser::doParse", "SquidConfig::maxRequestHeaderSize"), (P1 + "ResponseParser::parse", "SquidConfig::maxReplyHeaderSize")):
        fn = facts.fn(fname)
        fl = ck.flow(fn)
        for s in ck.sites(fl, ev_call(GRAB), "grabMimeBlock()", 1):
            a1 = E.strip(s.ev["x"])["a"][1]
            if E.m_is_mem(cfg)(a1) and E.m_is_ref("Config")(E.strip(a1)["b"]):
                ck.ok("S2.limit-arg", s.where(), "%s enforces Config.%s" % (fname, cfg.split("::")[-1]))
            else:
                ck.violation("S2.limit-arg", "S2|%s|limit" % fname, s.where(), "%s calls grabMimeBlock with limit %s (expected Config.%s)" % (fname, E.key(a1), cfg.split("::")[-1]))
        ck.require_response("S2.failure-propagates", fn, E.m_calls(GRAB), False, is_false, "return false", why="(a too-large header block would be treated as parsed)")
        first = local_from(ck, fn, "parse*FirstLine()", lambda n: n.get("k") == "call" and n.get("f", "").endswith("FirstLine"))
        ck.require_response("S2.failure-propagates", fn, E.m_cmp("<", E.m_is_ref(first), E.m_const(0)), True, is_false, "return false")
    dp = facts.fn(P1 + "RequestParser::doParse")
    ck.require_response("S2.status-431", dp, E.m_cmp("==", E.m_is_mem(STATUS), E.m_const(sc["scHeaderTooLarge"])), True,
                        ev_assign(STATUS, E.m_const(sc["scRequestHeaderFieldsTooLarge"])), "parseStatusCode = 431")
    ck.who_calls("S2.who-grabs", facts, GRAB, {P1 + "RequestParser::doParse": "request_header_max_size", P1 + "ResponseParser::parse": "reply_header_max_size",
                                               P1 + "TeChunkedParser::parse": "chunked trailers, fixed 64KB limit"}, min_callers=2)

    # ------------------------------------------------------------------ request line
    ck.rule("S3 RequestParser::parseRequestFirstLine: `return 0` (need more data) only with buf_.length() < Config.maxRequestHeaderSize; from the "
            "over-limit edge every exit is `return -1`, reached after parseStatusCode = scUriTooLong or with parseMethodField() false")
    fl1 = facts.fn(P1 + "RequestParser::parseRequestFirstLine")
    line_fits = E.m_cmp("<", E.m_calls("SBuf::length"), E.m_is_mem("SquidConfig::maxRequestHeaderSize"))
    ck.require_fact("S3.line-limit", ck.flow(fl1), ev_return(E.m_const(0)), line_fits, True, "return 0", why="(an endless request line would be buffered for ever)")
    edges = ck.trigger_edges(fl1, line_fits, False)
    ck.need(len(edges) >= 1, "C62: the request-line limit test vanished from parseRequestFirstLine")
    for (bid, lab, to) in edges:
        fl = ck.flow(fl1, start=to, markers={"414": ev_assign(STATUS, E.m_const(sc["scUriTooLong"]))})
        for s in ck.sites(fl, ev_exit(("ret", "fall")), "exit after over-limit", 1):
            if E.const(s.ev.get("x")) == -1 and (s.passed("414") or s.has(E.m_calls(P1 + "RequestParser::parseMethodField"), False)):
                ck.ok("S3.line-limit", s.where(), "over-limit request line ends in return -1 with a 414 (or a method error)")
            else:
                ck.violation("S3.line-limit", "S3|parseRequestFirstLine|over-limit-exit", s.where(),
                             "an over-limit request line can leave parseRequestFirstLine by '%s' without scUriTooLong" % s.desc(), fl.witness(s))

    # ------------------------------------------------------------------ client side
    ck.rule("S4 ConnStateData::parseHttpRequest: flags.parsed_ok = 1 requires parsedOk := hp->parse(inBuf) true and "
            "RESPONSE(parsedOk false -> abortRequestParsing()); Http1::Server::buildHttpRequest: RESPONSE(parsed_ok == 0 -> return false), 431/414 select ERR_TOO_BIG, "
            "setReplyError gets parser_->parseStatusCode; processParsedRequest: clientProcessRequest() only with buildHttpRequest() true; WHO-writes(parsed_ok)")
    ph = facts.fn("ConnStateData::parseHttpRequest")
    parsed = ck.m_result_of(ph, P1 + "RequestParser::parse")
    POK = "Http::Stream::(anonymous struct)::parsed_ok"
    fl = ck.flow(ph)
    ck.require_fact("S4.parsed-ok", fl, ev_assign(POK, E.m_const(1)), parsed, True, "flags.parsed_ok = 1", why="(a request rejected by the parser would be marked as parsed)")
    ck.require_response("S4.parsed-ok", ph, parsed, False, ev_call("ConnStateData::abortRequestParsing"), "abortRequestParsing()", term_kinds=("IfStmt",),
                        why="(a request rejected by the parser would continue as a normal request)")
    bh = facts.fn(P1 + "Server::buildHttpRequest")
    ck.require_response("S4.error-reply", bh, E.m_is_mem(POK), False, is_false, "return false", why="(a request that failed parsing would be processed)")
    on_status = lambda K: (lambda cond: K if STATUS in E.mentions(cond) else None)
    pages = sorted({E.strip(E.strip(ev["x"])["a"][2]).get("d") for b in bh.blocks.values() for ev in b["ev"]
                    if ev_call(P1 + "Server::setReplyError")(ev) and E.strip(E.strip(ev["x"])["a"][2]).get("dk") == "local"})
    for name in ("scRequestHeaderFieldsTooLarge", "scUriTooLong"):
        fk = ck.flow(bh, tracked=pages, switch_assume=on_status(sc[name]), assume=[(E.m_is_mem(POK), False)])
        for s in ck.sites(fk, ev_call(P1 + "Server::setReplyError"), "setReplyError() under %s" % name, 1):
            a = E.strip(s.ev["x"])["a"]
            pg = E.strip(a[2])
            val = s.env.get(pg.get("d")) if pg.get("k") == "ref" else ("c", E.const(pg))
            if val == ("c", errs["ERR_TOO_BIG"]) and E.m_is_mem(STATUS)(a[3]):
                ck.ok("S4.error-reply", s.where(), "%s is answered with ERR_TOO_BIG and the parser's status" % name)
            else:
                ck.violation("S4.error-reply", "S4|buildHttpRequest|%s" % name, s.where(), "under %s the error reply is setReplyError(page=%s, status=%s)" % (name, val, E.key(a[3])))
    pp = facts.fn(P1 + "Server::processParsedRequest")
    ck.require_fact("S4.no-processing", ck.flow(pp), ev_call("clientProcessRequest"), E.m_calls(P1 + "Server::buildHttpRequest"), True, "clientProcessRequest()",
                    why="(a request without a built HttpRequest / with a parse error would enter the callouts)")
    ck.who_writes("S4.who-marks-parsed", facts, POK, {"ConnStateData::parseHttpRequest": "HTTP/1 request parsed", "Http::Stream::Stream": "initialised 0",
                                                     "Ftp::Server::parseOneRequest": "FTP command parsed (own limits)",
                                                     "ConnStateData::buildFakeRequest": "squid-generated CONNECT for intercepted/bumped TLS (no client header bytes)"}, min_writers=1, value=lambda cv: cv != 0)

    # ------------------------------------------------------------------ server side
    ck.rule("S5 HttpStateData::processReplyHeader: HttpReply::parseHeader() only with parsedOk := hp->parse(inBuf) true; RESPONSE(parsedOk false -> "
            "sline.set(.., scode := ..parseStatusCode..) and return); continueAfterParsingHeader: `return true` only with "
            "s := vrep->sline.status() != scHeaderTooLarge; RESPONSE(s == scHeaderTooLarge -> fwd->fail())")
    pr = facts.fn("HttpStateData::processReplyHeader")
    rparsed = ck.m_result_of(pr, P1 + "ResponseParser::parse")
    ck.require_fact("S5.reply-parse", ck.flow(pr), ev_call("HttpReply::parseHeader"), rparsed, True, "parseHeader()", why="(an over-long reply header would be interpreted)")
    carries = E.M(lambda t: E.strip(t).get("k") == "ref" and any(STATUS in E.mentions(d) for d in ck.local_defs(pr).get(E.strip(t)["d"], [])), "local <- parseStatusCode")
    ck.require_response("S5.reply-status", pr, rparsed, False, ev_call("Http::StatusLine::set", arg={1: carries}), "sline.set(.., parseStatusCode)", term_kinds=("IfStmt",),
                        until=ev_call("HttpReply::parseHeader"))
    ca = facts.fn("HttpStateData::continueAfterParsingHeader")
    st = local_from(ck, ca, "sline.status()", lambda n: n.get("k") == "call" and n.get("f") == "Http::StatusLine::status")
    big = E.m_cmp("==", E.m_is_ref(st), E.m_const(sc["scHeaderTooLarge"]))
    ck.require_fact("S5.reply-too-large", ck.flow(ca), ev_return(E.M(lambda x: E.const(x) != 0, "non-false")), big, False, "return true",
                    why="(a reply with an over-long header would be relayed)")
    ck.require_response("S5.reply-too-large", ca, big, True, ev_call("FwdState::fail"), "fwd->fail()")
    ck.rule("S6 the first-line size that is added to the MIME size for the limit test accounts for every variable-length component the first-line parser stored: "
            "RequestParser::firstLineSize sums method_ and uri_ lengths, ResponseParser::firstLineSize sums the protocol magic and reasonPhrase_ lengths (the parsed first line "
            "is no longer in the buffer, so this is the only place its bytes count against the limit)")
    _cfacts = ck.facts(["src/http/one/RequestParser.cc", "src/http/one/ResponseParser.cc"])
    for _fname, _members in (("Http::One::RequestParser::firstLineSize", ("method_", "uri_")), ("Http::One::ResponseParser::firstLineSize", ("reasonPhrase_",))):
        _fn = _cfacts.fn(_fname)
        _fl = ck.flow(_fn)
        for _m in _members:
            _counts = lambda ev, _m=_m: any(n.get("k") == "call" and n.get("f", "").endswith("::length") and _m in " ".join(E.mentions(n)) for t in (ev.get("x"), ev.get("rhs"), ev.get("init")) if t is not None for n in E.walk(t))
            # returns of a zero/unknown-protocol size (nothing was parsed) are exempt: only returns after some component was counted must be complete
            _some = lambda ev: ev.get("e") == "asg" and ev.get("op") == "+=" and any(n.get("k") == "call" and n.get("f", "").endswith("::length") for n in E.walk(ev.get("rhs")))
            _marked = ck.flow(_fn, markers={"counted": _counts, "some": _some}, track_markers=["some", "counted"])
            bad = [s_ for s_ in _marked.find(lambda ev: ev.get("e") == "ret")
                   if not (s_.passed("counted") or _counts(s_.ev)) and (s_.passed("some") or E.const(s_.ev.get("x")) is None and E.strip(s_.ev.get("x")).get("k") != "ref")]
            if not bad:
                ck.ok("S6.first-line-size-complete", _fn.where(), "%s counts %s.length() on every path" % (_fname.split("::")[-2], _m))
            for s_ in bad:
                ck.violation("S6.first-line-size-complete", "S6|%s|%s" % (_fname.split("::")[-2], _m), s_.where(),
                             "%s can return without adding %s.length(): a long %s escapes the header size limit" % (_fname, _m, _m))
    ck.assume("headersEnd()/firstLineSize() arithmetic, what FwdState::fail()/setReplyError() send, the FTP and ICAP parsers, and incremental arrival at the "
              "boundary are not analysed")
