"""C61 Cache manager enforces passwords and disabled actions: the CheckPassword gate of CacheManager::start (DESIGN.md 5/C61)."""
from .. import expr as E
from ..flow import ev_call, ev_return, ev_any
from .C45 import enum_with
from .C44 import local_from

CM = "CacheManager::"


def strcmp_with(local, literal):
    """atom strcmp(<local>, "<literal>"); `strcmp(..) == 0` is normalised to the falsity of this atom"""
    return E.M(lambda t: E.strip(t).get("f") == "strcmp" and E.m_is_ref(local)(E.strip(t)["a"][0]) and E.m_str(literal)(E.strip(t)["a"][1]),
               'strcmp(%s,"%s")' % (local, literal))


def run(ck):
    facts = ck.facts(["src/cache_manager.cc"], whole=True)
    errs = enum_with(ck, facts, "MGR_INDEX")
    sc = enum_with(ck, facts, "scUnauthorized")

    # ------------------------------------------------------------------ start(): nothing is produced before/without the password check
    ck.rule("G1 CacheManager::start: creating or running the action, starting a Mgr::Forwarder and building the MGR_INDEX page all require "
            "CheckPassword(*cmd) == 0 established, for the same cmd := ParseUrl(request->url) that is then executed; "
            "RESPONSE(CheckPassword != 0 -> ErrorState(ERR_CACHE_MGR_ACCESS_DENIED, 401))")
    st = facts.fn(CM + "start")
    # cmd is assigned through RefCount::operator=, not a plain definition: find the local that receives ParseUrl()
    got = {E.root_decl(E.strip(ev["x"]).get("o"))[1] for b in st.blocks.values() for ev in b["ev"] if ev.get("e") == "call"
           and E.strip(ev["x"]).get("f", "").endswith("operator=") and any(E.m_calls(CM + "ParseUrl")(a) for a in E.strip(ev["x"]).get("a", []))}
    ck.need(len(got) == 1 and None not in got, "C61: CacheManager::start no longer stores ParseUrl() in one local: %s" % got)
    cmd = got.pop()
    checked = E.m_calls(CM + "CheckPassword") & E.M(lambda t: cmd in E.mentions(E.strip(t)["a"][0]), "of *%s" % cmd)
    is_new_fwd = lambda t: any(n.get("k") == "new" and "Mgr::Forwarder" in n.get("t", "") for n in E.walk(t))
    index_page = lambda ev: ev.get("e") == "call" and E.strip(ev["x"]).get("k") == "ctor" and E.strip(ev["x"]).get("f") == "ErrorState::ErrorState" \
        and E.const(E.strip(ev["x"])["a"][0]) == errs["MGR_INDEX"]
    producers = ev_any(ev_call("Mgr::ActionCreator::create"), ev_call("Mgr::Action::run"), lambda ev: ev_call("AsyncJob::Start")(ev) and is_new_fwd(ev["x"]), index_page)
    fl = ck.flow(st)
    ss = ck.require_fact("G1.password-gate", fl, producers, checked, False, "create|run|Forwarder|index", min_sites=4,
                         why="(a report, the menu or a forwarded action would be produced without a valid password)")
    for s in ss:
        x = E.strip(s.ev["x"])
        uses = [a for a in x.get("a", []) if x.get("f") in ("Mgr::ActionCreator::create", "AsyncJob::Start")]
        if all(cmd in E.mentions(a) for a in uses):
            ck.ok("G1.same-command", s.where(), "%s acts on the checked command" % s.desc()[:60], nontrivial=bool(uses))
        else:
            ck.violation("G1.same-command", "G1|start|other-command", s.where(), "%s does not act on the command whose password was checked (%s)" % (s.desc()[:80], cmd))
    denied = lambda ev: ev.get("e") == "call" and E.strip(ev["x"]).get("f") == "ErrorState::ErrorState" and \
        E.const(E.strip(ev["x"])["a"][0]) == errs["ERR_CACHE_MGR_ACCESS_DENIED"] and E.const(E.strip(ev["x"])["a"][1]) == sc["scUnauthorized"]
    ck.require_response("G1.denial", st, checked, True, denied, "ErrorState(ERR_CACHE_MGR_ACCESS_DENIED, 401)", term_kinds=("IfStmt",))

    # ------------------------------------------------------------------ CheckPassword
    ck.rule("G2 CacheManager::CheckPassword: pwd := PasswdGet(Config.passwd_list, cmd.profile->name); `return 0` only with pwd == \"none\"; "
            "the only computed results are profile->isPwReq (only with pwd null) and params.password != pwd (only with pwd non-null, "
            "not \"disable\", password non-empty); RESPONSE(pwd == \"disable\" -> constant non-zero return)")
    cp = facts.fn(CM + "CheckPassword")
    pwd = local_from(ck, cp, "PasswdGet()", lambda n: n.get("k") == "call" and n.get("f") == CM + "PasswdGet")
    pdef = [E.strip(d) for d in ck.local_defs(cp)[pwd]]
    act = E.strip(pdef[0]["a"][1]) if len(pdef) == 1 and pdef[0].get("f") == CM + "PasswdGet" else {}
    adefs = ck.local_defs(cp).get(act.get("d"), []) if act.get("k") == "ref" else [act]
    if len(pdef) == 1 and E.m_is_mem("SquidConfig::passwd_list")(pdef[0]["a"][0]) and len(adefs) == 1 and E.m_is_mem("Mgr::ActionProfile::name")(adefs[0]) \
            and cp.params[0]["d"] in E.mentions(adefs[0]):
        ck.ok("G2.lookup", cp.where(), "the password is looked up in Config.passwd_list by the command's profile name")
    else:
        ck.violation("G2.lookup", "G2|CheckPassword|lookup", cp.where(), "pwd is defined by %s" % [E.key(d) for d in pdef])
    disabled, none, given = strcmp_with(pwd, "disable"), strcmp_with(pwd, "none"), E.m_calls("String::size") & E.m_mentions("Mgr::ActionParams::password")
    have = E.m_is_ref(pwd)
    fl = ck.flow(cp)
    kinds = set()
    for s in ck.sites(fl, ev_return(), "return", 4):
        x = E.strip(s.ev.get("x"))
        c = E.const(x)
        if c == 0:
            kind, good = "zero", s.has(none, False)
        elif c is not None:
            kind, good = "deny", True
        elif E.m_is_mem("Mgr::ActionProfile::isPwReq")(x):
            kind, good = "isPwReq", s.has(have, False)
        elif x.get("f") == "String::operator!=" and E.m_is_mem("Mgr::ActionParams::password")(x.get("o")) and pwd in E.mentions(x["a"][0]):
            kind, good = "compare", s.has(have, True) and s.has(disabled, True) and s.has(given, True)
        else:
            kind, good = "other", False
        kinds.add(kind)
        if good:
            ck.ok("G2.verdict", s.where(), "CheckPassword: %s (%s) under its guards" % (s.desc()[:70], kind), nontrivial=kind != "deny")
        else:
            ck.violation("G2.verdict", "G2|CheckPassword|%s" % kind, s.where(), "CheckPassword: '%s' is reachable without its guards (facts: %s)"
                         % (s.desc()[:90], ", ".join(s.fact_keys())[:300]), fl.witness(s))
    ck.need({"zero", "deny", "isPwReq", "compare"} <= kinds, "C61: CheckPassword lost one of its four kinds of result: %s" % sorted(kinds))
    ck.require_response("G2.disabled", cp, disabled, False, ev_return(E.M(lambda x: E.const(x) not in (None, 0), "non-zero constant")), "return <non-zero constant>",
                        why="(an action disabled by cachemgr_passwd could be performed)")

    # ------------------------------------------------------------------ PasswdGet
    ck.rule("G3 CacheManager::PasswdGet: a non-null result is a->passwd, only when the list word equals the action name or is \"all\"")
    pg = facts.fn(CM + "PasswdGet")
    all_word = {n for n, ds in ck.local_defs(pg).items() if any(E.strip(d).get("k") == "ctor" and any(E.m_str("all")(a) for a in E.strip(d).get("a", [])) for d in ds)}
    same = E.m_calls("SBuf::cmp") & E.M(lambda t: E.m_is_ref(pg.params[1]["d"])(E.strip(t)["a"][0]), "with the action name")
    is_all = E.m_cmp("==", E.m_any(), E.M(lambda t: E.strip(t).get("d") in all_word, 'SBuf("all")'))
    nonnull = lambda ev: ev.get("e") == "ret" and not E.is_zero(ev.get("x"))
    for s in ck.require_any("G3.lookup", pg, nonnull, [(same, False), (is_all, True)], "return <non-null>", why="(the password of another action would be applied)"):
        x = E.strip(s.ev.get("x"))
        if E.m_is_mem("Mgr::ActionPasswordList::passwd")(x) and E.m_is_ref(pg.params[0]["d"])(x.get("b")):
            ck.ok("G3.lookup", s.where(), "returns the matching line's password")
        else:
            ck.violation("G3.lookup", "G3|PasswdGet|result", s.where(), "PasswdGet returns %s" % E.key(x))

    # ------------------------------------------------------------------ whole program
    ck.rule("G4 WHO: CacheManager::start is entered only from internalStart; CheckPassword only from start; Mgr::Action::run and ActionCreator::create "
            "only from the confirmed set")
    ck.who_calls("G4.who", facts, CM + "start", {"internalStart": "internal URL dispatch after the client-side access checks (C45)"}, min_callers=1)
    ck.who_calls("G4.who", facts, CM + "CheckPassword", {CM + "start": "the gate"}, min_callers=1)
    ck.who_calls("G4.who", facts, "Mgr::Action::run", {CM + "start": "after the gate", "Mgr::Filler::start": "SMP strand executing a coordinator request (checked by the originating worker)"}, min_callers=2)
    ck.who_calls("G4.who", facts, "Mgr::ActionCreator::create", {CM + "start": "after the gate", CM + "createNamedAction": "aggregation of kid responses",
                                                                  CM + "createRequestedAction": "IPC request from the worker that ran the gate"}, min_callers=3)
    ck.rule("G5 the built-in `manager` ACL covers everything that is routed to the cache manager: requests are recognised as cache-manager requests by host, port and the "
            "/squid-internal-mgr/ path prefix, whatever their scheme, so the DEFAULT `manager` url_regex of src/cf.data.pre (the source of the generated default "
            "configuration) must match <scheme>://host/squid-internal-mgr/<action> for every URL scheme Squid knows (AnyP::ProtocolType), case-insensitively; otherwise "
            "`http_access deny manager` leaves e.g. ftp://proxy:3128/squid-internal-mgr/menu reachable")
    import os
    import re as _re
    from .. import units as _units
    cfp = os.path.join(_units.REPO, "src", "cf.data.pre")
    ck.need(os.path.exists(cfp), "C61: src/cf.data.pre vanished")
    cfp = _units.OVERLAY.get(cfp, cfp)
    mline = [ln.strip() for ln in open(cfp, errors="replace") if _re.match(r"^DEFAULT:\s+manager\s+url_regex\b", ln)]
    ck.need(len(mline) == 1, "C61: expected exactly one `DEFAULT: manager url_regex` line in src/cf.data.pre, found %d" % len(mline))
    toks = mline[0].split()[3:]
    icase = False
    pats = []
    for t in toks:
        if t in ("-i", "+i"):
            icase = (t == "-i")
            continue
        pats.append((t, icase))
    # squid: `-i` makes the following patterns case-insensitive, `+i` case-sensitive again
    protos = facts.enum_with("PROTO_HTTPS")
    schemes = sorted(n[len("PROTO_"):].lower().replace("_", "-") for n in protos if n.startswith("PROTO_") and n not in ("PROTO_NONE", "PROTO_UNKNOWN", "PROTO_MAX", "PROTO_URN", "PROTO_AUTHORITY_FORM", "PROTO_TLS", "PROTO_SSL", "PROTO_ICP", "PROTO_HTCP", "PROTO_ICY"))
    ck.need(len(schemes) >= 4 and "http" in schemes and "ftp" in schemes, "C61: AnyP::ProtocolType scheme list not found: %s" % schemes)
    try:
        rx = [_re.compile(p_, _re.IGNORECASE if ic else 0) for p_, ic in pats]
    except _re.error as e_:
        raise ck.broken("C61: cannot interpret the manager regex %s: %s" % (pats, e_))
    uncovered = []
    for sc in schemes:
        url = "%s://proxy.example:3128/squid-internal-mgr/menu" % sc     # Squid lower-cases the scheme before ACLs see the URL
        if not any(r.search(url) for r in rx):
            uncovered.append(url)
    if not uncovered:
        ck.ok("G5.manager-acl-covers-all-schemes", "src/cf.data.pre", "DEFAULT manager url_regex %s matches the cache-manager URL of all %d schemes" % ([p_ for p_, _ in pats], len(schemes)))
    else:
        ck.violation("G5.manager-acl-covers-all-schemes", "G5|manager-acl|uncovered:%s" % ",".join(sorted({u.split(":")[0] for u in uncovered})), "src/cf.data.pre",
                     "the built-in `manager` ACL %s does not match %s although such a request is served by the cache manager: `http_access deny manager` does not protect it"
                     % ([p_ for p_, _ in pats], uncovered[:3]))
    ck.assume("extraction of the password from the URL / Authorization header (ParseUrl, ParseHeaders), String comparison, and the http_access part "
              "(C45) are not analysed; exception edges of the try block are not in the CFG")
