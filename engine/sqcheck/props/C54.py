"""C54 Shared read/write lock provides mutual exclusion: balance + order clauses (DESIGN.md 5/C54)."""
from .. import expr as E
from ..balance import enumerate_paths, atomic_member_op

MEMBERS = {"readLevel", "writeLevel", "readers", "writing", "appending", "updating"}
P = "Ipc::ReadWriteLock::"

# contract: function -> {return class: net effect}; confirmed by reading ipc/ReadWriteLock.{h,cc}
CONTRACT = {
    "finalizeExclusive": {True: {"writing": "=1"}, False: {"writeLevel": "-1"}},
    "lockShared": {True: {"readLevel": "+1", "readers": "+1"}, False: {}},
    "unlockShared": {None: {"readers": "-1", "readLevel": "-1"}},
    "unlockExclusive": {None: {"writing": "=0", "appending": "=0", "writeLevel": "-1"}},
    "lockExclusive": {True: {"writeLevel": "+1", "writing": "=1"}, False: {}},
    "lockHeaders": {True: {"readLevel": "+1", "readers": "+1", "updating": "=1"}, False: {}},
    "unlockHeaders": {None: {"updating": "=0", "readers": "-1", "readLevel": "-1"}},
    "switchExclusiveToShared": {None: {"readLevel": "+1", "readers": "+1", "writing": "=0", "appending": "=0", "writeLevel": "-1"}},
    "unlockSharedAndSwitchToExclusive": {True: {"readers": "-1", "readLevel": "-1", "writeLevel": "+1", "writing": "=1"},
                                         False: {"readers": "-1", "readLevel": "-1"}},
    "startAppending": {None: {"appending": "=1"}},
    "stopAppendingAndRestoreExclusive": {"?": {"appending": "=0"}},
}
ORDER = ["finalizeExclusive", "lockShared", "unlockShared", "unlockExclusive", "lockExclusive", "lockHeaders", "unlockHeaders",
         "switchExclusiveToShared", "unlockSharedAndSwitchToExclusive", "startAppending", "stopAppendingAndRestoreExclusive"]

EFFECT = {"inc": ("d", 1), "dec": ("d", -1), "clear": ("=", 0)}


def run(ck):
    facts = ck.facts(["src/ipc/ReadWriteLock.cc"])
    summaries = {}
    types = {}
    bad_ops = []

    def make_outcomes(fname):
        def outcomes(ev):
            op = atomic_member_op(ev, MEMBERS)
            if op:
                m, kind, cv = op
                if ev.get("e") == "call":
                    o = E.strip(E.strip(ev["x"])["o"])
                    types[m] = o.get("t", "?")
                if kind in EFFECT:
                    return [(None, [(kind, m, EFFECT[kind])])]
                if kind == "set":
                    return [(None, [("set", m, ("=", cv if cv is not None else "?"))])]
                if kind == "read":
                    return [(None, [("read", m, None)])]
                if kind == "tas":
                    # test_and_set returns the old value: old=false -> we set it; old=true -> unchanged
                    return [(False, [("tas", m, ("=", 1))]), (True, [("tas", m, None)])]
                bad_ops.append((fname, m, kind, ev.get("l")))
                return [(None, [(kind, m, None)])]
            if ev.get("e") == "call":
                x = E.strip(ev.get("x"))
                if isinstance(x, dict) and x.get("f", "").startswith(P) and x["f"][len(P):] in summaries and E.strip(x.get("o", {})).get("k") == "this":
                    alts = []
                    for p in summaries[x["f"][len(P):]]:
                        if p.ret == "throw":
                            continue
                        ops = []
                        eff = {}
                        for (op_, c_) in p.seq:
                            ops.append((op_, c_, None))
                        # replay the callee's net effect as one step after its ops
                        for c_, v in p.effects.items():
                            ops.append(("net", c_, v))
                        alts.append((p.ret if p.ret in (True, False) else None, ops))
                    return alts or None
            return None
        return outcomes

    ck.rule("B1 BALANCE: for each of %d ReadWriteLock methods, every acyclic path's net effect on {readLevel,writeLevel,readers,writing,appending,updating} "
            "equals the contract for its return class (failure returns are net zero; unlocks are the inverse of locks); callee methods are inlined by summary" % len(ORDER))
    for name in ORDER:
        fn = facts.fn(P + name)
        paths = enumerate_paths(fn, make_outcomes(name))
        summaries[name] = paths
        ck.stats["functions"].add(fn.name)
        live = [p for p in paths if p.ret != "throw"]
        ck.need(live, "C54: no returning path in %s" % name)
        seen = set()
        for p in live:
            net = p.net()
            sig = (str(p.ret), tuple(sorted(net.items())))
            if sig in seen:
                continue
            seen.add(sig)
            want = CONTRACT[name].get(p.ret)
            if want is None and p.ret in (True, False, None, "?"):
                ck.violation("B1.balance", "B1|%s|ret=%s|unexpected-return-class" % (name, p.ret), fn.where(p.line),
                             "%s has a path returning %s which the contract does not know (net effect %s)" % (name, p.ret, net))
            elif net == want:
                ck.ok("B1.balance", fn.where(p.line), "%s: return %s has net effect %s" % (name, p.ret, net or "{}"))
            else:
                ck.violation("B1.balance", "B1|%s|ret=%s|net-effect" % (name, p.ret), fn.where(p.line),
                             "%s: a path returning %s has net effect %s, contract says %s (ops: %s)" % (name, p.ret, net, want, p.seq))
        for r in CONTRACT[name]:
            if not any(p.ret == r for p in live):
                ck.violation("B1.balance", "B1|%s|ret=%s|missing" % (name, r), fn.where(), "%s no longer has a path returning %s" % (name, r))

    ck.rule("B2 ORDER: lockShared announces itself (++readLevel) before reading writeLevel/appending; lockExclusive and "
            "unlockSharedAndSwitchToExclusive test the result of the writeLevel++ RMW itself and read readLevel only after it; "
            "finalizeExclusive sets writing only after reading readLevel; switchExclusiveToShared raises readLevel/readers before clearing writing")

    def first(seq, pred):
        for i, s in enumerate(seq):
            if pred(s):
                return i
        return None

    def check_order(name, before, after, what, missing_after_is_violation=False):
        fn = facts.fn(P + name)
        n = 0
        for p in summaries[name]:
            if p.ret == "throw":
                continue
            ia = first(p.seq, after)
            if ia is None:
                continue
            n += 1
            ib = first(p.seq, before)
            if ib is not None and ib < ia:
                ck.ok("B2.order", fn.where(p.line), "%s: %s" % (name, what))
            else:
                ck.violation("B2.order", "B2|%s|%s" % (name, what.replace(" ", "_")), fn.where(p.line), "%s: violated order: %s (ops on this path: %s)" % (name, what, p.seq))
        if n == 0 and missing_after_is_violation:
            ck.violation("B2.order", "B2|%s|%s|never-consulted" % (name, what.replace(" ", "_")), fn.where(),
                         "%s: no returning path performs the second operation of '%s' any more: the decision is taken on a different variable "
                         "(readers lags behind readLevel while a reader is between its announcement and its increment)" % (name, what))
            return
        ck.need(n >= 1, "C54: order rule '%s' matched no path in %s" % (what, name))

    check_order("lockShared", lambda s: s == ("inc", "readLevel"), lambda s: s in (("read", "writeLevel"), ("read", "appending")), "++readLevel before reading writeLevel/appending")
    for name in ("lockExclusive", "unlockSharedAndSwitchToExclusive"):
        check_order(name, lambda s: s == ("inc", "writeLevel"), lambda s: s == ("read", "readLevel"), "writeLevel++ before reading readLevel", missing_after_is_violation=True)
        fn = facts.fn(P + name)
        tested = False
        for b in fn.blocks.values():
            c = (b.get("term") or {}).get("c")
            if c is not None:
                for n in E.walk(c):
                    if n.get("k") == "call" and n.get("f", "").endswith("operator++") and E.strip(n.get("o", {})).get("m", "").endswith("::writeLevel"):
                        tested = True
        reads = [p for p in summaries[name] if p.ret != "throw" and ("read", "writeLevel") in p.seq and
                 (("inc", "writeLevel") not in p.seq or p.seq.index(("read", "writeLevel")) < p.seq.index(("inc", "writeLevel")))]
        if tested and not reads:
            ck.ok("B2.rmw-result-tested", fn.where(), "%s branches on the value returned by writeLevel++ and never re-reads writeLevel" % name)
        else:
            ck.violation("B2.rmw-result-tested", "B2|%s|rmw-result" % name, fn.where(), "%s no longer decides on the result of the writeLevel++ RMW itself (separate read => check-then-act race)" % name)
    check_order("finalizeExclusive", lambda s: s == ("read", "readLevel"), lambda s: s == ("set", "writing"), "readLevel read before writing=true")
    # and that read must be the branch condition guarding writing = true (not merely an assert)
    fe = facts.fn(P + "finalizeExclusive")
    fle = ck.flow(fe)
    setw = lambda ev: ev.get("e") == "call" and E.strip(ev["x"]).get("f", "").endswith("operator=") and E.m_is_mem("writing")(E.strip(ev["x"]).get("o")) and E.const(E.strip(ev["x"])["a"][0]) == 1
    ck.require_fact("B2.exclusive-needs-no-announced-reader", fle, setw, E.m_is_mem("readLevel"), False, "writing = true",
                    why="(a reader that announced itself via ++readLevel but has not yet incremented readers would coexist with the writer)")
    check_order("switchExclusiveToShared", lambda s: s == ("inc", "readLevel"), lambda s: s == ("set", "writing"), "++readLevel before writing=false")
    check_order("switchExclusiveToShared", lambda s: s == ("inc", "readers"), lambda s: s == ("set", "writing"), "++readers before writing=false")
    check_order("lockHeaders", lambda s: s == ("inc", "readers"), lambda s: s == ("tas", "updating"), "shared lock before updating.test_and_set")

    ck.rule("B3 TYPES: the six state members are std::atomic/std::atomic_flag and are only touched through ++/--/=/conversion/test_and_set/clear (no weaker explicit orders on the level counters)")
    for m in sorted(MEMBERS):
        t = types.get(m)
        ck.need(t is not None, "C54: member %s is never touched" % m)
        if "atomic" in t:
            ck.ok("B3.atomic-type", "src/ipc/ReadWriteLock.h", "%s is %s" % (m, t))
        else:
            ck.violation("B3.atomic-type", "B3|type|%s" % m, "src/ipc/ReadWriteLock.h", "%s is %s, not a std::atomic" % (m, t))
    for (fname, m, kind, line) in bad_ops:
        ck.violation("B3.atomic-ops", "B3|op|%s|%s|%s" % (fname, m, kind), "src/ipc/ReadWriteLock.cc:%s" % line, "%s touches %s through %s" % (fname, m, kind))
    if not bad_ops:
        ck.ok("B3.atomic-ops", "src/ipc/ReadWriteLock.cc", "all operations on the lock state are default-order atomic ++/--/=/read or flag test_and_set/clear")
    ck.assume("mutual exclusion under all interleavings is NOT decided (needs model checking); only per-path balance and the announce-then-check order are")
