"""C43 Integer-range ACL value sets: structural clauses of ACLIntRange::parse/match and Range<int>.

ACLIntRange keeps a plain list of half-open Range<int> values (no SplayInserter): the module decides, by folding the code over representatives of
every ordering of the integers involved, that parse() stores [port1, port2+1) exactly when port2 >= port1 (port2 = port1 without '-'), that
match(i) probes [i, i+1) against every stored element and answers true exactly on a non-empty intersection, and that Range<int>::intersection /
size / constructor are (max of starts, min of ends) / max(0, end-start) / (start, end).  It does NOT decide xatos() text decoding, integer
overflow at the ends of the int range, nor std::list.
"""
from .. import expr as E
from .C41 import around, cmp_leaf, compared_consts, fold, is_ref, loop_head, short, table, truth

MAXF, MINF = {"max", "std::max"}, {"min", "std::min"}


def ival(ck, t, look, what):
    """integer value of an expression built from literals, + - , ?:, max()/min() and operands resolved by look(tree) -> int | None"""
    if E.const(t) is not None:
        return E.const(t)
    t = E.strip(t)
    if not isinstance(t, dict):
        return None
    v = look(t)
    if v is not None:
        return v
    if t.get("k") == "bin" and t.get("op") in ("+", "-"):
        l, r = ival(ck, t["l"], look, what), ival(ck, t["r"], look, what)
        return None if l is None or r is None else (l + r if t["op"] == "+" else l - r)
    if t.get("k") == "cond":
        c = truth(ck, t["c"], int_leaf(ck, look, what), what)
        return ival(ck, t["t"] if c else t["f"], look, what)
    if t.get("k") == "call" and t.get("f") in MAXF | MINF and len(t.get("a", [])) == 2 and "o" not in t:
        l, r = ival(ck, t["a"][0], look, what), ival(ck, t["a"][1], look, what)
        return None if l is None or r is None else (max(l, r) if t["f"] in MAXF else min(l, r))
    return None


def int_leaf(ck, look, what, extra=lambda t: None):
    def val(t):
        v = ival(ck, t, look, what)
        return None if v is None else ("n", v)
    return cmp_leaf(val, extra)


def field(t, owner):
    """short member name if t is <owner>.<member> (owner: 'this' or a parameter/local name)"""
    t = E.strip(t)
    if isinstance(t, dict) and t.get("k") == "mem":
        b = E.strip(t.get("b"))
        if (owner == "this" and b.get("k") == "this") or (b.get("k") == "ref" and b.get("d") == owner):
            return t["m"].split("::")[-1]
    return None


def run(ck):
    facts = ck.facts(["src/acl/IntRange.cc"], whole=False)
    R4 = range(4)

    # ---------------------------------------------------------------- Range<int>
    ck.rule("G1 Range<int>(s, e) stores s in start and e in end; Range<int>::size() is max(0, end - start) on every ordering of start and end")
    inst = lambda name, np=None: ([f for f in facts.fns(name) if f.tmpl == 2 and "<int" in f.full and (np is None or len(f.params) == np)]
                                  or [f for f in facts.fns(name) if f.tmpl == 1 and (np is None or len(f.params) == np)])   # the <int> instantiation, else the template pattern
    ctor = inst("Range::Range", 2)
    ck.need(len(ctor) == 1, "C43: Range<int>(int,int) constructor not found in the facts (is src/base/Range.h still in units.HDR_CFG?)")
    ctor = ctor[0]
    inits = {E.strip(ev["lhs"])["m"].split("::")[-1]: (E.strip(ev.get("rhs")) or {}) for b in ctor.blocks.values() for ev in b["ev"] if ev.get("e") == "asg" and E.strip(ev["lhs"]).get("k") == "mem"}
    for i, f in enumerate(("start", "end")):
        ck.need(f in inits and inits[f].get("dk") == "param", "C43: Range constructor initialises %s in an unrecognised way" % f)
        if inits[f]["d"] == ctor.params[i]["d"]:
            ck.ok("G1.range-ctor", ctor.where(), "Range(s,e): %s = argument %d" % (f, i))
        else:
            ck.violation("G1.range-ctor", "G1|Range-ctor|%s" % f, ctor.where(), "Range<int>'s constructor stores %s in %s, not its argument %d" % (inits[f]["d"], f, i))
    size = inst("Range::size")
    ck.need(len(size) == 1, "C43: Range<int>::size not found")
    size = size[0]
    own = lambda g: (lambda t: g.get(field(t, "this")) if field(t, "this") else None)
    table(ck, "G1.size-table", size, size.entry, {"start": R4, "end": R4}, lambda g: int_leaf(ck, own(g), "Range::size"), lambda g: max(0, g["end"] - g["start"]),
          lambda g, end, x: ival(ck, x, own(g), "Range::size") if end == "ret" else "?", "Range<int>::size")

    ck.rule("G2 Range<int>::intersection(rhs) returns Range(max(start, rhs.start), min(end, rhs.end)) on every ordering of the four bounds (max/min: compat templates, by name)")
    isect = inst("Range::intersection")
    ck.need(len(isect) == 1 and len(isect[0].params) == 1, "C43: Range<int>::intersection not found")
    isect = isect[0]
    RHS = isect.params[0]["d"]
    idefs = ck.local_defs(isect)

    def both(g):
        def look(t):
            if field(t, "this"):
                return g.get("this." + field(t, "this"))
            if field(t, RHS):
                return g.get("rhs." + field(t, RHS))
            return None
        return look

    def cls_isect(g, end, x):
        x = E.strip(x)
        if end != "ret" or not isinstance(x, dict):
            return "?"
        if x.get("k") == "ref" and len(idefs.get(x["d"], [])) == 1:
            x = E.strip(idefs[x["d"]][0])
        ck.need(x.get("k") in ("ctor", "init") and len(x.get("a", [])) == 2, "C43: Range::intersection returns unrecognised %s" % E.key(x))
        v = tuple(ival(ck, a, both(g), "Range::intersection") for a in x["a"])
        ck.need(None not in v, "C43: Range::intersection bounds are unrecognised: %s" % E.key(x))
        return v
    R3 = range(3)
    table(ck, "G2.intersection-table", isect, isect.entry, {"this.start": R3, "this.end": R3, "rhs.start": R3, "rhs.end": R3}, lambda g: int_leaf(ck, both(g), "Range::intersection"),
          lambda g: (max(g["this.start"], g["rhs.start"]), min(g["this.end"], g["rhs.end"])), cls_isect, "Range<int>::intersection",
          pure=lambda ev: ev.get("e") == "decl" or (ev.get("e") == "call" and (E.strip(ev["x"]).get("f") in MAXF | MINF or E.strip(ev["x"]).get("k") == "ctor")))

    # ---------------------------------------------------------------- a concrete interpreter for the two ACLIntRange bodies
    cont = inst("Range::contains")

    class Interp(object):
        """straight-line interpreter over ints and Range<int> values ([start, end] lists; references alias), driven by fold() under one row of a table.
        Range::intersection and Range::size are evaluated by the reference semantics G1/G2 establish for the real functions; Range::contains is
        evaluated by folding the real function."""

        def __init__(self, what, ints=None, lst=None, hook=lambda it, ev: None, extra=lambda it, t: None):
            self.what, self.env, self.lst, self.elem = what, dict(ints or {}), [list(x) for x in (lst or [])], None
            self.hook, self.extra, self.rejected, self.members = hook, extra, 0, set()

        def is_list(self, o):
            f = field(o, "this")
            o = E.strip(o)
            if f is None and isinstance(o, dict) and o.get("k") == "ref" and o.get("d", "").startswith("__range"):
                return True
            if f is not None and "list" in (o.get("t") or ""):
                self.members.add(f)
                return True
            return False

        def look(self, t):
            k = t.get("k")
            if k == "ref":
                v = self.env.get(t.get("d"))
                return v if isinstance(v, int) and not isinstance(v, bool) else None
            if k == "mem" and t["m"].split("::")[-1] in ("start", "end"):
                r = self.rng(t.get("b"))
                return None if r is None else r[0 if t["m"].endswith("start") else 1]
            if k == "call" and short(t) == "size" and "o" in t and not t.get("a"):
                r = self.rng(t["o"])
                return None if r is None else max(0, r[1] - r[0])
            return None

        def num(self, t):
            return ival(ck, t, self.look, self.what)

        def rng(self, t):
            t = E.strip(t)
            if not isinstance(t, dict):
                return None
            k, a = t.get("k"), t.get("a", [])
            if k == "ref":
                v = self.env.get(t.get("d"))
                return v if isinstance(v, list) else None
            if k in ("ctor", "init") and t.get("f", "Range::Range") == "Range::Range":
                if len(a) == 2:
                    v = [self.num(x) for x in a]
                    return None if None in v else v
                if len(a) == 1:
                    r = self.rng(a[0])
                    return None if r is None else list(r)
            if k == "call" and "o" in t:
                f = short(t)
                if f == "intersection" and len(a) == 1:
                    x, y = self.rng(t["o"]), self.rng(a[0])
                    return None if x is None or y is None else [max(x[0], y[0]), min(x[1], y[1])]
                if f in ("back", "front") and not a and self.is_list(t["o"]) and self.lst:
                    return self.lst[-1 if f == "back" else 0]
                if f == "operator*" and E.strip(t["o"]).get("d", "").startswith("__begin"):
                    return self.elem
            return None

        def contains(self, r, v):
            ck.need(len(cont) == 1 and len(cont[0].params) == 1, "C43: Range::contains not found")
            ck.need(r[0] <= r[1], "%s: Range::contains on an inverted range (assert)" % self.what)
            fn = cont[0]
            P = fn.params[0]["d"]
            look = lambda t: (r[0 if field(t, "this") == "start" else 1] if field(t, "this") in ("start", "end") else (v if is_ref(t, P) else None))
            leaf = int_leaf(ck, look, "Range::contains")
            end, x = fold(ck, fn, fn.entry, leaf, "Range::contains")
            ck.need(end == "ret", "C43: Range::contains does not return")
            return truth(ck, x, leaf, "Range::contains")

        def bool_leaf(self, t):
            t = E.strip(t)
            if isinstance(t, dict) and t.get("k") == "call" and "o" in t:
                f, a = short(t), t.get("a", [])
                if f == "contains" and len(a) == 1:
                    r, v = self.rng(t["o"]), self.num(a[0])
                    return None if r is None or v is None else self.contains(r, v)
                if f == "empty" and not a and self.is_list(t["o"]):
                    return not self.lst
            return self.extra(self, t)

        def leaf(self):
            return int_leaf(ck, self.look, self.what, self.bool_leaf)

        def event(self, ev):
            h = self.hook(self, ev)
            if h is not None:
                return h
            k = ev.get("e")
            if k == "decl":
                init = ev.get("init")
                if init is None or ev["d"].startswith("__"):
                    return True
                r = self.rng(init)
                if r is not None:
                    self.env[ev["d"]] = r if (ev.get("t") or "").rstrip().endswith("&") else list(r)
                    return True
                n = self.num(init)
                if n is not None:
                    self.env[ev["d"]] = n
                    return True
                return False
            if k == "asg" and ev.get("op") == "=":
                lhs = E.strip(ev["lhs"])
                n = self.num(ev.get("rhs"))
                if lhs.get("k") == "ref" and lhs.get("dk") == "local" and n is not None:
                    self.env[lhs["d"]] = n
                    return True
                if lhs.get("k") == "mem" and lhs["m"].split("::")[-1] in ("start", "end") and n is not None:
                    r = self.rng(lhs.get("b"))
                    if r is not None:
                        r[0 if lhs["m"].endswith("start") else 1] = n
                        return True
                r = self.rng(ev.get("rhs"))
                if lhs.get("k") == "ref" and lhs.get("dk") == "local" and r is not None and isinstance(self.env.get(lhs["d"]), list):
                    self.env[lhs["d"]][:] = r
                    return True
                return False
            if k == "call":
                x = E.strip(ev["x"])
                f, a = short(x), x.get("a", [])
                if x.get("k") == "ctor" or f in ("intersection", "size", "contains", "operator*", "operator++", "operator!=", "operator==") or (x.get("f") in MAXF | MINF and "o" not in x):
                    return True
                if f in ("empty", "back", "front", "begin", "end", "cbegin", "cend") and not a and self.is_list(x.get("o")):
                    return True
                if f == "self_destruct":
                    self.rejected += 1
                    return True
                if f in ("push_back", "emplace_back") and len(a) == 1 and self.is_list(x.get("o")):
                    r = self.rng(a[0])
                    if r is None:
                        return False
                    self.lst.append(list(r))
                    return True
            return False

    DOM = range(-3, 40)
    cover = lambda rs: frozenset(v for v in DOM for r in rs if r[0] <= v < r[1])
    show = lambda c: "{%s}" % ",".join(str(v) for v in sorted(c)) if not isinstance(c, str) else c

    # ---------------------------------------------------------------- ACLIntRange::parse
    ck.rule("P1 ACLIntRange::parse, per token: with port1 = xatos(token), port2 = xatos(text after '-') or port1 when there is no '-', the integers the list "
            "covers afterwards are those it covered before plus [port1, port2] exactly when port2 >= port1, and otherwise the token is rejected (self_destruct()); table over "
            "dash x orderings of the two numbers x earlier list contents (none, overlapping, enclosing, disjoint)")
    pr = facts.fn("ACLIntRange::parse")
    tok = lambda t: E.strip(t).get("k") == "call" and E.strip(t).get("f") == "ConfigParser::strtokFile"
    head = loop_head(ck, pr, lambda b: any(e.get("e") == "decl" and tok(e.get("init") or {}) for e in b["ev"]), "ACLIntRange::parse")
    TOK = [e["d"] for e in head["ev"] if e.get("e") == "decl" and tok(e.get("init") or {})][0]
    ck.need(is_ref(head["term"]["c"], TOK), "C43: parse loop condition is not the token")
    body = [s["to"] for s in head["succ"] if s.get("lab") == "T"][0]
    pdefs = ck.local_defs(pr)
    dashes = [n for n, ds in pdefs.items() if any(short(d) == "strchr" and is_ref(E.strip(d)["a"][0], TOK) and E.const(E.strip(d)["a"][1]) == 45 for d in ds)]
    ck.need(len(dashes) == 1, "C43: parse has no local holding strchr(token, '-')")
    DASH = dashes[0]
    members = set()
    state = {}

    def parse_hook(it, ev):
        g = state["g"]
        k = ev.get("e")
        if k == "decl" and ev["d"] == DASH:
            return True
        if k == "asg":
            lhs, rhs = E.strip(ev["lhs"]), E.strip(ev.get("rhs"))
            if E.root_decl(lhs) == ("ref", DASH):
                return True                                   # '*b = 0; ++b': splitting the token text (not modelled)
            if lhs.get("k") == "ref" and lhs.get("dk") == "local" and ev.get("op") == "=" and short(rhs) == "xatos" and len(rhs.get("a", [])) == 1:
                if is_ref(rhs["a"][0], TOK) or is_ref(rhs["a"][0], DASH):
                    it.env[lhs["d"]] = g["first"] if is_ref(rhs["a"][0], TOK) else g["second"]
                    return True
                return False
        if k == "call" and short(ev["x"]) in ("strchr", "xatos"):
            return True
        return None

    def leaf_of(g):
        state["g"] = g
        state["it"] = it = Interp("ACLIntRange::parse", lst=PREV[g["prev"]], hook=parse_hook, extra=lambda it, t: g["dash"] if is_ref(t, DASH) else None)
        return it.leaf()

    def cls_parse(g, end, x):
        it = state["it"]
        members.update(it.members)
        if end != "back":
            return "?"
        return "reject" if it.rejected else show(cover(it.lst))
    PREV = {"none": [], "overlap": [[4, 6]], "enclosing": [[0, 9]], "disjoint": [[20, 30]], "two": [[1, 2], [5, 8]]}

    def want_parse(g):
        last = g["second"] if g["dash"] else g["first"]
        return show(cover(PREV[g["prev"]] + [[g["first"], last + 1]])) if last >= g["first"] else "reject"
    number = lambda t: E.strip(t).get("k") == "ref" and E.strip(t).get("dk") == "local" and E.strip(t)["d"] not in (TOK, DASH)
    nums = around([0, 3, 5, 7], compared_consts(pr, number), lo=0)       # 0: plain truth tests compare with zero
    table(ck, "P1.parse-table", pr, body, {"dash": [True, False], "first": nums, "second": [0, 5, 7], "prev": sorted(PREV)}, leaf_of, want_parse,
          cls_parse, "ACLIntRange::parse", stop=(head["id"],), pure=lambda ev: state["it"].event(ev))
    ck.need(len(members) == 1, "C43: parse stores into %s" % sorted(members))
    LIST = sorted(members)[0]

    # ---------------------------------------------------------------- ACLIntRange::match
    ck.rule("A1 ACLIntRange::match(i): the loop runs over the list member parse() fills; per element [start, end) the body returns true exactly when start <= i < end "
            "and otherwise moves to the next element (table over every ordering of i against both bounds; written with intersection()/size() or with contains(), "
            "the helpers are evaluated by their G1/G2 semantics resp. by folding Range::contains itself); list exhausted: return false")
    mt = facts.fn("ACLIntRange::match")
    I = mt.params[0]["d"]
    mdefs = ck.local_defs(mt)
    head = loop_head(ck, mt, lambda b: True, "ACLIntRange::match")
    over = {field(ds[0], "this") for n, ds in mdefs.items() if n.startswith("__range") and len(ds) == 1}
    ck.need(len(over) == 1 and None not in over, "C43: match does not iterate over a member")
    if over == {LIST}:
        ck.ok("A1.same-list", mt.where(), "match iterates over %s, the member parse() fills" % LIST)
    else:
        ck.violation("A1.same-list", "A1|match|list-member", mt.where(), "ACLIntRange::match iterates over %s but parse() fills %s" % (sorted(over), LIST))
    probes = [(n, E.strip(ds[0])) for n, ds in mdefs.items() if len(ds) == 1 and E.strip(ds[0]).get("k") == "ctor" and E.strip(ds[0]).get("f") == "Range::Range" and len(E.strip(ds[0]).get("a", [])) == 2]
    if len(probes) == 1:
        PROBE, pc = probes[0]
        pv = tuple(ival(ck, a, lambda t: 5 if is_ref(t, I) else None, "match") for a in pc["a"])
        ck.need(None not in pv, "C43: match probe bounds are unrecognised: %s" % E.key(pc))
        if pv == (5, 6):
            ck.ok("A1.probe", mt.where(), "match: probe = Range(%s, %s + 1)" % (I, I))
        else:
            ck.violation("A1.probe", "A1|match|probe-bounds", mt.where(), "ACLIntRange::match(%s) probes %s, i.e. [%d,%d) for %s = 5, instead of [5,6)" % (I, E.key(pc), pv[0], pv[1], I))
    # the straight-line prelude (probe construction, range-for setup) is replayed for every row before the body is folded
    prelude, bid = [], mt.entry
    while bid != head["id"]:
        b = mt.blocks[bid]
        ck.need(len(b["succ"]) == 1, "C43: match branches before its loop")
        prelude += b["ev"]
        bid = b["succ"][0]["to"]
    body = [s["to"] for s in head["succ"] if s.get("lab") == "T"][0]
    after = [s["to"] for s in head["succ"] if s.get("lab") == "F"][0]
    mstate = {}

    def mleaf(g):
        mstate["it"] = it = Interp("ACLIntRange::match", ints={I: g["i"]})
        it.elem = [g["start"], g["end"]]
        for ev in prelude:
            ck.need(it.event(ev), "ACLIntRange::match: unrecognised statement before the loop: %s" % E.key(ev.get("x") or ev.get("init") or ev.get("lhs") or {})[:100])
        return it.leaf()
    cls = lambda g, end, x: "next" if end == "back" else ("?" if end != "ret" or E.const(x) is None else ("true" if E.const(x) else "false"))
    table(ck, "A1.match-table", mt, body, {"start": [3, 5], "end": [5, 6, 8], "i": list(range(1, 11))}, mleaf, lambda g: "true" if g["start"] <= g["i"] < g["end"] else "next",
          cls, "ACLIntRange::match/element", stop=(head["id"],), pure=lambda ev: mstate["it"].event(ev), skip=lambda g: g["start"] >= g["end"])
    table(ck, "A1.match-table", mt, after, {"exhausted": [True]}, lambda g: cmp_leaf(lambda t: None), lambda g: "false", cls, "ACLIntRange::match/exhausted", pure=lambda ev: False)

    ck.assume("decides the parse/match/Range<int> decision tables over representatives of every ordering of the integers involved (values are touched only through "
              "comparisons, +1, end-start and max/min); it does not decide xatos() text decoding, the '*b = 0; ++b' token splitting, arithmetic overflow at INT_MAX, "
              "the compat max()/min() templates themselves, nor std::list")
