"""C43 Integer-range ACL value sets: structural clauses of ACLIntRange::parse/match and Range<int>.

ACLIntRange keeps a plain list of half-open Range<int> values (no SplayInserter): the module decides, by folding the code over representatives of
every ordering of the integers involved, that parse() stores [port1, port2+1) exactly when port2 >= port1 (port2 = port1 without '-'), that
match(i) probes [i, i+1) against every stored element and answers true exactly on a non-empty intersection, and that Range<int>::intersection /
size / constructor are (max of starts, min of ends) / max(0, end-start) / (start, end).  It does NOT decide xatos() text decoding, integer
overflow at the ends of the int range, nor std::list.
"""
from .. import expr as E
from .C41 import around, cmp_leaf, compared_consts, is_ref, loop_head, short, table, truth

MAXF, MINF = {"max", "std::max"}, {"min", "std::min"}


def ival(ck, t, look, what):
    """integer value of an expression built from literals, + - , ?:, max()/min() and operands resolved by look(tree) -> int | None"""
    if E.const(t) is not None:
        return E.const(t)
    t = E.strip(t)
    if not isinstance(t, dict):
        return None
    v = look(t)
    if v is not None:
        return v
    if t.get("k") == "bin" and t.get("op") in ("+", "-"):
        l, r = ival(ck, t["l"], look, what), ival(ck, t["r"], look, what)
        return None if l is None or r is None else (l + r if t["op"] == "+" else l - r)
    if t.get("k") == "cond":
        c = truth(ck, t["c"], int_leaf(ck, look, what), what)
        return ival(ck, t["t"] if c else t["f"], look, what)
    if t.get("k") == "call" and t.get("f") in MAXF | MINF and len(t.get("a", [])) == 2 and "o" not in t:
        l, r = ival(ck, t["a"][0], look, what), ival(ck, t["a"][1], look, what)
        return None if l is None or r is None else (max(l, r) if t["f"] in MAXF else min(l, r))
    return None


def int_leaf(ck, look, what, extra=lambda t: None):
    def val(t):
        v = ival(ck, t, look, what)
        return None if v is None else ("n", v)
    return cmp_leaf(val, extra)


def field(t, owner):
    """short member name if t is <owner>.<member> (owner: 'this' or a parameter/local name)"""
    t = E.strip(t)
    if isinstance(t, dict) and t.get("k") == "mem":
        b = E.strip(t.get("b"))
        if (owner == "this" and b.get("k") == "this") or (b.get("k") == "ref" and b.get("d") == owner):
            return t["m"].split("::")[-1]
    return None


def run(ck):
    facts = ck.facts(["src/acl/IntRange.cc"], whole=False)
    R4 = range(4)

    # ---------------------------------------------------------------- Range<int>
    ck.rule("G1 Range<int>(s, e) stores s in start and e in end; Range<int>::size() is max(0, end - start) on every ordering of start and end")
    ctor = [f for f in facts.fns("Range::Range") if f.tmpl == 2 and len(f.params) == 2 and "<int" in f.full]
    ck.need(len(ctor) == 1, "C43: Range<int>(int,int) constructor not found in the facts (is src/base/Range.h still in units.HDR_CFG?)")
    ctor = ctor[0]
    inits = {E.strip(ev["lhs"])["m"].split("::")[-1]: (E.strip(ev.get("rhs")) or {}) for b in ctor.blocks.values() for ev in b["ev"] if ev.get("e") == "asg" and E.strip(ev["lhs"]).get("k") == "mem"}
    for i, f in enumerate(("start", "end")):
        ck.need(f in inits and inits[f].get("dk") == "param", "C43: Range constructor initialises %s in an unrecognised way" % f)
        if inits[f]["d"] == ctor.params[i]["d"]:
            ck.ok("G1.range-ctor", ctor.where(), "Range(s,e): %s = argument %d" % (f, i))
        else:
            ck.violation("G1.range-ctor", "G1|Range-ctor|%s" % f, ctor.where(), "Range<int>'s constructor stores %s in %s, not its argument %d" % (inits[f]["d"], f, i))
    size = [f for f in facts.fns("Range::size") if f.tmpl == 2 and "<int" in f.full]
    ck.need(len(size) == 1, "C43: Range<int>::size not found")
    size = size[0]
    own = lambda g: (lambda t: g.get(field(t, "this")) if field(t, "this") else None)
    table(ck, "G1.size-table", size, size.entry, {"start": R4, "end": R4}, lambda g: int_leaf(ck, own(g), "Range::size"), lambda g: max(0, g["end"] - g["start"]),
          lambda g, end, x: ival(ck, x, own(g), "Range::size") if end == "ret" else "?", "Range<int>::size")

    ck.rule("G2 Range<int>::intersection(rhs) returns Range(max(start, rhs.start), min(end, rhs.end)) on every ordering of the four bounds (max/min: compat templates, by name)")
    isect = [f for f in facts.fns("Range::intersection") if f.tmpl == 2 and "<int" in f.full]
    ck.need(len(isect) == 1 and len(isect[0].params) == 1, "C43: Range<int>::intersection not found")
    isect = isect[0]
    RHS = isect.params[0]["d"]
    idefs = ck.local_defs(isect)

    def both(g):
        def look(t):
            if field(t, "this"):
                return g.get("this." + field(t, "this"))
            if field(t, RHS):
                return g.get("rhs." + field(t, RHS))
            return None
        return look

    def cls_isect(g, end, x):
        x = E.strip(x)
        if end != "ret" or not isinstance(x, dict):
            return "?"
        if x.get("k") == "ref" and len(idefs.get(x["d"], [])) == 1:
            x = E.strip(idefs[x["d"]][0])
        ck.need(x.get("k") in ("ctor", "init") and len(x.get("a", [])) == 2, "C43: Range::intersection returns unrecognised %s" % E.key(x))
        v = tuple(ival(ck, a, both(g), "Range::intersection") for a in x["a"])
        ck.need(None not in v, "C43: Range::intersection bounds are unrecognised: %s" % E.key(x))
        return v
    R3 = range(3)
    table(ck, "G2.intersection-table", isect, isect.entry, {"this.start": R3, "this.end": R3, "rhs.start": R3, "rhs.end": R3}, lambda g: int_leaf(ck, both(g), "Range::intersection"),
          lambda g: (max(g["this.start"], g["rhs.start"]), min(g["this.end"], g["rhs.end"])), cls_isect, "Range<int>::intersection",
          pure=lambda ev: ev.get("e") == "decl" or (ev.get("e") == "call" and (E.strip(ev["x"]).get("f") in MAXF | MINF or E.strip(ev["x"]).get("k") == "ctor")))

    # ---------------------------------------------------------------- ACLIntRange::parse
    ck.rule("P1 ACLIntRange::parse, per token: with port1 = xatos(token), port2 = xatos(text after '-') or port1 when there is no '-', the list member receives "
            "Range(port1, port2 + 1) exactly when port2 >= port1 and otherwise nothing (self_destruct()); table over dash x orderings of the two numbers")
    pr = facts.fn("ACLIntRange::parse")
    tok = lambda t: E.strip(t).get("k") == "call" and E.strip(t).get("f") == "ConfigParser::strtokFile"
    head = loop_head(ck, pr, lambda b: any(e.get("e") == "decl" and tok(e.get("init") or {}) for e in b["ev"]), "ACLIntRange::parse")
    TOK = [e["d"] for e in head["ev"] if e.get("e") == "decl" and tok(e.get("init") or {})][0]
    ck.need(is_ref(head["term"]["c"], TOK), "C43: parse loop condition is not the token")
    body = [s["to"] for s in head["succ"] if s.get("lab") == "T"][0]
    pdefs = ck.local_defs(pr)
    dashes = [n for n, ds in pdefs.items() if any(short(d) == "strchr" and is_ref(E.strip(d)["a"][0], TOK) and E.const(E.strip(d)["a"][1]) == 45 for d in ds)]
    ck.need(len(dashes) == 1, "C43: parse has no local holding strchr(token, '-')")
    DASH = dashes[0]
    env, pushed, rejected, members = {}, [], [], set()

    def plook(g):
        def look(t):
            if t.get("k") == "ref" and t.get("dk") == "local" and t["d"] in env:
                src = env[t["d"]]
                return src if isinstance(src, int) else (g["first"] if src == "first" else (g["second"] if src == "second" else None))
            return None
        return look

    def step(g):
        def on_event(ev):
            k = ev.get("e")
            if k == "decl":
                init = E.strip(ev.get("init"))
                if isinstance(init, dict) and init.get("k") == "ctor" and init.get("f") == "Range::Range" and len(init.get("a", [])) == 2:
                    env[ev["d"]] = tuple(ival(ck, a, plook(g), "parse") for a in init["a"])
                return True
            if k == "asg":
                lhs, rhs = E.strip(ev["lhs"]), E.strip(ev.get("rhs"))
                if E.root_decl(lhs) == ("ref", DASH):
                    return True                                   # '*b = 0; ++b': splitting the token text (not modelled)
                if lhs.get("k") == "ref" and lhs.get("dk") == "local" and ev.get("op") == "=" and isinstance(rhs, dict):
                    if short(rhs) == "xatos" and len(rhs.get("a", [])) == 1 and (is_ref(rhs["a"][0], TOK) or is_ref(rhs["a"][0], DASH)):
                        env[lhs["d"]] = "first" if is_ref(rhs["a"][0], TOK) else "second"
                        return True
                    if rhs.get("k") == "ref" and rhs.get("d") in env:
                        env[lhs["d"]] = env[rhs["d"]]
                        return True
                    if E.const(rhs) is not None:
                        env[lhs["d"]] = E.const(rhs)
                        return True
                return False
            if k == "call":
                x = E.strip(ev["x"])
                f = short(x)
                if f in ("strchr", "xatos") or x.get("k") == "ctor":
                    return True
                if f == "self_destruct":
                    rejected.append(1)
                    return True
                if f in ("push_back", "emplace_back", "push_front") and field(x.get("o"), "this") and len(x.get("a", [])) == 1:
                    a = E.strip(x["a"][0])
                    v = env.get(a.get("d")) if a.get("k") == "ref" else None
                    if not (isinstance(v, tuple) and None not in v):
                        return False
                    members.add(field(x["o"], "this"))
                    pushed.append(v)
                    return True
            return False
        return on_event

    # fold() takes one `pure` callback; rebuild the interpreter state for every row
    state = {}

    def leaf_of(g):
        env.clear(); del pushed[:]; del rejected[:]
        state["g"] = g
        return int_leaf(ck, plook(g), "ACLIntRange::parse", lambda t: g["dash"] if is_ref(t, DASH) else None)

    def cls_parse(g, end, x):
        if end != "back":
            return "?"
        return ("push",) + tuple(pushed) if pushed else ("reject" if rejected else "nothing")
    number = lambda t: E.strip(t).get("k") == "ref" and E.strip(t).get("dk") == "local" and E.strip(t)["d"] not in (TOK, DASH)
    nums = around([0, 3, 5, 7], compared_consts(pr, number), lo=0)       # 0: plain truth tests compare with zero
    table(ck, "P1.parse-table", pr, body, {"dash": [True, False], "first": nums, "second": [0, 5]}, leaf_of,
          lambda g: ("push", (g["first"], (g["second"] if g["dash"] else g["first"]) + 1)) if (not g["dash"] or g["second"] >= g["first"]) else "reject",
          cls_parse, "ACLIntRange::parse", stop=(head["id"],), pure=lambda ev: step(state["g"])(ev))
    ck.need(len(members) == 1, "C43: parse stores into %s" % sorted(members))
    LIST = members.pop()

    # ---------------------------------------------------------------- ACLIntRange::match
    ck.rule("A1 ACLIntRange::match(i): the probe is Range(i, i + 1); the loop runs over the list member parse() fills; each element is intersected with the probe; "
            "table {intersection.size() non-zero: return true; zero: next element; list exhausted: return false}")
    mt = facts.fn("ACLIntRange::match")
    I = mt.params[0]["d"]
    mdefs = ck.local_defs(mt)
    probes = [(n, E.strip(ds[0])) for n, ds in mdefs.items() if len(ds) == 1 and E.strip(ds[0]).get("k") == "ctor" and E.strip(ds[0]).get("f") == "Range::Range" and len(E.strip(ds[0]).get("a", [])) == 2]
    ck.need(len(probes) == 1, "C43: match has no single Range probe")
    PROBE, pc = probes[0]
    pv = tuple(ival(ck, a, lambda t: 5 if is_ref(t, I) else None, "match") for a in pc["a"])
    ck.need(None not in pv, "C43: match probe bounds are unrecognised: %s" % E.key(pc))
    if pv == (5, 6):
        ck.ok("A1.probe", mt.where(), "match: probe = Range(%s, %s + 1)" % (I, I))
    else:
        ck.violation("A1.probe", "A1|match|probe-bounds", mt.where(), "ACLIntRange::match(%s) probes %s, i.e. [%d,%d) for %s = 5, instead of [5,6)" % (I, E.key(pc), pv[0], pv[1], I))
    head = loop_head(ck, mt, lambda b: True, "ACLIntRange::match")
    over = {field(ds[0], "this") for n, ds in mdefs.items() if n.startswith("__range") and len(ds) == 1}
    ck.need(len(over) == 1 and None not in over, "C43: match does not iterate over a member")
    if over == {LIST}:
        ck.ok("A1.same-list", mt.where(), "match iterates over %s, the member parse() fills" % LIST)
    else:
        ck.violation("A1.same-list", "A1|match|list-member", mt.where(), "ACLIntRange::match iterates over %s but parse() fills %s" % (sorted(over), LIST))
    elems = [n for n, ds in mdefs.items() if len(ds) == 1 and short(ds[0]) == "operator*" and E.strip(E.strip(ds[0]).get("o")).get("d", "").startswith("__begin")]
    ck.need(len(elems) == 1, "C43: match has no loop element")
    ELEM = elems[0]
    isects = [(n, E.strip(ds[0])) for n, ds in mdefs.items() if len(ds) == 1 and E.strip(ds[0]).get("k") == "call" and E.strip(ds[0]).get("f") == "Range::intersection"]
    ck.need(len(isects) == 1, "C43: match has no single intersection()")
    RES, ic = isects[0]
    ops = sorted([E.key(ic.get("o")), E.key(ic["a"][0])])
    if ops == sorted([ELEM, PROBE]):
        ck.ok("A1.intersection-roles", mt.where(), "match: %s = %s.intersection(%s)" % (RES, ELEM, PROBE))
    else:
        ck.violation("A1.intersection-roles", "A1|match|intersection-operands", mt.where(), "ACLIntRange::match intersects %s, not the list element with the probe" % ops)
    body = [s["to"] for s in head["succ"] if s.get("lab") == "T"][0]
    after = [s["to"] for s in head["succ"] if s.get("lab") == "F"][0]
    nz = lambda g: (lambda t: ("n", g["size"]) if (short(t) == "size" and is_ref(E.strip(t).get("o"), RES)) else None)
    loop_ev = lambda ev: ev.get("e") == "decl" or (ev.get("e") == "call" and short(ev["x"]) in ("operator*", "operator++", "intersection", "size"))
    cls = lambda g, end, x: "next" if end == "back" else ("?" if end != "ret" or E.const(x) is None else ("true" if E.const(x) else "false"))
    table(ck, "A1.match-table", mt, body, {"size": [0, 1, 2]}, lambda g: cmp_leaf(nz(g)), lambda g: "true" if g["size"] else "next", cls, "ACLIntRange::match/element",
          stop=(head["id"],), pure=loop_ev)
    table(ck, "A1.match-table", mt, after, {"exhausted": [True]}, lambda g: cmp_leaf(lambda t: None), lambda g: "false", cls, "ACLIntRange::match/exhausted", pure=lambda ev: False)

    ck.assume("decides the parse/match/Range<int> decision tables over representatives of every ordering of the integers involved (values are touched only through "
              "comparisons, +1, end-start and max/min); it does not decide xatos() text decoding, the '*b = 0; ++b' token splitting, arithmetic overflow at INT_MAX, "
              "the compat max()/min() templates themselves, nor std::list")
