"""C13 Vary: a stored variant is served only to matching requests (DESIGN.md section 5, C13): variant-selection gates."""
from .. import expr as E
from ..flow import ev_call, ev_return, ev_any, ev_exit
from .C11 import ev_ebit_set, case_value, mayflags, PUBLISHERS

REQ_MARK = "HttpRequest::vary_headers"
ENTRY_MARK = "MemObject::vary_headers"
SERVE = {"clientReplyContext::sendMoreData", "clientReplyContext::processExpired", "clientReplyContext::processConditional"}


def ret_of(name):
    return lambda ev: ev.get("e") == "ret" and name in E.mentions(ev.get("x"))


def run(ck):
    facts = ck.facts(["src/client_side_reply.cc", "src/client_side.cc", "src/http.cc", "src/store_key_md5.cc"], whole=True)
    hdr = facts.enum("Http::HdrType")

    # ------------------------------------------------------------------ V1: the hit path consults the variant check
    ck.rule("V1 clientReplyContext::cacheHit switches on varyEvaluateMatch(e, r): sendMoreData/processExpired/processConditional are preceded by it on all paths and "
            "unreachable under VARY_OTHER and VARY_CANCEL; after VARY_CANCEL every return passes processMiss(), after VARY_OTHER removeClientStoreReference()+clientGetMoreData()")
    hit = facts.fn("clientReplyContext::cacheHit")
    vem = E.m_calls("varyEvaluateMatch")
    sw = [b for b in hit.blocks.values() if b.get("term", {}).get("k") == "SwitchStmt" and vem(b["term"]["c"])]
    ck.need(len(sw) == 1, "C13: cacheHit no longer switches on varyEvaluateMatch()")
    serve = ev_call(SERVE)
    fl = ck.flow(hit, markers={"vary-check": ev_call("varyEvaluateMatch")})
    ck.require_passed("V1.variant-checked-before-serving", fl, serve, "vary-check", "serve", min_sites=4, why="(a hit would be served without comparing its variant mark)")
    after = {"VARY_OTHER": [("relookup", ev_call("clientGetMoreData")), ("drop", ev_call("clientReplyContext::removeClientStoreReference"))],
             "VARY_CANCEL": [("miss", ev_call("clientReplyContext::processMiss"))]}
    for name, resp in after.items():
        k = case_value(ck, hit, name)
        fl = ck.flow(hit, switch_assume=lambda cond, k=k: k if vem(cond) else None, markers=dict([("vary-check", ev_call("varyEvaluateMatch"))] + resp))
        ck.require_unreachable("V1.mismatch-not-served", fl, serve, "serve", "varyEvaluateMatch()==%s" % name, why="(a variant selected for other request headers would be served)")
        ends = [s for s in fl.find(ev_exit()) if s.passed("vary-check")]
        ck.need(ends, "C13: no return after the vary switch under %s" % name)
        for s in ends:
            missing = [m for m, _ in resp if not s.passed(m)]
            if missing:
                ck.violation("V1.mismatch-handled", "V1|cacheHit|%s|missing:%s" % (name, "+".join(missing)), s.where(),
                             "cacheHit: after %s a return is reachable without %s" % (name, "/".join(missing)), fl.witness(s))
            else:
                ck.ok("V1.mismatch-handled", s.where(), "cacheHit: %s ends in %s" % (name, "+".join(m for m, _ in resp)))

    # ------------------------------------------------------------------ V2: varyEvaluateMatch
    ck.rule("V2 varyEvaluateMatch: return VARY_MATCH only with mark.cmp(entry->mem_obj->vary_headers)==0, has(VARY) and a non-empty entry mark established, the compared mark being "
            "request->vary_headers or httpMakeVaryMark(request, reply); return VARY_NONE only with has(VARY) false; return VARY_OTHER only after request->vary_headers = mark")
    vm = facts.fn("varyEvaluateMatch")
    fl = ck.flow(vm, markers={"request-marked": ev_call("SBuf::operator=", obj=E.m_is_mem(REQ_MARK))})
    has_vary = ck.m_result_of(vm, "HttpHeader::has")
    hv_defs = [E.strip(t) for n, ds in ck.local_defs(vm).items() for t in ds if E.m_calls("HttpHeader::has")(t)]
    ck.need(hv_defs and all(E.const(t["a"][0]) in (hdr["VARY"], hdr.get("HDR_X_ACCELERATOR_VARY")) for t in hv_defs), "C13: varyEvaluateMatch no longer reads reply.header.has(VARY)")
    same = E.m_calls("SBuf::cmp") & E.m_mentions(ENTRY_MARK)
    match = ret_of("VARY_MATCH")
    ss = ck.require_fact("V2.match-needs-equal-mark", fl, match, same, False, "return VARY_MATCH", why="(a variant with a different mark would be declared matching)")
    ck.require_fact("V2.match-needs-vary-entry", fl, match, has_vary, True, "return VARY_MATCH")
    ck.require_fact("V2.match-needs-vary-entry", fl, match, E.m_calls("SBuf::isEmpty") & E.m_mentions(ENTRY_MARK), False, "return VARY_MATCH")
    ck.require_fact("V2.none-needs-no-vary", fl, ret_of("VARY_NONE"), has_vary, False, "return VARY_NONE", why="(a Vary response would be served as if it did not vary)")
    ck.require_passed("V2.other-records-mark", fl, ret_of("VARY_OTHER"), "request-marked", "return VARY_OTHER", why="(the variant re-lookup would use the base key again)")
    for s in ss:  # provenance of the compared mark
        atoms = [fl.trees[f[1]] for f in s.facts if f[0] == "A" and f[2] is False and same(fl.trees[f[1]])]
        if not atoms:
            continue   # already reported by V2.match-needs-equal-mark
        atom = atoms[0]
        obj = E.strip(E.strip(atom).get("o"))
        arg = E.strip(atom)["a"][0]
        defs = []
        if obj.get("k") == "ref":
            for b in vm.blocks.values():
                for ev in b["ev"]:
                    if ev.get("e") == "decl" and ev.get("d") == obj["d"]:
                        defs.append(ev.get("init"))
                    elif ev_call("SBuf::operator=", obj=E.m_is_ref(obj["d"]))(ev):
                        defs.append(E.strip(ev["x"])["a"][0])
        good = defs and all(REQ_MARK in E.mentions(d) or E.m_calls("httpMakeVaryMark")(d) for d in defs) and ENTRY_MARK in E.mentions(arg)
        if good:
            ck.ok("V2.mark-provenance", s.where(), "the compared mark is request->vary_headers or httpMakeVaryMark(request, reply)")
        else:
            ck.violation("V2.mark-provenance", "V2|varyEvaluateMatch|mark-provenance", s.where(), "the mark compared with entry->mem_obj->vary_headers is defined by %s" % [E.key(d)[:60] for d in defs])

    # ------------------------------------------------------------------ V3: mark and key construction
    ck.rule("V3 storeKeyPublicByRequestMethod: RESPONSE(request->vary_headers non-empty -> its rawContent() is fed to the digest before the key is returned); "
            "httpMakeVaryMark builds the mark by assembleVaryKey(reply Vary list, mark, *request); assembleVaryKey appends request.header.getByName(name) for the list item")
    key = facts.fn("storeKeyPublicByRequestMethod")
    feeds = lambda ev: ev.get("e") == "call" and not E.strip(ev["x"]).get("f", "").startswith("SBuf::") and any(
        {REQ_MARK, "SBuf::rawContent"} <= E.mentions(a) for a in E.strip(ev["x"]).get("a", []))
    ck.require_response("V3.key-includes-mark", key, E.m_calls("SBuf::isEmpty") & E.m_mentions(REQ_MARK), False, feeds, "digest-update(vary_headers)",
                        why="(all variants of a URL would share one cache key)")
    mk = facts.fn("httpMakeVaryMark")
    fl = ck.flow(mk, markers={"assembled": ev_call("assembleVaryKey")})
    ck.require_passed("V3.mark-assembled", fl, ev_return(), "assembled", "return")
    lists = [E.strip(s.ev["x"]) for s in fl.find(ev_call("HttpHeader::getList"))]
    ck.need(lists, "C13: httpMakeVaryMark no longer reads a header list")
    if any(E.const(c["a"][0]) == hdr["VARY"] for c in lists):
        ck.ok("V3.mark-assembled", mk.where(), "the mark is assembled from reply->header.getList(VARY)")
    else:
        ck.violation("V3.mark-assembled", "V3|httpMakeVaryMark|no-vary-list", mk.where(), "httpMakeVaryMark does not read the reply's Vary list")
    ak = facts.fn("assembleVaryKey")
    fl = ck.flow(ak)
    gets = ck.sites(fl, ev_call("HttpHeader::getByName"), "getByName()", 1)
    appended = [E.strip(s.ev["x"])["a"][0] for s in fl.find(ev_call("SBuf::append"))]
    vals = ck.local_defs(ak)
    for s in gets:
        x = E.strip(s.ev["x"])
        item = E.root_decl(x["a"][0])[1]
        holder = [n for n, ds in vals.items() if any(d is s.ev["x"] or E.key(d) == E.key(x) for d in ds)]
        from_req = any(p["d"] in E.mentions(x.get("o")) for p in ak.params if "HttpRequest" in p["t"])
        chain = set(holder)
        for _ in range(3):
            chain |= {n for n, ds in vals.items() if any(chain & E.mentions(d) for d in ds)}
        if from_req and item and any(E.m_is_ref(item)(a) for a in appended) and any(chain & E.mentions(a) for a in appended):
            ck.ok("V3.mark-has-request-values", s.where(), "assembleVaryKey appends the header name and the request's value for it")
        else:
            ck.violation("V3.mark-has-request-values", "V3|assembleVaryKey|value-not-appended", s.where(),
                         "assembleVaryKey no longer appends both the Vary item name and the request header value to the mark")

    ck.rule("V3b the mark is an injective encoding of the request values: the value placed between the quotes of `name=\"value\"` is the result of "
            "rfc1738_do_escape(value, flags) whose constant flags escape the unsafe set (so an embedded '\"' cannot end the value early) and do NOT carry "
            "RFC1738_ESCAPE_NOPERCENT (so a literal '%' is escaped and `en US` / `en%20US` get different marks); the append of the value is preceded by that escape")
    esc = [(b, ev) for b in ak.blocks.values() for ev in b["ev"] if ev.get("e") == "asg" and E.strip(ev.get("rhs")).get("k") == "call" and E.strip(ev["rhs"]).get("f") == "rfc1738_do_escape"]
    ck.need(len(esc) >= 1, "C13: assembleVaryKey no longer escapes the header value with rfc1738_do_escape()")
    for b, ev in esc:
        fl_ = E.const(E.strip(ev["rhs"])["a"][1])
        tgt = E.root_decl(ev["lhs"])[1]
        if fl_ is not None and (fl_ & 2) and not (fl_ & 256):
            ck.ok("V3b.mark-injective", ak.where(ev["l"]), "value escaped with flags %d (unsafe set incl. '\"' and '%%')" % fl_)
        else:
            ck.violation("V3b.mark-injective", "V3b|assembleVaryKey|escape-flags", ak.where(ev["l"]),
                         "the Vary mark value is escaped with flags %s: %s, so two different header values can produce the same mark and a variant is served to a "
                         "request it does not match" % (fl_, "a literal '%' is left unescaped (RFC1738_ESCAPE_NOPERCENT)" if fl_ is not None and fl_ & 256 else "the unsafe set ('\"', '%') is not escaped"))
        efl = ck.flow(ak, markers={"escaped": lambda e, ev=ev: e is ev})
        for st in efl.find(ev_call("SBuf::append", arg={0: E.m_is_ref(tgt)}, nargs=1)):
            if st.passed("escaped"):
                ck.ok("V3b.mark-injective", st.where(), "the value is appended after it was escaped")
            else:
                ck.violation("V3b.mark-injective", "V3b|assembleVaryKey|unescaped-append", st.where(), "the header value can be appended to the mark without having been escaped", efl.witness(st))

    # ------------------------------------------------------------------ V4: Vary: *
    ck.rule("V4 Vary:* : assembleVaryKey RESPONSE(item == \"*\" -> mark = \"*\"); HttpStateData::haveParsedReplyHeaders RESPONSE(mark == \"*\" -> EBIT_SET ENTRY_REVALIDATE_ALWAYS), "
            "RESPONSE(mark empty -> makePrivate) and no makePublic/cacheNegatively with an empty mark (C12 F2.revalidate-always then forces revalidation of every hit)")
    star = lambda fn: E.M(lambda t: E.strip(t).get("k") == "bin" and any(
        any(E.m_str("*")(n) for n in E.walk(d)) for nm in E.mentions(t) for d in ck.local_defs(fn).get(nm, [])), "== \"*\"")
    ck.require_response("V4.star-collapses-mark", ak, star(ak), True, lambda ev: ev_call("SBuf::operator=")(ev) and star(ak)({"k": "bin", "l": E.strip(ev["x"])["a"][0]}),
                        "mark = \"*\"", term_kinds=("IfStmt",), why="(Vary: * would produce an ordinary, matchable mark)")
    hp = facts.fn("HttpStateData::haveParsedReplyHeaders")
    ck.require_response("V4.star-revalidates", hp, star(hp), True, ev_ebit_set("ENTRY_REVALIDATE_ALWAYS"), "EBIT_SET(ENTRY_REVALIDATE_ALWAYS)", term_kinds=("IfStmt",),
                        why="(a Vary: * response would be served as a plain hit)")
    empty = E.m_calls("SBuf::isEmpty") & ck.m_closure(hp, "httpMakeVaryMark")
    ck.require_response("V4.unusable-mark-private", hp, empty, True, ev_call("StoreEntry::makePrivate"), "makePrivate()", term_kinds=("IfStmt",))
    varies = E.m_calls("HttpHeader::has") & E.M(lambda t: E.const(E.strip(t)["a"][0]) == hdr["VARY"], "arg0==VARY")
    ck.need(ck.trigger_edges(hp, varies, True), "C13: haveParsedReplyHeaders no longer tests rep->header.has(VARY)")
    fl = ck.flow(hp, assume=[(varies, True), (empty, True)], tracked=mayflags(ck, hp))
    ck.sites(ck.flow(hp), ev_call(PUBLISHERS), "makePublic|cacheNegatively", 2)
    ck.require_unreachable("V4.unusable-mark-private", fl, ev_call(PUBLISHERS), "publish", "a Vary reply with an empty vary mark", why="(a varying response without a usable mark would be cached under the base key)")
    # ------------------------------------------------------------------ V5: where the entry's mark comes from
    ck.rule("V5 WHO-writes(MemObject::vary_headers) = {HttpStateData::haveParsedReplyHeaders, Store::UnpackHitSwapMeta}; in haveParsedReplyHeaders the value stored is a local "
            "every definition of which is httpMakeVaryMark(<this transaction's request>, <its final reply>)")
    ck.who_writes("V5.who-marks-entries", facts, ENTRY_MARK, {"HttpStateData::haveParsedReplyHeaders": "mark of the storing request (checked below)",
                                                               "Store::UnpackHitSwapMeta": "mark restored from the entry's own swap metadata"}, min_writers=2)
    made = ck.m_result_of(hp, "httpMakeVaryMark")
    for s in ck.sites(ck.flow(hp), ev_call("SBuf::operator=", obj=E.m_is_mem(ENTRY_MARK)), "mem_obj->vary_headers =", 1):
        v = E.strip(E.strip(s.ev["x"])["a"][0])
        calls = [E.strip(d) for d in ck.local_defs(hp).get(v.get("d"), [])] if v.get("k") == "ref" else [v]
        calls = [next((c for c in E.calls_in(d) if c.get("f") == "httpMakeVaryMark"), None) for d in calls]
        good = made(v) and calls and all(c is not None and len(c.get("a", [])) == 2 and "Client::request" in E.mentions(c["a"][0])
                                          and "Client::finalReply" in ck.closure_mentions(hp, c["a"][1]) for c in calls)
        if good:
            ck.ok("V5.entry-mark-from-storing-request", s.where(), "entry->mem_obj->vary_headers = httpMakeVaryMark(request, finalReply())")
        else:
            ck.violation("V5.entry-mark-from-storing-request", "V5|haveParsedReplyHeaders|entry-mark-source", s.where(),
                         "haveParsedReplyHeaders stores %s as the entry's vary mark, which is not exactly httpMakeVaryMark(this request, this reply)" % E.key(v))
    ck.assume("the equality semantics of the mark (escaping in rfc1738_escape_part, header folding/case of values, getByName merging) is not decided")
    ck.assume("store back ends are assumed to persist MemObject::vary_headers and the entry flags (STORE_META_VARY_HEADERS / swap meta are C10/C16 territory)")
    ck.assume("Vary:* entries are stored with ENTRY_REVALIDATE_ALWAYS; they are served only after a revalidation (C12), negative hits excepted (negative_ttl is 0 by default)")
