"""C29 Cache-Control directives parse and re-serialise faithfully: table/switch agreement and numeric-directive gates of HttpHdrCc (DESIGN.md 5/C29)."""
from .. import expr as E
from ..flow import ev_call, ev_return, ev_assign, ev_exit, ev_any
from .C21 import require_any

CC = "HttpHdrCc::"
# oracle written from RFC 9111 section 5.2 / RFC 5861 / RFC 8246 and the HttpHdrCc data members: enumerator -> (wire name, kind, member, clear method / setter)
DIRECTIVES = {
    "CC_PUBLIC": ("public", "flag", None, "Public"), "CC_PRIVATE": ("private", "list", "private_", None), "CC_NO_CACHE": ("no-cache", "list", "no_cache", None),
    "CC_NO_STORE": ("no-store", "flag", None, "noStore"), "CC_NO_TRANSFORM": ("no-transform", "flag", None, "noTransform"),
    "CC_MUST_REVALIDATE": ("must-revalidate", "flag", None, "mustRevalidate"), "CC_PROXY_REVALIDATE": ("proxy-revalidate", "flag", None, "proxyRevalidate"),
    "CC_MAX_AGE": ("max-age", "num", "max_age", "clearMaxAge"), "CC_S_MAXAGE": ("s-maxage", "num", "s_maxage", "clearSMaxAge"),
    "CC_MAX_STALE": ("max-stale", "num", "max_stale", "clearMaxStale"), "CC_MIN_FRESH": ("min-fresh", "num", "min_fresh", "clearMinFresh"),
    "CC_ONLY_IF_CACHED": ("only-if-cached", "flag", None, "onlyIfCached"), "CC_STALE_IF_ERROR": ("stale-if-error", "num", "stale_if_error", "clearStaleIfError"),
    "CC_IMMUTABLE": ("immutable", "flag", None, "Immutable"),
}
LOSSY = {"atoi", "atol", "atoll", "atof", "sscanf"}


def switch_of(ck, fn):
    sw = [b for b in fn.blocks.values() if (b.get("term") or {}).get("k") == "SwitchStmt"]
    ck.need(len(sw) == 1, "C29: expected exactly one switch in %s" % fn.name)
    cases = {}
    for s in sw[0]["succ"]:
        tb = fn.blocks.get(s["to"])
        if s.get("lab") == "case" and tb is not None and "case" in tb:
            cases[tb["case"].get("v")] = tb["id"]
    return sw[0], cases


def after_edges(ck, rule, fn, reach, matcher, val, response, name, until, key, why, nonnull=None, tag=None):
    """RESPONSE restricted to the trigger edges inside the blocks `reach` (one switch case); `nonnull`: a local known to be non-null on these edges"""
    edges = [e for e in ck.trigger_edges(fn, matcher, val) if e[0] in reach]
    ck.need(edges, "C29: trigger %s=%s not found under %s" % (matcher.desc, val, key))
    for (bid, lab, to) in edges:
        fl = ck.flow(fn, start=to, markers={"R": response}, tracked=[nonnull] if nonnull else (), init_env={nonnull: "NZ"} if nonnull else None)
        bad = [s for s in fl.sites if ((s.ev.get("e") == "exit" and s.ev.get("kind") in ("ret", "fall")) or until(s.ev)) and not s.passed("R")]
        where = fn.where(fn.blocks[bid]["term"].get("l"))
        if not bad:
            ck.ok(rule, where, "%s: after %s=%s every path passes %s" % (key, matcher.desc, val, name))
        for s in bad[:1]:
            ck.violation(rule, "%s|%s|%s|needs:%s" % (rule.split(".")[0], key, tag or ("after:%s=%s" % (matcher.desc, "T" if val else "F")), name), where,
                         "HttpHdrCc::parse, %s: after %s is %s a path reaches '%s' without %s %s" % (key, matcher.desc, val, s.desc()[:60], name, why), fl.witness(s))


def run(ck):
    facts = ck.facts(["src/HttpHdrCc.cc", "src/HttpHeaderTools.cc"], whole=False)
    en = facts.enum("HttpHdrCcType")
    named = {k: v for k, v in en.items() if k not in ("CC_OTHER", "CC_ENUM_END")}

    # ------------------------------------------------------------------ tables and switches
    ck.rule("N1 ENUMTABLE: every HttpHdrCcType enumerator except the end marker has a row in attrsList at its own index; the known directives carry their RFC names; "
            "every enumerator has a `case` in HttpHdrCc::parse and in HttpHdrCc::packInto; the oracle in this module names exactly the enumerators")
    rows = facts.var("attrsList")["init"]["a"]
    table = {}
    for i, r in enumerate(rows):
        cells = r.get("a", [])
        nm = E.strip(cells[0]).get("v") if E.strip(cells[0]).get("k") == "str" else None
        table[E.const(cells[1])] = (i, nm)
    if set(named) == set(DIRECTIVES):
        ck.ok("N1.table", "src/HttpHdrCc.h:1", "oracle covers the %d named enumerators" % len(named))
    else:
        ck.violation("N1.table", "N1.table|oracle", "src/HttpHdrCc.h:1", "HttpHdrCcType named enumerators %s differ from the module's directive list %s" % (sorted(set(named) - set(DIRECTIVES)), sorted(set(DIRECTIVES) - set(named))))
    for k, v in sorted(en.items(), key=lambda kv: kv[1]):
        if k == "CC_ENUM_END":
            continue
        idx, nm = table.get(v, (None, None))
        want = DIRECTIVES.get(k, (None,))[0]
        if idx == v and nm and (want is None or nm == want):
            ck.ok("N1.table", "src/HttpHdrCc.cc:30", "%s -> row %d %r" % (k, idx, nm))
        else:
            ck.violation("N1.table", "N1.table|%s" % k, "src/HttpHdrCc.cc:30", "%s (=%d) has row %s named %r in attrsList, expected row %d named %r" % (k, v, idx, nm, v, want))
    parse, pack = facts.fn(CC + "parse"), facts.fn(CC + "packInto")
    psw, pcases = switch_of(ck, parse)
    ksw, kcases = switch_of(ck, pack)
    for fn, cases in ((parse, pcases), (pack, kcases)):
        for k, v in en.items():
            if k == "CC_ENUM_END":
                continue
            if v in cases:
                ck.ok("N1.cases", fn.where(fn.blocks[cases[v]]["case"].get("l")), "%s has case %s" % (fn.name, k))
            else:
                ck.violation("N1.cases", "N1.cases|%s|%s" % (fn.name, k), fn.where(), "%s has no case for %s: the directive would be parsed/packed by the default branch" % (fn.name, k))
    under = lambda fn, v: ck.flow(fn, switch_assume=lambda cond, v=v: v)

    # ------------------------------------------------------------------ numeric directives
    ck.rule("N2 HttpHdrCc::parse, each numeric directive K (max-age, s-maxage, max-stale, min-fresh, stale-if-error): setMask(type, true) only with the '=' parameter present, "
            "httpHeaderParseInt(p, &<K's member>) true and <member> < 0 false; after a failed conversion or a negative value every path calls K's clear*() before the next "
            "item (the directive is absent); a missing parameter also clears, except for max-stale where it means MAX_STALE_ANY")
    nxt = ev_call("strListGetItem")
    eq = [n for n, ds in ck.local_defs(parse).items() if any(E.m_calls("memchr")(d) and E.const(E.strip(d)["a"][1]) == 61 for d in ds)]
    ck.need(len(eq) == 1, "C29: the '=' parameter pointer of HttpHdrCc::parse was not identified (%s)" % eq)
    param = E.m_is_ref(eq[0])
    for k, (wire, kind, member, clear) in sorted(DIRECTIVES.items()):
        if kind != "num":
            continue
        mem = CC + member
        fl = under(parse, en[k])
        reach = fl.reachable_blocks() - (under(parse, en["CC_PUBLIC"]).reachable_blocks())
        conv = E.m_calls("httpHeaderParseInt") & E.M(lambda t, mem=mem: mem in E.mentions(E.strip(t)["a"][1]), "(p, &%s)" % member)
        neg = E.m_cmp("<", E.m_is_mem(mem), E.m_const(0))
        set_k = ev_call(CC + "setMask", arg={1: E.m_const(1)})
        for m, v in ((param, True), (conv, True), (neg, False)):
            ck.require_fact("N2.set-needs-valid-value", fl, set_k, m, v, "setMask(%s, true)" % k, why="(%s would be set from a missing, unparsable or negative value)" % wire)
        cleared = ev_call(CC + clear)
        for m, v, what in ((conv, False, "unparsable-value"), (neg, True, "negative-value")):
            after_edges(ck, "N2.invalid-is-absent", parse, reach, m, v, cleared, clear + "()", ev_any(nxt, set_k), k, "(%s=<%s> would not be treated as absent)" % (wire, what),
                        nonnull=eq[0], tag=what)       # the conversion is only evaluated with a parameter
        if k == "CC_MAX_STALE":
            any_stale = ev_call(CC + "maxStale", arg={0: E.M(lambda t: "MAX_STALE_ANY" in "".join(E.mentions(t)), "MAX_STALE_ANY")})
            after_edges(ck, "N2.valueless", parse, reach, param, False, ev_any(any_stale, cleared), "maxStale(MAX_STALE_ANY)", ev_any(nxt, set_k), k, "", tag="no-value")
        else:
            after_edges(ck, "N2.valueless", parse, reach, param, False, cleared, clear + "()", ev_any(nxt, set_k), k, "(a %s without value would be kept)" % wire, tag="no-value")

    ck.rule("N3 HttpHdrCc::parse, flags and lists: under `case K` of a flag directive exactly K's setter is called with true; private/no-cache append the parameter only when "
            "httpHeaderParseQuotedString() succeeded, no-cache is set only without parameter or with a valid one; unknown directives are appended to `other` verbatim; "
            "a directive already set (other than CC_OTHER) is skipped; setValue() stores a value and sets the bit only if the value is not negative")
    setters = {CC + d[3]: k for k, d in DIRECTIVES.items() if d[1] == "flag"}
    for k, (wire, kind, member, setter) in sorted(DIRECTIVES.items()):
        fl = under(parse, en[k])
        if kind == "flag":
            calls = [s for s in fl.find(lambda ev: ev.get("e") == "call" and E.strip(ev["x"]).get("f") in setters or ev_call(CC + "setMask")(ev))]
            good = calls and all(E.strip(s.ev["x"]).get("f") == CC + setter and E.const(E.strip(s.ev["x"])["a"][0]) == 1 for s in calls)
            if good:
                ck.ok("N3.flag-setter", calls[0].where(), "case %s calls %s(true)" % (k, setter))
            else:
                ck.violation("N3.flag-setter", "N3.flag-setter|%s" % k, parse.where(), "case %s (%s) calls %s, expected only %s(true)" % (k, wire, [s.desc()[:40] for s in calls], setter))
        elif kind == "list":
            quoted = E.m_calls("httpHeaderParseQuotedString")
            ck.require_fact("N3.list-value", fl, ev_call("String::append", obj=E.m_is_mem(CC + member)), quoted, True, "%s.append()" % member, why="(a malformed field-name list would be stored)")
            others = [s for s in fl.find(ev_call("String::append")) if not E.m_is_mem(CC + member)(E.strip(s.ev["x"]).get("o")) and E.strip(E.strip(s.ev["x"]).get("o")).get("k") == "mem"]
            if others:
                ck.violation("N3.list-value", "N3.list-value|%s|wrong-member" % k, others[0].where(), "case %s appends to %s" % (k, others[0].desc()[:60]))
            if k == "CC_NO_CACHE":
                require_any(ck, "N3.list-value", parse, ev_call(CC + "setMask"), [(param, False), (quoted, True)], "setMask(CC_NO_CACHE)", switch_assume=lambda cond, v=en[k]: v,
                            why="(no-cache with a malformed field list would be set as unqualified no-cache)")
    fl = under(parse, en["CC_OTHER"])
    for s in ck.sites(fl, ev_call("String::append", obj=E.m_is_mem(CC + "other"), nargs=2), "other.append(item, ilen)", 1):
        a = E.strip(s.ev["x"])["a"]
        first = E.strip(ck.sites(ck.flow(parse), nxt, "strListGetItem()", 1)[0].ev["x"])["a"]
        if [E.key(x) for x in a] == [E.key(E.strip(first[2]).get("e")), E.key(E.strip(first[3]).get("e"))]:
            ck.ok("N3.other-verbatim", s.where(), "other.append(%s)" % ", ".join(E.key(x) for x in a))
        else:
            ck.violation("N3.other-verbatim", "N3.other-verbatim|args", s.where(), "unknown directives are stored as (%s), not the whole item" % ", ".join(E.key(x) for x in a))
    changes = lambda ev: ev.get("e") == "call" and (E.strip(ev["x"]).get("f") in setters or E.strip(ev["x"]).get("f") in (CC + "setMask", "String::append", "httpHeaderParseInt"))
    ck.need(ck.trigger_edges(parse, E.m_calls(CC + "isSet"), True), "C29: duplicate-directive test vanished")
    ck.require_response("N3.duplicates-skipped", parse, E.m_cmp("==", E.m_any(), E.m_const(en["CC_OTHER"])), False, nxt, "next item", until=changes,
                        why="(a repeated directive would overwrite the first one)")
    sv = facts.fn(CC + "setValue")
    pv = [p["d"] for p in sv.params]
    require_any(ck, "N3.setValue", sv, ev_any(ev_assign(pv[0], None, ops=None), ev_call(CC + "setMask")), [(E.m_is_ref(pv[3]), False), (E.m_cmp("<", E.m_is_ref(pv[1]), E.m_const(0)), False)],
                "value = / setMask()", min_sites=2, why="(a negative value would be stored with its bit set)")

    # ------------------------------------------------------------------ packing
    ck.rule("N4 HttpHdrCc::packInto: the name comes from ccNameByType(flag) only for set, non-OTHER flags; under `case K` a numeric directive prints \"=%d\" with K's own member "
            "(max-stale only when != MAX_STALE_ANY), a list directive prints its own member only when non-empty, a flag prints nothing")
    fl = ck.flow(pack)
    name_print = ev_call("Packable::appendf", arg={1: E.m_mentions("ccNameByType")})
    ck.require_fact("N4.name", fl, name_print, E.m_calls(CC + "isSet"), True, "appendf(name)", why="(an unset directive would be emitted)")
    ck.require_fact("N4.name", fl, name_print, E.m_cmp("==", E.m_any(), E.m_const(en["CC_OTHER"])), False, "appendf(name)")
    for k, (wire, kind, member, _) in sorted(DIRECTIVES.items()):
        fk = under(pack, en[k])
        prints = [s for s in fk.find(ev_call("Packable::appendf")) if not name_print(s.ev) and s.bid not in under(pack, en["CC_ENUM_END"]).reachable_blocks()]
        shown = [(E.strip(E.strip(s.ev["x"])["a"][0]).get("v"), sorted(m for m in E.mentions({"k": "x", "ch": E.strip(s.ev["x"])["a"][1:]}) if m.startswith(CC) and "::" not in m[len(CC):])) for s in prints]
        at = pack.where(pack.blocks[kcases[en[k]]]["case"].get("l")) if en[k] in kcases else pack.where()
        if kind == "flag":
            good = not prints
        elif kind == "num":
            good = shown == [("=%d", [CC + member])]
        else:
            good = len(shown) == 1 and shown[0][0].startswith("=\"") and shown[0][1] == [CC + member] and all(s.has(E.m_calls("String::size") & E.m_mentions(CC + member), True) for s in prints)
        if k == "CC_MAX_STALE":
            good = good and all(s.has(E.m_cmp("==", E.m_is_mem(CC + member), E.m_mentions(CC + "MAX_STALE_ANY")), False) for s in prints)
        if good:
            ck.ok("N4.value", at, "case %s prints %s" % (k, shown or "no value"))
        else:
            ck.violation("N4.value", "N4.value|%s" % k, at, "packInto case %s (%s) prints %s; expected %s" % (
                k, wire, shown, {"flag": "nothing", "num": "\"=%%d\" with %s" % member, "list": "=\"...\" with %s when non-empty" % member}[kind]))

    # ------------------------------------------------------------------ lossy conversion
    ck.rule("N5 LOSSY: the integer stored by the numeric directives' converter httpHeaderParseInt() must not come from atoi()/atol()/sscanf(), which cannot report trailing "
            "garbage or values that do not fit")
    hpi = facts.fn("httpHeaderParseInt")
    out = hpi.params[1]["d"]
    for s in ck.sites(ck.flow(hpi), lambda ev: ev.get("e") == "asg" and E.root_decl(ev.get("lhs")) == ("ref", out), "*value =", 1):
        bad = sorted({c.get("f") for c in E.calls_in(s.ev.get("rhs") or {})} & LOSSY)
        if bad:
            ck.violation("N5.lossy-number", "N5|httpHeaderParseInt|%s" % bad[0], s.where(),
                         "httpHeaderParseInt() takes the value from %s(): \"max-age=10x\" yields 10 and \"max-age=4294967297\" wraps, so an invalid numeric directive is not treated as absent" % bad[0])
        else:
            ck.ok("N5.lossy-number", s.where(), "value defined by %s" % E.key(s.ev.get("rhs"))[:60])
    ck.assume("value round-trip equality is not decided; the inline setters/clear*() of HttpHdrCc.h (no CFG facts for this header) are taken to set/clear exactly their own bit; "
              "LookupTable::lookup (case-insensitive name match) and httpHeaderParseQuotedString are not analysed")
