"""C16 Disk cache crash consistency: publish-after-write, slot-header-before-write and validate-on-load gates (DESIGN.md 5/C16)."""
from .. import expr as E
from ..flow import ev_call, ev_return, ev_assign, ev_any, ev_throw, ev_exit
from . import C57

SD = "Rock::SwapDir::"
IO = "Rock::IoState::"
MAP = "Ipc::StoreMap::"
START = "Ipc::StoreMapAnchor::start"
NEXT = "Ipc::StoreMapSlice::next"
HDR = "Rock::DbCellHeader::"


def atomic_store(member):
    """local helper: `x.member = v` / `x.member.store(v)` on a std::atomic member (the front end sees an operator= call)"""
    def p(ev):
        if ev.get("e") != "call":
            return False
        x = E.strip(ev.get("x"))
        if not isinstance(x, dict) or x.get("f", "").split("::")[-1] not in ("operator=", "store", "exchange"):
            return False
        o = E.strip(x.get("o") or {})
        return isinstance(o, dict) and o.get("k") == "mem" and o.get("m") == member
    return p


def m_enum(name):
    """local helper: the expression is the enumerator `name` (typedef'd unnamed enums cannot be looked up by enum name)"""
    def p(t):
        t = E.strip(t)
        return isinstance(t, dict) and t.get("k") == "ref" and t.get("dk") == "enum" and t.get("d") == name
    return E.M(p, name)


def run(ck):
    facts = ck.facts(["src/fs/rock/RockSwapDir.cc", "src/fs/rock/RockIoState.cc", "src/store/SwapMetaIn.cc", "src/store_swapout.cc",
                      "src/store_rebuild.cc", "src/fs/ufs/RebuildState.cc"], whole=True)

    # ------------------------------------------------------------------ rock: the index is linked only after the disk write completed
    ck.rule("W1 WHO: Rock::SwapDir::handleWriteCompletionSuccess is called only by writeCompleted; inside Rock:: the anchor start / slice next links are "
            "written and entries are switched to reading/closed only there (and in the C57 rebuild functions)")
    succ = SD + "handleWriteCompletionSuccess"
    ck.who_calls("W1.who-publishes", facts, succ, {SD + "writeCompleted": "disk write completion"}, min_callers=1,
                 why="(map links would be made without a completed disk write)")
    linkers = {succ: "after the write of that slot completed", "Rock::Rebuild::primeNewEntry": "rebuild (C57)", "Rock::Rebuild::mapSlot": "rebuild (C57)",
               "Rock::Rebuild::finalizeOrThrow": "rebuild (C57)"}
    for field in (START, NEXT):
        ws = [w for w in facts.writers(field) if w[0].startswith("Rock::") and "/tests/" not in w[1]]
        ck.need(len(ws) >= 2, "C16: writers of %s inside Rock:: not found" % field)
        for (n, f, l, op, cv) in ws:
            where = "%s:%d" % (f.split("/src/", 1)[-1] if "/src/" in f else f, l)
            if n in linkers:
                ck.ok("W1.who-links", "src/" + where, "%s writes %s (%s)" % (n, field, linkers[n]))
            else:
                ck.violation("W1.who-links", "W1|who-writes|%s|%s" % (field, n), "src/" + where, "%s links the shared rock index (%s) outside the write-completion handler" % (n, field))
    for callee in ("switchWritingToReading", "closeForWriting", "writeableSlice"):
        cs = [c for c in facts.callers(MAP + callee) if c[0].startswith("Rock::") and "/tests/" not in c[1]]
        ck.need(len(cs) >= 1, "C16: no Rock:: caller of %s" % callee)
        for (n, f, l, k, u) in cs:
            where = "src/" + f.split("/src/", 1)[-1] + ":%d" % l
            if n in linkers:
                ck.ok("W1.who-links", where, "%s calls %s (%s)" % (n, callee, linkers[n]))
            else:
                ck.violation("W1.who-links", "W1|who-calls|%s|%s" % (callee, n), where, "%s uses StoreMap::%s outside the write-completion handler" % (n, callee))

    ck.rule("W2 writeCompleted: handleWriteCompletionSuccess() only with stillWaiting() T, errflag == DISK_OK and expectedReply() T; "
            "RESPONSE(errflag != DISK_OK -> handleWriteCompletionProblem), RESPONSE(expectedReply() F -> handleWriteCompletionProblem); "
            "handleWriteCompletionProblem passes writeError(); writeError passes map->freeEntry()")
    wc = facts.fn(SD + "writeCompleted")
    fl = ck.flow(wc)
    ok_call = ev_call(succ)
    errflag_bad = E.m_is_ref("errflag")      # `errflag != DISK_OK` normalises to the truthiness atom `errflag` (DISK_OK is the macro 0)
    expected = ck.m_result_of(wc, IO + "expectedReply")
    ck.need(ck.trigger_edges(wc, errflag_bad, True), "C16: writeCompleted no longer tests errflag directly (re-confirm the W2 instance)")
    ck.require_fact("W2.success-gates", fl, ok_call, ck.m_result_of(wc, IO + "stillWaiting"), True, "handleWriteCompletionSuccess()", why="(a closed entry would be linked)", history=True)
    ck.require_fact("W2.success-gates", fl, ok_call, errflag_bad, False, "handleWriteCompletionSuccess()", why="(a failed disk write would be linked into the index)")
    ck.require_fact("W2.success-gates", fl, ok_call, expected, True, "handleWriteCompletionSuccess()", why="(an out-of-order write reply would be linked)")
    problem = ev_call(SD + "handleWriteCompletionProblem")
    ck.require_response("W2.failure-handled", wc, errflag_bad, True, problem, "handleWriteCompletionProblem()", term_kinds=("IfStmt",))
    ck.require_response("W2.failure-handled", wc, expected, False, problem, "handleWriteCompletionProblem()", term_kinds=("IfStmt",))
    hp = facts.fn(SD + "handleWriteCompletionProblem")
    ck.require_passed("W2.failure-frees-entry", ck.flow(hp, markers={"err": ev_call(SD + "writeError")}), ev_call(IO + "finishedWriting"), "err", "finishedWriting()")
    we = facts.fn(SD + "writeError")
    ck.require_passed("W2.failure-frees-entry", ck.flow(we, markers={"freed": ev_call(MAP + "freeEntry")}), ev_exit(), "freed", "return",
                      why="(a partially written entry would stay usable)")

    ck.rule("W3 handleWriteCompletionSuccess: anchor.start / previous slice.next are set to request.sidCurrent (the slot just written), start only with start < 0, "
            "next only with sidPrevious >= 0; switchWritingToReading() only with request.eof T and after the slice size was recorded")
    hs = facts.fn(succ)
    cur = E.m_mentions("Rock::WriteRequest::sidCurrent")
    set_start, set_next, set_size = atomic_store(START), atomic_store(NEXT), atomic_store("Ipc::StoreMapSlice::size")
    fl = ck.flow(hs, markers={"sized": set_size})
    for s in ck.sites(fl, ev_any(set_start, set_next), "start=|next=", 2):
        arg = E.strip(s.ev["x"])["a"][0]
        if cur(arg) and len(E.mentions(arg) - {"request"}) == 1:
            ck.ok("W3.links-written-slot", s.where(), "link target is request.sidCurrent")
        else:
            ck.violation("W3.links-written-slot", "W3|link-target", s.where(), "handleWriteCompletionSuccess links %s instead of the slot whose write completed" % E.key(arg))
    ck.require_fact("W3.link-gates", fl, set_start, E.m_cmp("<", E.m_mentions(START), E.m_const(0)), True, "anchor.start =", why="(the chain head would be overwritten)")
    ck.require_fact("W3.link-gates", fl, set_next, E.m_cmp("<", E.m_is_mem("Rock::WriteRequest::sidPrevious"), E.m_const(0)), False, "slice.next =")
    sw = ev_call(MAP + "switchWritingToReading")
    ck.require_fact("W3.publish-at-eof", fl, sw, E.m_is_mem("Rock::WriteRequest::eof"), True, "switchWritingToReading()",
                    why="(an entry whose last slot is not yet on disk would become readable)")
    ck.require_passed("W3.publish-at-eof", fl, sw, "sized", "switchWritingToReading()")

    # ------------------------------------------------------------------ rock: what reaches the disk
    ck.rule("W4 Rock::IoState::writeToDisk ORDER: key, firstSlot, nextSlot, payloadSize, entrySize, version are set before the header memcpy into theBuf, which precedes "
            "the copy to the write buffer and theFile->write(); entrySize is non-zero only under eof (derived from sidNext < 0); request eof flag derives from sidNext < 0")
    wd = facts.fn(IO + "writeToDisk")
    is_hdr = lambda t: E.m_is_ref("header")(E.strip(t).get("e")) if isinstance(E.strip(t), dict) and E.strip(t).get("k") == "un" else False
    hdr_copy = ev_call("memcpy", arg={0: E.m_mentions("Rock::IoState::theBuf"), 1: E.M(is_hdr, "&header")})
    fields = ["firstSlot", "nextSlot", "payloadSize", "entrySize", "version"]
    markers = {f: ev_assign(HDR + f) for f in fields}
    markers["key"] = ev_call("memcpy", arg={0: E.m_mentions(HDR + "key")})
    markers["hdr"] = hdr_copy
    markers["buffered"] = ev_call("memcpy", arg={1: E.m_mentions("Rock::IoState::theBuf")})
    fl = ck.flow(wd, markers=markers)
    for f in fields + ["key"]:
        ck.require_passed("W4.header-complete", fl, hdr_copy, f, "memcpy(theBuf.mem, &header)", why="(slot header field %s would reach the disk unset)" % f)
    dwrite = ev_call("DiskFile::write")
    ck.require_passed("W4.header-before-write", fl, markers["buffered"], "hdr", "memcpy(wBuf, theBuf.mem)", why="(the slot would be written with a stale header)")
    ck.require_passed("W4.header-before-write", fl, dwrite, "buffered", "theFile->write()")
    for s in ck.sites(fl, ev_assign(HDR + "entrySize"), "header.entrySize =", 1):
        rhs = E.strip(s.ev.get("rhs"))
        good = E.const(rhs) == 0 or (rhs.get("k") == "cond" and E.const(rhs.get("f")) == 0 and "Rock::IoState::sidNext" in ck.closure_mentions(wd, rhs["c"]))
        if good:
            ck.ok("W4.size-only-at-eof", s.where(), "entrySize is 0 unless the (sidNext < 0)-derived eof flag holds")
        else:
            ck.violation("W4.size-only-at-eof", "W4|entrySize", s.where(), "writeToDisk records a total entry size in a non-final slot: %s" % E.key(rhs))
    for s in ck.sites(fl, ev_assign("Rock::WriteRequest::eof"), "r->eof =", 1):
        if "Rock::IoState::sidNext" in ck.closure_mentions(wd, s.ev.get("rhs")):
            ck.ok("W4.eof-flag", s.where(), "request eof derives from sidNext < 0")
        else:
            ck.violation("W4.eof-flag", "W4|eof-flag", s.where(), "request eof flag no longer derives from sidNext: %s" % E.key(s.ev.get("rhs")))

    # ------------------------------------------------------------------ rock rebuild validation = the C57 gates
    ck.rule("W5 the Rock::Rebuild validation gates of C57 (a crashed store leaves incomplete chains that only those gates reject):")
    C57.run(ck)

    # ------------------------------------------------------------------ swap-in validation
    ck.rule("V1 Store::UnpackHitSwapMeta: every STORE_META_URL field passes CheckSwapMetaUrl(), every STORE_META_KEY_MD5 field passes CheckSwapMetaKey(); "
            "RESPONSE(key memcmp != 0 -> throw), RESPONSE(strcasecmp(url) != 0 -> throw), RESPONSE(unterminated URL -> throw); "
            "SwapMetaUnpacker: RESPONSE(Less(size, headerSize) -> throw)")
    uh = facts.fn("Store::UnpackHitSwapMeta")
    mt = facts.enum("Store::SwapMetaType")
    on_type = lambda K: (lambda cond: K if "Store::SwapMetaView::type" in E.mentions(cond) else None)
    step = ev_call("Store::SwapMetaIterator::operator++")
    for en, chk in (("STORE_META_URL", "Store::CheckSwapMetaUrl"), ("STORE_META_KEY_MD5", "Store::CheckSwapMetaKey")):
        fl = ck.flow(uh, switch_assume=on_type(mt[en]), markers={"checked": ev_call(chk)})
        ck.require_passed("V1.field-validated", fl, step, "checked", "next field", why="(a swapped-in file of another object would be served: %s unchecked)" % en)
    key = facts.fn("Store::CheckSwapMetaKey")
    ck.require_response("V1.mismatch-throws", key, E.m_calls("memcmp"), True, ev_throw(), "throw", term_kinds=("IfStmt",))
    url = facts.fn("Store::CheckSwapMetaUrl")
    ck.require_response("V1.mismatch-throws", url, E.m_calls("strcasecmp"), True, ev_throw(), "throw", term_kinds=("IfStmt",))
    ck.require_response("V1.mismatch-throws", url, E.m_calls("memrchr"), False, ev_throw(), "throw", term_kinds=("IfStmt",))
    un = facts.fn("Store::SwapMetaUnpacker::SwapMetaUnpacker")
    ck.require_fact("V1.header-within-buffer", ck.flow(un), ev_assign("swap_hdr_sz"), E.m_calls("Less"), False, "swap_hdr_sz =",
                    why="(a metadata size beyond the bytes read would be accepted)")
    ck.require_response("V1.mismatch-throws", un, E.m_calls("Less"), True, ev_throw(), "throw", term_kinds=("IfStmt",))

    # ------------------------------------------------------------------ ufs: log after completion, validate on rebuild
    ck.rule("U1 storeSwapOutFileClosed: swap_status = SWAPOUT_DONE and storeDirSwapLog(SWAP_LOG_ADD) only with errflag F and objectLen() < 0 F "
            "(the swap.state ADD record is written only after the whole file was written)")
    sc = facts.fn("storeSwapOutFileClosed")
    fl = ck.flow(sc)
    done = ev_any(ev_assign("StoreEntry::swap_status", m_enum("SWAPOUT_DONE")),
                  ev_call("storeDirSwapLog", arg={1: m_enum("SWAP_LOG_ADD")}))
    ck.need(ck.trigger_edges(sc, E.m_is_ref("errflag"), True), "C16: storeSwapOutFileClosed no longer tests errflag directly (re-confirm the U1 instance)")
    ck.require_fact("U1.log-after-complete", fl, done, E.m_is_ref("errflag"), False, "SWAPOUT_DONE|SWAP_LOG_ADD", min_sites=2, why="(a failed swap-out would be logged as a stored entry)")
    ck.require_fact("U1.log-after-complete", fl, done, E.m_cmp("<", E.m_calls("StoreEntry::objectLen"), E.m_const(0)), False, "SWAPOUT_DONE|SWAP_LOG_ADD", min_sites=2)

    ck.rule("U2 storeRebuildParseEntry: `return true` only with tmpe.key set and KEY_PRIVATE clear; RESPONSE(swap_file_sz != expectedSize -> return false); "
            "Fs::Ufs rebuildFromDirectory: addIfFresh() only with `accepted` (derived from storeRebuildParseEntry() and swap_file_sz > 0) and the file size passed as expectedSize; "
            "rebuildFromSwapLog: addIfFresh() only with sane() T, op == SWAP_LOG_ADD, validFileno() T, KEY_PRIVATE F, mapBitTest() F")
    pe = facts.fn("storeRebuildParseEntry")
    fl = ck.flow(pe)
    ret_true = ev_return(E.m_const(1))
    private = E.M(lambda t: "StoreEntry::flags" in E.mentions(t) and "KEY_PRIVATE" in E.mentions(t), "flags&KEY_PRIVATE")
    ck.require_fact("U2.parse-gates", fl, ret_true, E.m_is_mem("key") & E.m_mentions("tmpe"), True, "return true")
    ck.require_fact("U2.parse-gates", fl, ret_true, private, False, "return true")
    ck.require_response("U2.size-mismatch-rejected", pe, (E.m_cmp("==", E.m_is_mem("StoreEntry::swap_file_sz"), E.m_is_ref("expectedSize")) | E.m_cmp("==", E.m_is_ref("expectedSize"), E.m_is_mem("StoreEntry::swap_file_sz"))), False,
                        ev_return(E.m_const(0)), "return false", term_kinds=("IfStmt",), why="(a partially written cache file would be indexed)")
    rd = facts.fn("Fs::Ufs::RebuildState::rebuildFromDirectory")
    add = ev_call("Fs::Ufs::RebuildState::addIfFresh")
    fl = ck.flow(rd)
    acc = E.m_is_ref("accepted") & ck.m_closure(rd, "storeRebuildParseEntry", "StoreEntry::swap_file_sz")
    ck.require_fact("U2.dir-gates", fl, add, acc, True, "addIfFresh()", why="(an unparsable or size-less cache file would be indexed)")
    for s in ck.sites(fl, ev_call("storeRebuildParseEntry"), "storeRebuildParseEntry()", 1):
        a = E.strip(s.ev["x"])["a"]
        if len(a) == 5 and "stat::st_size" in ck.closure_mentions(rd, a[4]):
            ck.ok("U2.dir-gates", s.where(), "expectedSize derives from fstat st_size")
        else:
            ck.violation("U2.dir-gates", "U2|expected-size", s.where(), "rebuildFromDirectory no longer passes the on-disk file size to storeRebuildParseEntry")
    rl = facts.fn("Fs::Ufs::RebuildState::rebuildFromSwapLog")
    fl = ck.flow(rl)
    op_add = E.m_cmp("==", E.m_is_mem("StoreSwapLogData::op"), m_enum("SWAP_LOG_ADD")) | E.m_cmp("==", m_enum("SWAP_LOG_ADD"), E.m_is_mem("StoreSwapLogData::op"))
    private = E.M(lambda t: "StoreSwapLogData::flags" in E.mentions(t) and "KEY_PRIVATE" in E.mentions(t), "flags&KEY_PRIVATE")
    for m, v in [(ck.m_result_of(rl, "StoreSwapLogData::sane"), True), (op_add, True), (ck.m_result_of(rl, "Fs::Ufs::UFSSwapDir::validFileno"), True),
                 (private, False), (ck.m_result_of(rl, "Fs::Ufs::UFSSwapDir::mapBitTest"), False)]:
        ck.require_fact("U2.log-gates", fl, add, m, v, "addIfFresh()", why="(a corrupt swap.state record would be indexed)")
    ck.assume("crash points and partial writes are not enumerated; DiskFile implementations, the ufs swap.state writer/parser (UFSSwapLogParser) and "
              "addIfFresh() freshness rules are not analysed; WHO sets are restricted to callers/writers inside namespace Rock")
