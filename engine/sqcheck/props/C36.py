"""C36 Base64 decoding writes within the promised output size; Basic credentials are split at the first colon (DESIGN.md 5/C36)."""
from .. import expr as E
from ..flow import ev_call, ev_return, ev_exit


def decode_len_of(t, lenkey):
    """does tree t contain BASE64_DECODE_LENGTH(L) = (((L) + 1) * 6) / 8 over the variable with key `lenkey`? returns extra constant added on top (or None)"""
    t = E.strip(t)

    def is_dl(n):
        n = E.strip(n)
        if not (isinstance(n, dict) and n.get("k") == "bin" and n.get("op") == "/" and E.const(n.get("r")) == 8):
            return False
        m = E.strip(n.get("l"))
        if not (isinstance(m, dict) and m.get("k") == "bin" and m.get("op") == "*" and E.const(m.get("r")) == 6):
            return False
        p = E.strip(m.get("l"))
        return isinstance(p, dict) and p.get("k") == "bin" and p.get("op") == "+" and E.key(p.get("l")) == lenkey and E.const(p.get("r")) == 1
    if is_dl(t):
        return 0
    if isinstance(t, dict) and t.get("k") == "bin" and t.get("op") == "+" and is_dl(t.get("l")) and E.const(t.get("r")) is not None:
        return E.const(t.get("r"))
    return None


def run(ck):
    facts = ck.facts(["src/auth/basic/Config.cc", "src/HttpHeader.cc"])

    ck.rule("B1 ARGS: at every base64_decode_update(ctx, &n, dst, len, src) in the HTTP core, dst was obtained with a capacity expression BASE64_DECODE_LENGTH(len) "
            "(+1 where dst[n] is written afterwards) over the same `len` variable that is passed as the input length")
    nsites = 0
    for fname in ("Auth::Basic::Config::decodeCleartext", "HttpHeader::getAuthToken"):
        fn = facts.fn(fname)
        fl = ck.flow(fn)
        for s in ck.sites(fl, ev_call({"base64_decode_update", "nettle_base64_decode_update"}), "base64_decode_update()", 1):
            nsites += 1
            a = E.strip(s.ev["x"])["a"]
            dst = E.root_decl(E.strip(a[2]))[1] if E.root_decl(E.strip(a[2]))[1] else None
            dsts = [n.get("d") for n in E.walk(a[2]) if n.get("k") == "ref" and n.get("dk") == "local"]
            dst = dsts[0] if dsts else None
            lenkey = E.key(a[3])
            defs = ck.local_defs(fn).get(dst, [])
            caps = []
            for d in defs:
                for c in E.calls_in(d):
                    if c.get("f") in ("xmalloc", "xcalloc", "SBuf::rawAppendStart", "SBuf::rawSpace", "malloc") and c.get("a"):
                        caps.append(decode_len_of(c["a"][-1] if c["f"] != "xcalloc" else c["a"][0], lenkey))
            writes_term = any(ev.get("e") == "asg" and E.strip(ev.get("lhs")).get("k") == "idx" and E.m_is_ref(dst)(E.strip(ev["lhs"])["b"]) for b in fn.blocks.values() for ev in b["ev"])
            need = 1 if writes_term else 0
            if caps and all(c is not None and c >= need for c in caps):
                ck.ok("B1.decode-capacity", s.where(), "%s: %s has capacity BASE64_DECODE_LENGTH(%s)%s" % (fname, dst, lenkey, "+%d" % caps[0] if caps[0] else ""))
            else:
                ck.violation("B1.decode-capacity", "B1|%s|capacity" % fname, s.where(),
                             "%s: the decode destination %s is not sized BASE64_DECODE_LENGTH(%s)%s (definitions: %s)" % (fname, dst, lenkey, "+1" if need else "", [E.key(d)[:80] for d in defs]))
    ck.need(nsites >= 2, "C36: base64_decode_update call sites not found")

    ck.rule("B2 Auth::Basic::Config::decodeCleartext: the terminator is written and the text is kept only if base64_decode_update() and base64_decode_final() both succeeded; "
            "RESPONSE(CR or LF in the decoded text -> the buffer is freed and null is returned); HttpHeader::getAuthToken finishes the append only after both succeeded")
    dc = facts.fn("Auth::Basic::Config::decodeCleartext")
    fl = ck.flow(dc)
    term = lambda ev: ev.get("e") == "asg" and E.strip(ev.get("lhs")).get("k") == "idx" and E.m_is_ref("cleartext")(E.strip(ev["lhs"])["b"]) and E.const(ev.get("rhs")) == 0
    for m in ((E.m_calls("base64_decode_update") | E.m_calls("nettle_base64_decode_update")), (E.m_calls("base64_decode_final") | E.m_calls("nettle_base64_decode_final"))):
        ck.require_fact("B2.decode-ok", fl, term, m, True, "cleartext[dstLen] = 0", history=True, why="(undecodable input would be used as credentials)")
    crlf = E.M(lambda t: "strcspn" in E.mentions(t) and any(E.strip(n).get("v") in ("\r\n", "\n\r") for n in E.walk(t) if n.get("k") == "str"), "strcspn(cleartext, CRLF) != strlen(cleartext)")
    edges = ck.trigger_edges(dc, crlf, False)     # `strcspn(..) != strlen(..)` is normalised to ==, value False on the rejecting edge
    ck.need(len(edges) >= 1, "C36: the CR/LF rejection vanished from decodeCleartext")
    freed = lambda ev: (ev.get("e") == "asg" and E.m_is_ref("cleartext")(ev.get("lhs")) and E.const(ev.get("rhs")) == 0) or ev_call("xfree")(ev) or ev_call("free")(ev)
    for (bid, lab, to) in edges:
        sub = ck.flow(dc, start=to, markers={"R": freed})
        for s in sub.sites:
            if s.ev.get("e") == "exit" and s.ev.get("kind") in ("ret", "fall"):
                # safe_free(x) is `while (x) { free(x); x = nullptr; }`: either the body ran or x was already null
                if s.passed("R") or s.has(E.m_is_ref("cleartext"), False):
                    ck.ok("B2.crlf-rejected", s.where(), "after a CR/LF hit the decoded text is released/null before returning")
                else:
                    ck.violation("B2.crlf-rejected", "B2|decodeCleartext|crlf-accepted", s.where(), "credentials containing CR or LF can be returned to the caller", sub.witness(s))
    ga = facts.fn("HttpHeader::getAuthToken")
    fl = ck.flow(ga)
    for m in ((E.m_calls("base64_decode_update") | E.m_calls("nettle_base64_decode_update")), (E.m_calls("base64_decode_final") | E.m_calls("nettle_base64_decode_final"))):
        ck.require_fact("B2.decode-ok", fl, ev_call("SBuf::rawAppendFinish"), m, True, "rawAppendFinish()", history=True)

    ck.rule("B3 Auth::Basic::Config::decode: the user name ends at the FIRST colon (separator = strchr(cleartext, ':')), the password is the text after it")
    de = facts.fn("Auth::Basic::Config::decode")
    seps = ck.local_defs(de).get("separator", [])
    if seps and all(E.strip(t).get("f") == "strchr" and E.m_is_ref("cleartext")(E.strip(t)["a"][0]) and E.const(E.strip(t)["a"][1]) == 58 for t in seps):
        ck.ok("B3.first-colon", de.where(), "separator = strchr(cleartext, ':')")
    else:
        ck.violation("B3.first-colon", "B3|decode|separator", de.where(), "the credential separator is no longer the first ':' of the decoded text: %s" % [E.key(t) for t in seps])
    pw = [ev for b in de.blocks.values() for ev in b["ev"] if ev.get("e") == "asg" and E.m_is_mem("passwd")(ev.get("lhs")) and ev.get("rhs") is not None and "xstrdup" in E.mentions(ev["rhs"])]
    if pw and all(E.key(E.strip(ev["rhs"])["a"][0]) == "(separator + 1)" for ev in pw):
        ck.ok("B3.first-colon", de.where(pw[0]["l"]), "passwd = xstrdup(separator + 1)")
    else:
        ck.violation("B3.first-colon", "B3|decode|password", de.where(), "the password is no longer the text after the separator")
    ck.assume("round-trip of the codec itself (lib/base64.c, a nettle-derived implementation) and helper programs' decode sites are not decided")
