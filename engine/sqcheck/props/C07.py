"""C07 Non-idempotent requests are not resent after reaching the origin (DESIGN.md 5/C07)."""
from .. import expr as E
from ..flow import ev_call, ev_return, ev_assign, ev_any

UNSAFE = ["METHOD_POST", "METHOD_OTHER", "METHOD_CONNECT", "METHOD_LOCK", "METHOD_PURGE"]  # PATCH is METHOD_OTHER in this build (NO_SPECIAL_HANDLING off)


def true_set(ck, fn, methods):
    """enumerators K for which `return true` is reachable in a switch(theMethod) classifier"""
    out = set()
    sw = [b for b in fn.blocks.values() if b.get("term", {}).get("k") == "SwitchStmt"]
    ck.need(len(sw) == 1 and "HttpRequestMethod::theMethod" in E.mentions(sw[0]["term"]["c"]), "C07: %s no longer switches on theMethod" % fn.name)
    for name, k in methods.items():
        fl = ck.flow(fn, switch_assume=lambda cond, k=k: k if "HttpRequestMethod::theMethod" in E.mentions(cond) else None)
        rets = fl.find(ev_return())
        ck.need(rets, "C07: %s has no return for %s" % (fn.name, name))
        if any(E.const(s.ev.get("x")) != 0 for s in rets):
            out.add(name)
    return out


def run(ck):
    facts = ck.facts(["src/FwdState.cc", "src/http/RequestMethod.cc", "src/HttpRequest.cc"], whole=True)
    methods = {k: v for k, v in facts.enum("Http::_method_t").items() if k.startswith("METHOD_") and k not in ("METHOD_ENUM_END",)}

    ck.rule("M1 ENUMTABLE: enumerators reaching `return true` in HttpRequestMethod::isHttpSafe/isIdempotent exclude %s" % UNSAFE)
    for fname in ("HttpRequestMethod::isHttpSafe", "HttpRequestMethod::isIdempotent"):
        fn = facts.fn(fname)
        ts = true_set(ck, fn, methods)
        ck.need(len(ts) >= 3, "C07: %s true-set suspiciously small: %s" % (fname, sorted(ts)))
        for u in UNSAFE:
            ck.need(u in methods, "C07: enumerator %s vanished" % u)
            if u in ts:
                ck.violation("M1.method-class", "M1|%s|%s" % (fname, u), fn.where(), "%s returns true for %s" % (fname, u))
            else:
                ck.ok("M1.method-class", fn.where(), "%s is false for %s (true-set: %s)" % (fname, u, ",".join(sorted(x[7:] for x in ts))))

    ck.rule("M2 FwdState::checkRetriable: a non-false return only with request->body_pipe established null, and its value is computed from isHttpSafe()/isIdempotent() only")
    cr = facts.fn("FwdState::checkRetriable")
    fl = ck.flow(cr)
    nonfalse = lambda ev: ev.get("e") == "ret" and E.const(ev.get("x")) != 0
    ss = ck.require_fact("M2.no-body", fl, nonfalse, E.m_is_mem("body_pipe"), False, "return <non-false>",
                         why="(a request with a body could be retried)")
    for s in ss:
        calls = {c.get("f") for c in E.calls_in(s.ev.get("x"))} - {"RefCount::operator->", "RefCount::operator*"}
        if calls and calls <= {"HttpRequestMethod::isHttpSafe", "HttpRequestMethod::isIdempotent"}:
            ck.ok("M2.classifiers-only", s.where(), "checkRetriable result = %s" % E.key(s.ev["x"]))
        else:
            ck.violation("M2.classifiers-only", "M2|checkRetriable|result-expr", s.where(), "checkRetriable result is computed from %s, not only isHttpSafe()/isIdempotent()" % sorted(calls))

    ck.rule("M3 FwdState::checkRetry: `return true` only with flags.dont_retry F, request->bodyNibbled() F, request->flags.pinned F and "
            "(flags.connected_okay F or checkRetriable() T)")
    chk = facts.fn("FwdState::checkRetry")
    fl = ck.flow(chk)
    ret_true = ev_return(E.m_const(1))
    ck.require_fact("M3.retry-gates", fl, ret_true, E.m_mentions("FwdState::(anonymous struct)::dont_retry"), False, "return true", min_sites=1)
    ck.require_fact("M3.retry-gates", fl, ret_true, E.m_calls("HttpRequest::bodyNibbled"), False, "return true", why="(a partly sent body would be resent)")
    ck.require_fact("M3.retry-gates", fl, ret_true, E.m_is_mem("RequestFlags::pinned"), False, "return true")
    ck.require_any("M3.reached-origin-needs-retriable", chk, ret_true,
                   [(E.m_mentions("FwdState::(anonymous struct)::connected_okay"), False), (E.m_calls("FwdState::checkRetriable"), True)], "return true",
                   why="(a non-idempotent request that reached a server would be sent again)")

    ck.rule("M4 ORDER(FwdState::dispatch): flags.connected_okay = true precedes every protocol start; WHO-writes(connected_okay): false only in the ctor, true only in dispatch")
    disp = facts.fn("FwdState::dispatch")
    okay = "FwdState::(anonymous struct)::connected_okay"
    fl = ck.flow(disp, markers={"connected": ev_assign(okay, E.m_const(1))})
    ck.require_passed("M4.connected-before-start", fl, ev_any(ev_call("httpStart"), ev_call("Ftp::StartGateway"), ev_call("Ftp::StartRelay"), ev_call("whoisStart")),
                      "connected", "protocol start", min_sites=3, why="(a dispatched request would still look 'never connected' and be retried unconditionally)")
    ck.who_writes("M4.who-writes-connected", facts, okay, {"FwdState::FwdState": "initialisation to false", "FwdState::dispatch": "set once a server connection is used"}, min_writers=2)
    for (n, f, l, op, cv) in facts.writers(okay):
        if n == "FwdState::dispatch" and cv != 1:
            ck.violation("M4.who-writes-connected", "M4|dispatch-writes-nontrue", "src/FwdState.cc:%d" % l, "dispatch writes connected_okay with %s" % cv)

    ck.rule("M5 retryOrBail: useDestinations() only with checkRetry() T; complete: useDestinations() only with reforward() T; "
            "reforward: non-zero return only with bodyNibbled() F and flags.pinned F; WHO(useDestinations/checkRetry/reforward)")
    rob = facts.fn("FwdState::retryOrBail")
    ck.require_fact("M5.retry-only-if-checked", ck.flow(rob), ev_call("FwdState::useDestinations"), E.m_calls("FwdState::checkRetry"), True, "useDestinations()")
    comp = facts.fn("FwdState::complete")
    ck.require_fact("M5.reforward-only-if-checked", ck.flow(comp), ev_call("FwdState::useDestinations"), E.m_calls("FwdState::reforward"), True, "useDestinations()")
    ref = facts.fn("FwdState::reforward")
    fl = ck.flow(ref)
    ck.require_fact("M5.reforward-gates", fl, nonfalse, E.m_calls("HttpRequest::bodyNibbled"), False, "return <non-zero>")
    ck.require_fact("M5.reforward-gates", fl, nonfalse, E.m_is_mem("RequestFlags::pinned"), False, "return <non-zero>")
    ck.who_calls("M5.who-restarts", facts, "FwdState::useDestinations",
                 {"FwdState::complete": "after reforward()", "FwdState::retryOrBail": "after checkRetry()",
                  "FwdState::noteDestination": "first destination of the initial attempt"}, min_callers=3)
    nd = facts.fn("FwdState::noteDestination")
    ck.require_fact("M5.first-attempt-only", ck.flow(nd), ev_call("FwdState::useDestinations"), E.m_calls("FwdState::transporting"), False, "useDestinations()",
                    why="(a new attempt would start while one is in progress)")
    ck.assume("bodyNibbled()/exhaustedTries() internals and HappyConnOpener's own retries are not analysed")
