"""C33 Error pages never reflect client input unescaped: %code expansion quoting (DESIGN.md 5/C33)."""
from .. import expr as E
from ..flow import ev_call, ev_assign

FN = "ErrorState::compileLegacyCode"
SINK_OBJ = "ErrorPage::Build::output"

# %codes whose expansion may reach the page WITHOUT html_quote(), with the only data sources allowed on such a path
# (every decl name listed must be mentioned by the source event, looking through local definitions) and the reason
UNQUOTED = {
    ord("D"): ({"ErrorState::compileBody"}, "error detail template, itself compiled (and quoted) recursively"),
    ord("g"): ({"ErrorState::(anonymous struct)::listing"}, "FTP directory listing, HTML produced by Ftp::Gateway::htmlifyListEntry (L1)"),
    ord("l"): ({"error_stylesheet"}, "configured stylesheet"),
    ord("L"): ({"SquidConfig::errHtmlText"}, "err_html_text configuration text"),
    ord("O"): ({"HttpRequest::extacl_message", "ErrorState::external_acl_message"}, "external ACL helper message, documented as unquoted"),
    ord("S"): ({"ErrorState::buildBody"}, "signature template, compiled (and quoted) recursively"),
    ord("W"): ({"ErrorState::Dump"}, "mailto: body, URL-encoded by Dump()"),
    0: (None, "bare % at the end of the template: literal only"),
    None: ({"ErrorPage::Build::input"}, "unknown %code: two template bytes copied back"),
}
TRANSFORMS = {"html_quote", "rfc1738_do_escape"}
# callees that may receive an FTP listing name/link in htmlifyListEntry, with what they do
NAME_SINKS = {"html_quote": "HTML-escapes", "rfc1738_do_escape": "URL-escapes", "strcmp": "compares", "xstrdup": "copies into showname",
              "mimeGetIconURL": "looks up an icon", "mimeGetViewOption": "looks up a flag", "mimeGetDownloadOption": "looks up a flag"}


def is_literal(t):
    t = E.strip(t)
    if not isinstance(t, dict):
        return False
    if t.get("k") in ("str", "lit", "null"):
        return True
    if t.get("k") == "cond":
        return is_literal(t.get("t")) and is_literal(t.get("f"))
    return False


def source_of(ev, mb, p):
    """the data expression trees an event feeds into the expansion (into MemBuf `mb` or pointer `p`), or None"""
    if ev.get("e") == "asg":
        l = E.strip(ev.get("lhs"))
        if isinstance(l, dict) and l.get("k") == "ref" and l.get("d") == p and ev.get("op") == "=":
            r = E.strip(ev.get("rhs"))
            if isinstance(r, dict) and r.get("k") == "call" and r.get("f") in TRANSFORMS and r.get("a") and E.m_is_ref(p)(r["a"][0]):
                return None
            if isinstance(r, dict) and r.get("k") == "mem" and E.m_is_ref(mb)(r.get("b")):
                return None         # p = mb.buf: whatever was appended to mb
            return [r]
        return None
    if ev.get("e") != "call":
        return None
    x = E.strip(ev.get("x"))
    if not isinstance(x, dict) or x.get("k") != "call":
        return None
    if "o" in x and E.m_is_ref(mb)(x["o"]) and not x.get("cm") and x.get("f", "").split("::")[-1] not in ("reset", "init", "clean"):
        return list(x.get("a", [])) or [x]
    for a in x.get("a", []):
        sa = E.strip(a)
        if isinstance(sa, dict) and sa.get("k") == "un" and sa.get("op") == "&" and E.m_is_ref(mb)(sa.get("e")):
            return [x]
    return None


def run(ck):
    facts = ck.facts(["src/errorpage.cc", "src/clients/FtpGateway.cc"], whole=False)
    fn = facts.fn(FN)
    sw = [b for b in fn.blocks.values() if (b.get("term") or {}).get("k") == "SwitchStmt"]
    ck.need(len(sw) == 1, "C33: expected exactly one switch in compileLegacyCode")
    swc = sw[0]["term"]["c"]
    sel = E.mentions(swc)
    cases = sorted({fn.blocks[s["to"]]["case"]["v"] for s in sw[0]["succ"] if s.get("lab") == "case" and "case" in fn.blocks[s["to"]]})
    ck.need(len(cases) >= 30 and any(s.get("lab") == "default" for s in sw[0]["succ"]), "C33: the %code switch lost its cases/default")
    for k in UNQUOTED:
        ck.need(k is None or k in cases, "C33: confirmed unquoted %%code %r has no case any more" % (k,))

    # the sink, the quoting step, the buffer and the pointer are identified from the sink call
    base = ck.flow(fn)
    sink = lambda ev: ev.get("e") == "call" and E.m_is_mem(SINK_OBJ)(E.strip(ev["x"]).get("o"))
    sinks = ck.sites(base, sink, "build.output.append()", 1)
    ck.need(len({s.bid for s in sinks}) == 1, "C33: more than one write to build.output in compileLegacyCode")
    p = E.strip(E.strip(sinks[0].ev["x"])["a"][0]).get("d")
    ck.need(p, "C33: build.output.append() no longer takes the local pointer")
    quoted = ev_assign(p, E.m_calls("html_quote") & E.M(lambda t: E.m_is_ref(p)(E.strip(t)["a"][0]), "of itself"), ops=("=",))
    qs = ck.sites(base, quoted, "p = html_quote(p)", 1)
    flag = set()
    for b in fn.blocks.values():
        c = (b.get("term") or {}).get("c")
        if c is not None and any(s["to"] == qs[0].bid and s.get("lab") == "T" for s in b["succ"]):
            flag |= {E.strip(t)["d"] for t, v in E.implied(c, True) if v and E.strip(t).get("k") == "ref" and E.strip(t).get("dk") == "local"}
    ck.need(len(flag) == 1, "C33: html_quote(p) is no longer guarded by one flag local")
    flag = flag.pop()
    mbs = {E.strip(E.strip(ev["rhs"])["b"]).get("d") for b in fn.blocks.values() for ev in b["ev"]
           if ev_assign(p, ops=("=",))(ev) and E.strip(ev["rhs"]).get("k") == "mem" and E.strip(ev["rhs"])["m"] == "MemBuf::buf"}
    ck.need(len(mbs) == 1 and None not in mbs, "C33: p = mb.buf fallback vanished")
    mb = mbs.pop()
    defs = ck.local_defs(fn)

    def closure(trees):
        out = set()
        for t in trees:
            out |= ck.closure_mentions(fn, t)
        return out

    ck.rule("E1 ENUMTABLE/UNREACH compileLegacyCode, per case label K of switch(letter) with the flag local do_quote constant-propagated: every path on "
            "which a non-literal value was put into mb/p reaches build.output.append(p) only through p = html_quote(p), unless K is in the confirmed "
            "unquoted table {D g l L O S W NUL default} and the value comes from that entry's confirmed source")
    nsrc = 0
    for K in cases + [None]:
        allowed = UNQUOTED.get(K, (None, ""))[0] if K in UNQUOTED else None
        label = "default" if K is None else ("NUL" if K == 0 else chr(K))

        def unsafe(ev, allowed=allowed):
            src = source_of(ev, mb, p)
            if src is None or all(is_literal(t) for t in src):
                return False
            if allowed and (closure(src) & allowed):
                return False
            return True
        fl = ck.flow(fn, tracked=[flag], switch_assume=lambda cond, K=K: (-12345 if K is None else K) if E.mentions(cond) == sel else None,
                     markers={"quoted": quoted, "unsafe": unsafe}, track_markers=["unsafe"])
        ss = ck.sites(fl, sink, "build.output.append()", 1)
        nsrc += len(fl.find(lambda ev: source_of(ev, mb, p) is not None))
        bad = [s for s in ss if s.env.get("#unsafe") == 1 and not s.passed("quoted")]
        raw = [s for s in ss if not s.passed("quoted")]
        if bad:
            ck.violation("E1.quoted-unless-confirmed", "E1|compileLegacyCode|case:%s|unquoted-value" % label, bad[0].where(),
                         "%%%s: a value not in the confirmed unquoted-source table reaches the page without html_quote() "
                         "(a client-controlled string would be reflected as markup)" % label, fl.witness(bad[0]))
        elif raw:
            ck.ok("E1.quoted-unless-confirmed", ss[0].where(), "%%%s: unquoted only for literals and its confirmed source (%s)" % (label, UNQUOTED[K][1] if K in UNQUOTED else "literals/empty"))
        else:
            ck.ok("E1.quoted-unless-confirmed", ss[0].where(), "%%%s: every path to the page passes p = html_quote(p)" % label)
    ck.need(nsrc >= 60, "C33: too few value-producing events recognised in compileLegacyCode (%d)" % nsrc)

    ck.rule("E2 WHO (errorpage.cc): build.output is written only by compile (template text), compileLegacyCode (E1) and compileLogformatCode")
    writers = {}
    for f in facts.all_fns():
        if not f.file.endswith("src/errorpage.cc"):
            continue
        for b in f.blocks.values():
            for ev in b["ev"]:
                if ev.get("e") == "call" and isinstance(E.strip(ev["x"]), dict) and not E.strip(ev["x"]).get("cm") and E.m_is_mem(SINK_OBJ)(E.strip(ev["x"]).get("o")):
                    writers.setdefault(f.name, ev["l"])
    okw = {"ErrorState::compile": "copies template text between codes", FN: "E1", "ErrorState::compileLogformatCode": "logformat output, quoting chosen by the template author"}
    ck.need(len(writers) >= 3, "C33: writers of build.output not found")
    for w, line in sorted(writers.items()):
        if w in okw:
            ck.ok("E2.who-writes-output", "src/errorpage.cc:%d" % line, "%s writes build.output (%s)" % (w, okw[w]))
        else:
            ck.violation("E2.who-writes-output", "E2|who-writes|build.output|%s" % w, "src/errorpage.cc:%d" % line, "%s writes the error page body outside the confirmed set" % w)

    ck.rule("L1 Ftp::Gateway::htmlifyListEntry (producer of the unquoted %g listing): every use of ftpListParts::name/showname/link as a value is an "
            "argument of html_quote/rfc1738 escaping/strcmp/xstrdup/mime lookups, and the SBuf built from showname reaches the row only as html_quote(text.c_str())")
    hl = facts.fn("Ftp::Gateway::htmlifyListEntry")
    is_tainted = lambda t: (isinstance(t, dict) and t.get("k") == "mem" and t["m"].split("::")[-1] in ("name", "showname", "link")
                            and "ftpListParts" in (E.strip(t.get("b")) or {}).get("t", ""))
    ldefs = ck.local_defs(hl)
    carriers = set()
    while True:
        def from_tainted(d):
            d = E.strip(d)
            if isinstance(d, dict) and d.get("k") == "ctor" and d.get("a"):
                d = E.strip(d["a"][0])
            return is_tainted(d) or (isinstance(d, dict) and d.get("k") == "ref" and d.get("d") in carriers)
        more = {n for n, ds in ldefs.items() if n not in carriers and any(from_tainted(d) for d in ds)}
        if not more:
            break
        carriers |= more
    ck.need(carriers, "C33: htmlifyListEntry no longer builds a text local from parts->showname")
    uses = {}
    carrier_inits = {E.key(d) for n in carriers for d in ldefs[n]}

    def visit(t, parent_call, line):
        t0 = t
        if not isinstance(t0, dict) or (t0.get("k") == "ctor" and parent_call is None and E.key(t0) in carrier_inits):
            return
        is_t = is_tainted(t0) or (t0.get("k") == "ref" and t0.get("d") in carriers)
        if is_t:
            uses[(E.key(t0), parent_call)] = line
            if t0.get("k") == "mem":
                return
        nxt = parent_call
        if t0.get("k") in ("call", "ctor"):
            nxt = t0.get("f")
            if nxt in ("SBuf::c_str", "SBuf::rawContent") or nxt.split("::")[-1] in ("operator->", "operator*"):
                nxt = parent_call       # transparent accessors: look at what consumes the C string
        for c in E.children(t0):
            visit(c, nxt, line)
    n_ev = 0
    for b in hl.blocks.values():
        for ev in b["ev"]:
            if ev.get("e") == "call":
                visit(ev["x"], None, ev["l"])
                n_ev += 1
            elif ev.get("e") == "asg" and ev.get("rhs") is not None:
                visit(ev["rhs"], "=", ev["l"])
            elif ev.get("e") == "decl" and ev.get("init") is not None and ev.get("d") not in carriers:
                visit(ev["init"], "decl", ev["l"])
    for (what, callee), line in sorted(uses.items(), key=lambda kv: kv[1]):
        if callee is None:
            continue                # bare evaluation (condition / sub-expression event of its own)
        if callee in NAME_SINKS:
            ck.ok("L1.listing-names-escaped", hl.where(line), "htmlifyListEntry: %s is passed to %s (%s)" % (what, callee, NAME_SINKS[callee]))
        else:
            ck.violation("L1.listing-names-escaped", "L1|htmlifyListEntry|%s|via:%s" % (what, callee), hl.where(line),
                         "htmlifyListEntry: listing text %s is used by %s without html_quote()/URL escaping (it ends up unquoted in the %%g listing)" % (what, callee))
    ck.need(len([1 for (w, c) in uses if c is not None]) >= 6, "C33: too few uses of listing names recognised in htmlifyListEntry")
    ck.assume("template files and @Squid{logformat} output are trusted to the administrator; unparsed FTP listing lines and dates (server-controlled "
              "content, not client input) are emitted as received; html_quote itself is C32")
