"""C52 Overflow-safe arithmetic helpers are exact: guard structure + compile-time witnesses (DESIGN.md 5/C52)."""
import os
import re

from .. import expr as E
from .. import units
from ..witness import compile_witness

W = os.path.join(units.VERIF, "witnesses", "c52.cc")
NEG = {2: "floating point argument", 3: "floating point sum type", 4: "enum sum type", 6: "scoped enum argument"}


def run(ck):
    facts = ck.facts(["src/SquidMath.cc"])

    ck.rule("W1 UNREACH(signed IncreaseSumInternal): the raw `a + b` is evaluated only with (a < 0) F, (b < 0) F and Less(max(S) - a, b) F established; "
            "the unsigned overload returns a value only under sum >= a && sum <= max(S)")
    cands = [f for f in facts.fns("IncreaseSumInternal") if f.tmpl == 1]
    ck.need(len(cands) == 2, "C52: expected the two IncreaseSumInternal overloads (pattern), found %d" % len(cands))
    signed_ok = unsigned_ok = False
    for fn in cands:
        fl = ck.flow(fn)
        sums = [s for s in fl.sites if any(n.get("k") == "bin" and n.get("op") == "+" and {"a", "b"} <= E.mentions(n) for t in (s.ev.get("x"), s.ev.get("init"), s.ev.get("rhs")) if t is not None for n in E.walk(t))]
        ck.need(sums, "C52: no a + b site in %s" % fn.where())
        is_unsigned = any(s.ev.get("e") == "decl" and s.ev.get("d") == "sum" for s in sums)
        if is_unsigned:
            rets = [s for s in fl.sites if s.ev.get("e") in ("call",) and E.strip(s.ev["x"]).get("k") == "ctor" and "sum" in E.mentions(s.ev["x"])]
            rets += [s for s in fl.sites if s.ev.get("e") == "ret" and "sum" in E.mentions(s.ev.get("x"))]
            good = bool(rets)
            for s in rets:
                x = s.ev.get("x")
                # value constructed from sum only under (sum >= a) and (sum <= max)
                need1 = s.has(E.m_cmp("<", E.m_is_ref("sum"), E.m_is_ref("a")), False)
                need2 = s.has(E.M(lambda t: E.strip(t).get("k") == "bin" and E.strip(t).get("op") == "<" and E.m_is_ref("sum")(E.strip(t)["r"]) and "max" in " ".join(E.mentions(E.strip(t)["l"])), "(max(S) < sum)"), False)
                if E.strip(x).get("k") == "ctor" and E.strip(x).get("a"):
                    if need1 and need2:
                        ck.ok("W1.unsigned-guard", s.where(), "optional<S>(sum) only if sum >= a and sum <= max(S)")
                    else:
                        good = False
                        ck.violation("W1.unsigned-guard", "W1|unsigned|guard", s.where(), "optional<S>(sum) constructed without both wrap and range checks (facts %s)" % s.fact_keys())
            unsigned_ok = good
        else:
            for s in sums:
                if s.ev.get("e") != "call":
                    continue
                a0 = s.has(E.m_cmp("<", E.m_is_ref("a"), E.m_const(0)), False)
                b0 = s.has(E.m_cmp("<", E.m_is_ref("b"), E.m_const(0)), False)
                ls = s.has(E.M(lambda t: E.strip(t).get("k") == "call" and E.strip(t).get("f", "").endswith("Less") and len(E.strip(t)["a"]) == 2 and
                               E.strip(E.strip(t)["a"][0]).get("op") == "-" and E.m_is_ref("a")(E.strip(E.strip(t)["a"][0])["r"]) and E.m_is_ref("b")(E.strip(t)["a"][1]), "Less(max(S) - a, b)"), False)
                if a0 and b0 and ls:
                    signed_ok = True
                    ck.ok("W1.signed-guard", s.where(), "a + b evaluated only when a >= 0, b >= 0 and !Less(max(S) - a, b)")
                else:
                    ck.violation("W1.signed-guard", "W1|signed|guard", s.where(), "a + b reachable without the three guards (facts %s)" % s.fact_keys())
    ck.need(signed_ok or ck.violations, "C52: signed IncreaseSumInternal guard sites not recognised")
    ck.need(unsigned_ok or ck.violations, "C52: unsigned IncreaseSumInternal guard sites not recognised")

    ck.rule("W2 WITNESS (clang -fsyntax-only on witnesses/c52.cc against the current SquidMath.h): the public API instantiates for all 64 pairs of "
            "{u,}int{8,16,32,64}_t (the header's own static_asserts hold), Less() equals exact 128-bit comparison and the constexpr signed "
            "IncreaseSumInternal equals the exact sum-or-nothing on an 8x8 grid of boundary values for every type pair (constant-evaluated by the front end); "
            "misuse with floating point / enum sum types must fail to compile")
    ok, errs = compile_witness(W, "src/SquidMath.cc")
    n_asserts = len(re.findall(r"_CASE\(", open(W).read()))
    if ok:
        ck.ok("W2.positive-witness", "witnesses/c52.cc", "positive witness compiles: 64 Less<A,B> grids, 56 IncreaseSumInternal grids, 64 API instantiations")
    else:
        for e in errs[:6]:
            m = re.search(r'"([^"]+)"\s*$', e)
            what = m.group(1) if m else e.split("error:")[-1].strip()
            ck.violation("W2.positive-witness", "W2|positive|%s" % what[:80], "src/SquidMath.h", "compile-time witness fails: %s" % e.strip()[-300:])
    for n, what in NEG.items():
        ok, errs = compile_witness(W, "src/SquidMath.cc", defines=["NEG=%d" % n])
        if not ok and errs:
            ck.ok("W2.negative-witness", "witnesses/c52.cc", "NEG=%d (%s) is rejected by the compiler: %s" % (n, what, errs[0].split("error:")[-1].strip()[:100]))
        else:
            ck.violation("W2.negative-witness", "W2|negative|%d" % n, "src/SquidMath.h", "misuse now compiles: %s" % what)
    ck.assume("exactness for all values is not proved: the guarding structure holds on all paths and the listed boundary grids are constant-evaluated")
