"""C44 Access lists decide by first match, even when checks go asynchronous: verdict gates of the ACL tree walk (DESIGN.md 5/C44)."""
from .. import expr as E
from ..flow import ev_call, ev_return, ev_assign, ev_exit
from .C45 import enum_with
from .C46 import answer_code

CL = "ACLChecklist::"
NODES = E.m_is_mem("Acl::InnerNode::nodes")


def _on_nodes(short):
    return E.M(lambda t: E.strip(t).get("k") == "call" and E.strip(t).get("f", "").split("::")[-1] == short and NODES(E.strip(t).get("o")), "nodes.%s()" % short)


EXHAUSTED = E.m_cmp("==", E.M(lambda t: E.strip(t).get("k") == "ref" and E.strip(t).get("dk") == "local", "loop-iterator"), _on_nodes("end"))
EMPTY = E.m_calls("Acl::InnerNode::empty")



def verdict_table(kind, CHILD, KEEP):
    """doMatch() verdict -> alternatives of facts that must be established where that verdict is returned"""
    mismatch, suspended = [[(CHILD, False), (KEEP, True)]], [[(CHILD, False), (KEEP, False)]]
    return {"Acl::NotNode::doMatch": {0: [[(CHILD, True)]], 1: mismatch, -1: suspended},
            "Acl::AndNode::doMatch": {1: [[(EXHAUSTED, True)]], 0: mismatch, -1: suspended},
            "Acl::OrNode::doMatch": {1: [[(CHILD, True)]], 0: [[(EXHAUSTED, True)]], -1: suspended},
            "Acl::AllOf::doMatch": {1: [[(CHILD, True)], [(EMPTY, True)]], 0: mismatch, -1: suspended}}[kind]


def param(fn, i):
    return fn.params[i]["d"] if len(fn.params) > i else "?"


def local_from(ck, fn, what, pred):
    """the one local of fn some definition of which contains a node satisfying pred (rules must not depend on local names)"""
    names = sorted({n for n, ds in ck.local_defs(fn).items() if any(pred(x) for d in ds for x in E.walk(d))})
    ck.need(len(names) == 1, "C44: %s: expected exactly one local defined from %s, found %s" % (fn.name, what, names))
    return names[0]


def ret_cases(ev):
    """[(constant value, [(leaf, bool)...])] of a return event; `return c ? a : b` is two returns guarded by c"""
    x = E.strip(ev.get("x"))
    if isinstance(x, dict) and x.get("k") == "cond":
        return [(E.const(x["t"]), E.implied(x["c"], True)), (E.const(x["f"]), E.implied(x["c"], False))]
    return [(E.const(x), [])]


def holds(s, extra, m, val):
    return s.has(m, val) or any(m(t) and v == val for t, v in extra)


def run(ck):
    facts = ck.facts(["src/acl/BoolOps.cc", "src/acl/AllOf.cc", "src/acl/Checklist.cc", "src/acl/Tree.cc", "src/acl/InnerNode.cc"], whole=False)
    code = enum_with(ck, facts, "ACCESS_ALLOWED")
    stage = facts.enum("ACLChecklist::AsyncStage")

    # ------------------------------------------------------------------ inner nodes
    ck.rule("T1 doMatch() of NotNode/AndNode/OrNode/AllOf: every returned verdict (1/0/-1; `c ? a : b` split on c) is backed by its facts: a mismatch "
            "verdict only with matchChild() false AND keepMatching() true (a suspended or failed child is never a mismatch), -1 only with "
            "keepMatching() false, AND's 1 / OR's 0 only with the iterator == nodes.end(), OR's 1 only with matchChild() true and lastMatch_ = i")
    ck.rule("T2 loops: the iterator is declared from `start`, passed to matchChild() and only ever advanced by ++; AndNode: RESPONSE(matchChild false -> "
            "return 0/-1 before the next child); OrNode: RESPONSE(matchChild false -> keepMatching() consulted before the next child / return 0)")
    for fname in ("Acl::NotNode::doMatch", "Acl::AndNode::doMatch", "Acl::OrNode::doMatch", "Acl::AllOf::doMatch"):
        fn = facts.fn(fname)
        table = verdict_table(fname, ck.m_result_of(fn, CL + "matchChild"), ck.m_result_of(fn, CL + "keepMatching"))

        def remember(ev, env, facts_):       # path-sensitive: what lastMatch_ was last set to
            x = E.strip(ev.get("x")) if ev.get("e") == "call" else None
            if x and x.get("f", "").endswith("operator=") and E.m_is_mem("Acl::OrNode::lastMatch_")(x.get("o")):
                env["$lm"] = E.key(x["a"][0])
        fl = ck.flow(fn, on_event=remember)
        its = [ev["d"] for b in fn.blocks.values() for ev in b["ev"] if ev.get("e") == "decl" and E.m_is_ref(param(fn, 1))(ev.get("init"))]
        it = its[0] if its else param(fn, 1)
        seen = set()
        for s in ck.sites(fl, ev_return(), "return", 2):
            for val, extra in ret_cases(s.ev):
                seen.add(val)
                alts = table.get(val)
                good = alts is not None and any(all(holds(s, extra, m, v) for m, v in conj) for conj in alts)
                if good and fname == "Acl::OrNode::doMatch" and val == 1:
                    good = s.env.get("$lm") == it
                if good:
                    ck.ok("T1.verdict", s.where(), "%s: verdict %s is backed by %s" % (fname, val, " | ".join("&".join("%s=%s" % (m.desc, "T" if v else "F") for m, v in c) for c in alts)))
                else:
                    ck.violation("T1.verdict", "T1|%s|verdict:%s" % (fname, val), s.where(),
                                 "%s: verdict %s can be returned without its supporting facts (have: %s%s)"
                                 % (fname, val, ", ".join(s.fact_keys())[:300], "; lastMatch_=%s" % s.env.get("$lm") if fname.startswith("Acl::OrNode") else ""), fl.witness(s))
        ck.need(seen == {1, 0, -1}, "C44: %s returns verdicts %s, expected exactly {1,0,-1}" % (fname, sorted(seen, key=str)))
        for s in ck.sites(fl, ev_call(CL + "matchChild"), "matchChild()", 1):
            a = E.strip(s.ev["x"])["a"]
            if E.strip(a[0]).get("k") == "this" and E.m_is_ref(it)(a[1]):
                ck.ok("T2.iteration", s.where(), "%s: matchChild(this, %s)" % (fname, it))
            else:
                ck.violation("T2.iteration", "T2|%s|matchChild-args" % fname, s.where(), "%s evaluates %s instead of matchChild(this, %s)" % (fname, s.desc(), it))
        if its:
            bad = []
            for b in fn.blocks.values():
                for ev in b["ev"]:
                    x = E.strip(ev.get("x")) if ev.get("e") == "call" else None
                    if ev.get("e") == "asg" and E.root_decl(ev.get("lhs"))[1] == it:
                        bad.append(ev)
                    elif x and E.m_is_ref(it)(x.get("o")) and not x.get("cm") and not (x.get("f", "").endswith("operator++") and not x.get("a")):
                        bad.append(ev)
            steps = [ev for b in fn.blocks.values() for ev in b["ev"] if ev.get("e") == "call" and E.m_is_ref(it)(E.strip(ev["x"]).get("o"))
                     and E.strip(ev["x"]).get("f", "").endswith("operator++")]
            ck.need(len(steps) == 1, "C44: %s no longer advances its iterator exactly once per iteration" % fname)
            if bad:
                ck.violation("T2.iteration", "T2|%s|iterator-written" % fname, fn.where(bad[0].get("l")), "%s modifies its rule iterator other than by ++%s" % (fname, it))
            else:
                ck.ok("T2.iteration", fn.where(), "%s walks the children from `start` with ++%s only" % (fname, it))
    no_match = ev_return(E.M(lambda x: all(v in (0, -1) for v, _ in ret_cases({"x": x})), "0/-1"))
    andf, orf = facts.fn("Acl::AndNode::doMatch"), facts.fn("Acl::OrNode::doMatch")
    ck.require_response("T2.and-stops", andf, ck.m_result_of(andf, CL + "matchChild"), False, no_match, "return 0/-1", why="(a later child would be evaluated after a mismatch/suspension)")
    ck.require_response("T2.or-checks-suspension", orf, ck.m_result_of(orf, CL + "matchChild"), False, ev_call(CL + "keepMatching"), "keepMatching()",
                        why="(the next rule would be tried while an earlier one is still being evaluated asynchronously)")

    # ------------------------------------------------------------------ actions
    ck.rule("T3 Acl::Tree: winningAction() = actionAt(lastMatch_ - nodes.begin()); actionAt returns actions[pos] when actions exist else the constant "
            "ALLOWED; lastAction returns actions.back() or the constant DUNNO when empty; add(rule, action) appends to nodes and actions on all paths")
    wa = facts.fn("Acl::Tree::winningAction")
    for s in ck.sites(ck.flow(wa), ev_return(), "return", 1):
        x = E.strip(s.ev.get("x"))
        a = E.strip(x["a"][0]) if E.m_calls("Acl::Tree::actionAt")(x) else {}
        okshape = a.get("k") == "call" and a.get("f", "").endswith("operator-") and len(a.get("a", [])) == 2 and \
            E.m_is_mem("Acl::OrNode::lastMatch_")(a["a"][0]) and _on_nodes("begin")(a["a"][1])
        if okshape:
            ck.ok("T3.winning-index", s.where(), "winningAction() = actionAt(lastMatch_ - nodes.begin())")
        else:
            ck.violation("T3.winning-index", "T3|winningAction|index", s.where(), "winningAction() returns %s" % E.key(x))
    acts = E.m_is_mem("Acl::Tree::actions")
    on_acts = lambda short: E.M(lambda t: E.strip(t).get("k") == "call" and E.strip(t).get("f", "").split("::")[-1] == short and acts(E.strip(t).get("o")), "actions.%s()" % short)
    for fname, have, val, pick, dflt in (("Acl::Tree::actionAt", on_acts("size"), True, "operator[]", "ACCESS_ALLOWED"), ("Acl::Tree::lastAction", on_acts("empty"), False, "back", "ACCESS_DUNNO")):
        fn = facts.fn(fname)
        fl = ck.flow(fn)
        for s in ck.sites(fl, ev_return(), "return", 2):
            x = E.strip(s.ev.get("x"))
            picked = on_acts(pick)(x) and (pick != "operator[]" or E.m_is_ref(param(fn, 0))(x["a"][0]))
            if (picked and s.has(have, val)) or (answer_code(x) == code[dflt] and s.has(have, not val)):
                ck.ok("T3.action-lookup", s.where(), "%s returns %s" % (fname, E.key(x)))
            else:
                ck.violation("T3.action-lookup", "T3|%s|return" % fname, s.where(), "%s returns %s (facts: %s)" % (fname, E.key(x), ", ".join(s.fact_keys())[:200]))
    add = [f for f in facts.fns("Acl::Tree::add") if "Answer" in f.sig]
    ck.need(len(add) == 1, "C44: Acl::Tree::add(Node*, const Answer&) not found")
    fl = ck.flow(add[0], markers={"node": ev_call("Acl::InnerNode::add", arg={0: E.m_is_ref(param(add[0], 0))}),
                                  "action": lambda ev: ev.get("e") == "call" and on_acts("push_back")(ev["x"]) and E.m_is_ref(param(add[0], 1))(E.strip(ev["x"])["a"][0])})
    ck.require_passed("T3.parallel-lists", fl, ev_exit(), "node", "exit")
    ck.require_passed("T3.parallel-lists", fl, ev_exit(), "action", "exit", why="(rule positions and action positions would diverge)")

    # ------------------------------------------------------------------ checklist
    ck.rule("T4 ACLChecklist::matchAndFinish: markFinished(accessList->winningAction()) only with result true, result := matches()/resumeMatchingAt(); "
            "matchAndFinish/matchChild: a fresh matches() only with matchPath.empty() true, otherwise resumeMatchingAt(this, top.position) with "
            "top := matchPath.top() after matchPath.pop(); matchChild: RESPONSE(asyncInProgress() -> matchPath.push(Breadcrumb(current,pos))), returns result; "
            "InnerNode::resumeMatchingAt returns doMatch(checklist,pos) == 1; InnerNode::match returns doMatch(checklist, nodes.begin())")
    path_empty = E.M(lambda t: E.strip(t).get("k") == "call" and E.strip(t).get("f", "").split("::")[-1] == "empty" and E.m_is_mem(CL + "matchPath")(E.strip(t).get("o")), "matchPath.empty()")
    on_path = lambda short: (lambda ev: ev.get("e") == "call" and E.strip(ev["x"]).get("f", "").split("::")[-1] == short and E.m_is_mem(CL + "matchPath")(E.strip(ev["x"]).get("o")))
    maf = facts.fn(CL + "matchAndFinish")
    fl = ck.flow(maf)
    resumed = lambda n: n.get("k") == "call" and n.get("f") == "Acl::InnerNode::resumeMatchingAt"
    res = {fn.name: local_from(ck, fn, "resumeMatchingAt()", resumed) for fn in (maf, facts.fn(CL + "matchChild"))}
    for s in ck.require_fact("T4.finish-on-match", fl, ev_call(CL + "markFinished"), E.m_is_ref(res[maf.name]), True, "markFinished()", why="(a mismatch or a suspended check would finish with a rule's action)"):
        a0 = E.strip(s.ev["x"])["a"][0]
        if E.m_calls("Acl::Tree::winningAction")(a0):
            ck.ok("T4.finish-on-match", s.where(), "the answer is accessList->winningAction()")
        else:
            ck.violation("T4.finish-on-match", "T4|matchAndFinish|answer", s.where(), "matchAndFinish finishes with %s" % E.key(a0))
    for fn, fresh in ((maf, "Acl::Node::matches"), (facts.fn(CL + "matchChild"), "Acl::Node::matches")):
        fl = ck.flow(fn, markers={"popped": on_path("pop")})
        ds = [E.strip(d) for d in ck.local_defs(fn).get(res[fn.name], [])]
        if ds and all(E.const(d) == 0 or d.get("f") in (fresh, "Acl::InnerNode::resumeMatchingAt") for d in ds) and len(ds) == 3:
            ck.ok("T4.resume", fn.where(), "%s: result is 0, matches() or resumeMatchingAt() only" % fn.name)
        else:
            ck.violation("T4.resume", "T4|%s|result-defs" % fn.name, fn.where(), "%s: result is defined by %s" % (fn.name, [E.key(d) for d in ds]))
        ck.require_fact("T4.resume", fl, ev_call(fresh), path_empty, True, "matches(this)", why="(a suspended check would be restarted from the top instead of resumed)")
        top = local_from(ck, fn, "matchPath.top()", lambda n: n.get("k") == "call" and on_path("top")({"e": "call", "x": n}))
        tops = [E.strip(d) for d in ck.local_defs(fn).get(top, [])]
        top_ok = len(tops) == 1
        for s in ck.require_passed("T4.resume", fl, ev_call("Acl::InnerNode::resumeMatchingAt"), "popped", "resumeMatchingAt()"):
            a = E.strip(s.ev["x"])["a"]
            if top_ok and E.strip(a[0]).get("k") == "this" and E.m_is_mem(CL + "Breadcrumb::position")(a[1]) and E.m_is_ref(top)(E.strip(a[1])["b"]) \
                    and s.has(path_empty, False):
                ck.ok("T4.resume", s.where(), "%s resumes at the top breadcrumb's position" % fn.name)
            else:
                ck.violation("T4.resume", "T4|%s|resume-position" % fn.name, s.where(), "%s resumes with %s (top := %s)" % (fn.name, s.desc(), [E.key(t) for t in tops]))
    mc = facts.fn(CL + "matchChild")
    crumb = E.M(lambda t: E.strip(t).get("k") == "ctor" and E.strip(t).get("f", "").startswith(CL + "Breadcrumb::") and
                E.m_is_ref(param(mc, 0))(E.strip(t)["a"][0]) and E.m_is_ref(param(mc, 1))(E.strip(t)["a"][1]), "Breadcrumb(current,pos)")
    ck.require_response("T4.breadcrumb", mc, E.m_calls(CL + "asyncInProgress"), True,
                        lambda ev: on_path("push")(ev) and crumb(E.strip(ev["x"])["a"][0]), "matchPath.push(Breadcrumb(current,pos))",
                        why="(the position to resume from would be lost)")
    for s in ck.sites(ck.flow(mc), ev_return(), "return", 1):
        (ck.ok("T4.resume", s.where(), "matchChild returns result") if E.m_is_ref(res[mc.name])(s.ev.get("x")) else
         ck.violation("T4.resume", "T4|matchChild|return", s.where(), "matchChild returns %s" % s.desc()))
    rma = facts.fn("Acl::InnerNode::resumeMatchingAt")
    verdict = local_from(ck, rma, "doMatch()", lambda n: n.get("k") == "call" and n.get("f") == "Acl::InnerNode::doMatch")
    rdefs = [E.strip(d) for d in ck.local_defs(rma).get(verdict, [])]
    passes = len(rdefs) == 1 and rdefs[0].get("f") == "Acl::InnerNode::doMatch" and E.m_is_ref(param(rma, 0))(rdefs[0]["a"][0]) and E.m_is_ref(param(rma, 1))(rdefs[0]["a"][1])
    for s in ck.sites(ck.flow(rma), ev_return(), "return", 1):
        x = E.strip(s.ev.get("x"))
        if passes and x.get("k") == "bin" and x.get("op") == "==" and E.m_is_ref(verdict)(x["l"]) and E.const(x["r"]) == 1:
            ck.ok("T4.resume", s.where(), "resumeMatchingAt = (doMatch(checklist, pos) == 1): suspension (-1) is not a match")
        else:
            ck.violation("T4.resume", "T4|resumeMatchingAt|return", s.where(), "resumeMatchingAt returns %s with result := %s" % (E.key(x), [E.key(d) for d in rdefs]))
    im = facts.fn("Acl::InnerNode::match")
    for s in ck.sites(ck.flow(im), ev_return(), "return", 1):
        x = E.strip(s.ev.get("x"))
        if x.get("f") == "Acl::InnerNode::doMatch" and E.m_is_ref(param(im, 0))(x["a"][0]) and any(_on_nodes("begin")(n) for n in E.walk(x["a"][1])):
            ck.ok("T2.iteration", s.where(), "a fresh match starts at nodes.begin()")
        else:
            ck.violation("T2.iteration", "T2|InnerNode::match|start", s.where(), "InnerNode::match returns %s" % E.key(x))

    ck.rule("T5 calcImplicitAnswer: the answer handed to markFinished() is the reverse of lastAction := accessList->lastAction() (DENIED->ALLOWED, "
            "ALLOWED->DENIED, else DUNNO) with implicit = true; it runs only with finished() false (completeNonBlocking, fastCheck)")
    cia = facts.fn(CL + "calcImplicitAnswer")
    last = local_from(ck, cia, "accessList->lastAction()", lambda n: n.get("k") == "call" and n.get("f") == "Acl::Tree::lastAction")
    ldefs = ck.local_defs(cia).get(last, [])
    fin_args = [E.strip(E.strip(ev["x"])["a"][0]) for b in cia.blocks.values() for ev in b["ev"] if ev_call(CL + "markFinished")(ev)]
    ck.need(len(fin_args) == 1 and fin_args[0].get("k") == "ref" and fin_args[0].get("dk") == "local", "C44: calcImplicitAnswer no longer finishes with one local answer")
    ans = fin_args[0]["d"]
    if len(ldefs) == 1:
        ck.ok("T5.implicit", cia.where(), "lastAction := accessList->lastAction()")
    else:
        ck.violation("T5.implicit", "T5|calcImplicitAnswer|lastAction-def", cia.where(), "lastAction is defined by %s" % [E.key(d) for d in ldefs])

    def implicit(ev, env, facts_):
        x = E.strip(ev.get("x")) if ev.get("e") == "call" else None
        if ev.get("e") == "decl" and ev.get("d") == ans:
            env["$ans"] = answer_code(ev.get("init"))
        elif x and x.get("f", "").endswith("operator=") and E.m_is_ref(ans)(x.get("o")):
            env["$ans"] = answer_code(x["a"][0])
    fl = ck.flow(cia, on_event=implicit, markers={"implicit": ev_assign("Acl::Answer::implicit", E.m_const(1))})

    def last_is(s, k, val):     # `x == K` with K == 0 is normalised to the falsity of x
        return s.has(E.m_is_ref(last), not val) if code[k] == 0 else s.has(E.m_cmp("==", E.m_is_ref(last), E.m_const(code[k])), val)
    ss = ck.require_passed("T5.implicit", fl, ev_call(CL + "markFinished", arg={0: E.m_is_ref(ans)}), "implicit", "markFinished(implicitRuleAnswer)")
    got = set()
    for s in ss:
        want = code["ACCESS_ALLOWED"] if last_is(s, "ACCESS_DENIED", True) else code["ACCESS_DENIED"] if last_is(s, "ACCESS_ALLOWED", True) else \
            code["ACCESS_DUNNO"] if last_is(s, "ACCESS_DENIED", False) and last_is(s, "ACCESS_ALLOWED", False) else "?"
        got.add(s.env.get("$ans"))
        if s.env.get("$ans") == want:
            ck.ok("T5.implicit", s.where(), "implicit answer %s under the matching lastAction test" % want)
        else:
            ck.violation("T5.implicit", "T5|calcImplicitAnswer|pairing", s.where(), "the implicit answer %s is not the reverse of the last action (expected %s; facts %s)"
                         % (s.env.get("$ans"), want, ", ".join(s.fact_keys())[:200]), fl.witness(s))
    ck.need(len(got) == 3, "C44: calcImplicitAnswer no longer produces three distinct answers: %s" % got)
    fin = E.m_calls(CL + "finished")
    ck.require_fact("T5.only-unfinished", ck.flow(facts.fn(CL + "completeNonBlocking")), ev_call(CL + "calcImplicitAnswer"), fin, False, "calcImplicitAnswer()",
                    why="(a first-match answer would be overwritten by the implicit one)")
    fc = [f for f in facts.fns(CL + "fastCheck") if f.sig == ""]
    ck.need(len(fc) == 1, "C44: ACLChecklist::fastCheck() not found")
    ck.require_any("T5.only-unfinished", fc[0], ev_call(CL + "calcImplicitAnswer"), [(fin, False), (E.m_is_mem(CL + "accessList"), False)], "calcImplicitAnswer()")

    ck.rule("T6 resumeNonBlockingCheck: matchAndFinish() only with finished() false and after asyncStage_ = asyncNone, itself reached only with "
            "asyncStage_ == asyncRunning; completeNonBlocking() (resume and nonBlockingCheck) only with asyncInProgress() false; completeNonBlocking "
            "always ends in checkCallback()")
    rnb = facts.fn(CL + "resumeNonBlockingCheck")
    st = E.m_is_mem(CL + "asyncStage_")
    reset = ev_assign(CL + "asyncStage_", E.m_const(stage["asyncNone"]))
    fl = ck.flow(rnb, markers={"reset": reset})
    ck.require_fact("T6.resume-state", fl, reset, E.m_cmp("==", st, E.m_const(stage["asyncRunning"])), True, "asyncStage_ = asyncNone")
    ck.require_passed("T6.resume-state", fl, ev_call(CL + "matchAndFinish"), "reset", "matchAndFinish()")
    ck.require_fact("T6.resume-state", fl, ev_call(CL + "matchAndFinish"), fin, False, "matchAndFinish()", why="(an already decided check would be evaluated again)")
    busy = E.m_calls(CL + "asyncInProgress")
    ck.require_fact("T6.complete-when-idle", fl, ev_call(CL + "completeNonBlocking"), busy, False, "completeNonBlocking()",
                    why="(the implicit answer would be delivered while a lookup is pending)")
    ck.require_fact("T6.complete-when-idle", ck.flow(facts.fn(CL + "nonBlockingCheck")), ev_call(CL + "completeNonBlocking"), busy, False, "completeNonBlocking()")
    fl = ck.flow(facts.fn(CL + "completeNonBlocking"), markers={"cb": ev_call(CL + "checkCallback")})
    ck.require_passed("T6.complete-when-idle", fl, ev_exit(), "cb", "exit")
    ck.rule("T7 async-loop guard: matchChild() records matchLoc_ = Breadcrumb(current, pos) and zeroes asyncLoopDepth_ before it descends into the child "
            "(matches()/resumeMatchingAt()), so the retry budget in goAsync() counts re-entries of *one* tree position, not lookups of the whole check; "
            "goAsync() refuses (return false before starter()) on the retry budget only with matchLoc_ == asyncLoc_ established, and records "
            "asyncLoc_ = matchLoc_ and ++asyncLoopDepth_ before starter()")
    mc = facts.fn(CL + "matchChild")
    zero = ev_assign(CL + "asyncLoopDepth_", E.m_const(0))
    pcur, ppos = param(mc, 0), param(mc, 1)
    loc = ev_call("ACLChecklist::Breadcrumb::operator=", obj=E.m_is_mem(CL + "matchLoc_"),
                  arg={0: E.M(lambda t: E.strip(t).get("k") == "ctor" and len(E.strip(t).get("a", [])) == 2 and E.m_is_ref(pcur)(E.strip(t)["a"][0]) and E.m_is_ref(ppos)(E.strip(t)["a"][1]), "Breadcrumb(current,pos)")})
    descend = ev_call({"Acl::Node::matches", "Acl::InnerNode::resumeMatchingAt"})
    fl = ck.flow(mc, markers={"zero": zero, "loc": loc})
    ck.sites(fl, descend, "child->matches()/resumeMatchingAt()", 2)
    ck.require_passed("T7.per-node-budget", fl, descend, "zero", "descending into the child")
    ck.require_passed("T7.per-node-budget", fl, descend, "loc", "descending into the child")
    ga = facts.fn(CL + "goAsync")
    same = E.m_cmp("==", E.m_is_mem(CL + "matchLoc_"), E.m_is_mem(CL + "asyncLoc_"))
    start_ev = lambda ev: ev.get("e") == "call" and E.strip(ev["x"]).get("ind") == 1 and E.strip(ev["x"]).get("f") == param(ga, 0)
    fl = ck.flow(ga, markers={"started": start_ev, "bump": ev_assign(CL + "asyncLoopDepth_", None, ops=("++", "+=")), "rec": ev_call("ACLChecklist::Breadcrumb::operator=", obj=E.m_is_mem(CL + "asyncLoc_"), arg={0: E.m_is_mem(CL + "matchLoc_")})},
                 track_markers=["started"])
    ck.sites(fl, start_ev, "starter()", 1)
    ck.require_passed("T7.goasync-order", fl, start_ev, "bump", "starter()")
    ck.require_passed("T7.goasync-order", fl, start_ev, "rec", "starter()")
    budget = E.M(lambda t: E.strip(t).get("k") == "bin" and E.strip(t).get("op") == "<" and (CL + "asyncLoopDepth_") in E.mentions(t), "asyncLoopDepth_ budget comparison")
    nref = 0
    for s in fl.sites:
        if s.ev.get("e") == "ret" and E.const(s.ev.get("x")) == 0 and not s.passed("started") and (s.has(budget, True) or s.has(budget, False)):
            nref += 1
            if s.has(same, True):
                ck.ok("T7.refuse-only-same-location", s.where(), "goAsync(): retry-budget refusal is under matchLoc_ == asyncLoc_")
            else:
                ck.violation("T7.refuse-only-same-location", "T7|goAsync|budget-refusal-without-same-location", s.where(),
                             "goAsync() refuses a lookup on the retry budget without having established matchLoc_ == asyncLoc_ (a slow ACL at a *different* tree position "
                             "would be refused: the rule silently mismatches and a later rule decides)", fl.witness(s))
    ck.need(nref >= 1, "C44: goAsync() retry-budget refusal not found")


    ck.assume("keepMatching()/finished()/asyncInProgress() are inline accessors in Checklist.h (not extracted); Acl::Node::matches(), the equality of the whole evaluation with a reference evaluator over all rule lists and schedules are not decided")
