"""C46 Proxy authentication gates forwarding: the allow/match gates of the proxy_auth ACL chain (DESIGN.md 5/C46)."""
from .. import expr as E
from ..flow import ev_call, ev_return, ev_assign
from .C45 import enum_with

UR = "Auth::UserRequest::"
LOGGED_IN = E.m_calls("authenticateUserAuthenticated")
BUMPED = E.m_is_mem("RequestFlags::sslBumped")


def answer_code(tree):
    """constant aclMatchCode of a returned Acl::Answer (implicit Answer(code) constructor) or None"""
    t = E.strip(tree)
    while isinstance(t, dict) and t.get("k") == "ctor" and t.get("f") == "Acl::Answer::Answer" and t.get("a"):
        t = E.strip(t["a"][0])
    return E.const(t)


def nonzero_return(ev):
    return ev.get("e") == "ret" and E.const(ev.get("x")) != 0


def run(ck):
    facts = ck.facts(["src/auth/Acl.cc", "src/auth/AclProxyAuth.cc", "src/auth/AclMaxUserIp.cc", "src/auth/UserRequest.cc", "src/client_side_request.cc"],
                     whole=True)
    code = enum_with(ck, facts, "ACCESS_ALLOWED")
    st = enum_with(ck, facts, "AUTH_AUTHENTICATED")
    sc = enum_with(ck, facts, "scProxyAuthenticationRequired")
    ALLOWED, OK = code["ACCESS_ALLOWED"], st["AUTH_AUTHENTICATED"]

    # ------------------------------------------------------------------ AuthenticateAcl
    ck.rule("U1 AuthenticateAcl: every return is a constant aclMatchCode; ACCESS_ALLOWED only under case AUTH_AUTHENTICATED of the switch on "
            "result := tryToAuthenticateAndSetAuthUser(..), or with flags.sslBumped true and checklist->auth_user_request non-null; "
            "WHO(AuthenticateAcl), WHO(tryToAuthenticateAndSetAuthUser)")
    aa = facts.fn("AuthenticateAcl")
    fl = ck.flow(aa)
    res = ck.m_result_of(aa, UR + "tryToAuthenticateAndSetAuthUser")
    authed = E.m_cmp("==", res & E.M(lambda t: E.strip(t).get("k") == "ref", "local"), E.m_const(OK))
    have_creds = E.m_is_mem("ACLFilledChecklist::auth_user_request")
    n_allow = 0
    for s in ck.sites(fl, ev_return(), "return", 5):
        c = answer_code(s.ev.get("x"))
        if c is None:
            ck.violation("U1.allow-gate", "U1|AuthenticateAcl|computed-answer", s.where(), "AuthenticateAcl returns a non-constant answer %s" % s.desc())
        elif c != ALLOWED:
            ck.ok("U1.allow-gate", s.where(), "return of constant non-ALLOWED code %s" % c, nontrivial=False)
        else:
            n_allow += 1
            if s.has(authed, True) or (s.has(BUMPED, True) and s.has(have_creds, True)):
                ck.ok("U1.allow-gate", s.where(), "ACCESS_ALLOWED under %s" % ("result == AUTH_AUTHENTICATED" if s.has(authed, True) else "sslBumped with inherited credentials"))
            else:
                ck.violation("U1.allow-gate", "U1|AuthenticateAcl|allowed-without-authenticated", s.where(),
                             "AuthenticateAcl: return ACCESS_ALLOWED reachable without result == AUTH_AUTHENTICATED (or sslBumped && auth_user_request) "
                             "(facts: %s)" % ", ".join(s.fact_keys())[:300], fl.witness(s))
    ck.need(n_allow >= 1, "C46: AuthenticateAcl no longer returns ACCESS_ALLOWED anywhere")
    ck.who_calls("U1.who-authenticates", facts, "AuthenticateAcl", {"ACLProxyAuth::match": "proxy_auth ACL", "ACLMaxUserIP::match": "max_user_ip ACL",
                                                                     "ACLExternal::aclMatchExternal": "external ACL with %LOGIN (returns the non-allowed answer as is)"}, min_callers=2)
    ck.who_calls("U1.who-authenticates", facts, UR + "tryToAuthenticateAndSetAuthUser", {"AuthenticateAcl": "the only entry"}, min_callers=1)

    # ------------------------------------------------------------------ tri-state conversion
    ck.rule("U2 ACLProxyAuth::match / ACLMaxUserIP::match, per aclMatchCode K of the switch on AuthenticateAcl()'s answer: K != ALLOWED never reaches "
            "matchProxyAuth()/match(user, ip) nor `return 1`; DENIED returns 0; DUNNO/AUTH_REQUIRED return -1 and RESPONSE(keepMatching() -> markFinished(answer))")
    for fname, matcher_call in (("ACLProxyAuth::match", "ACLProxyAuth::matchProxyAuth"), ("ACLMaxUserIP::match", "ACLMaxUserIP::match")):
        fn = [f for f in facts.fns(fname) if f.sig.startswith("ACLChecklist")]
        ck.need(len(fn) == 1, "C46: %s(ACLChecklist*) not found" % fname)
        fn = fn[0]
        ans = ck.m_result_of(fn, "AuthenticateAcl")
        on_answer = lambda cond: any(ans(n) for n in E.walk(cond))
        sw = [b for b in fn.blocks.values() if b.get("term", {}).get("k") == "SwitchStmt" and on_answer(b["term"]["c"])]
        ck.need(len(sw) == 1, "C46: %s no longer switches on the AuthenticateAcl() answer" % fname)
        for name, k in sorted(code.items()):
            fk = ck.flow(fn, switch_assume=lambda cond, k=k: k if on_answer(cond) else None)
            rets = ck.sites(fk, ev_return(), "return under %s" % name, 1)
            vals = sorted({E.const(s.ev.get("x")) if E.const(s.ev.get("x")) is not None else "computed" for s in rets})
            called = bool(fk.find(ev_call(matcher_call)))
            want = (["computed"], True) if k == ALLOWED else ([0], False) if name == "ACCESS_DENIED" else ([-1], False)
            if (vals, called) == want:
                ck.ok("U2.tristate", fn.where(), "%s: answer %s -> returns %s, user matcher %s" % (fname, name, vals, "called" if called else "not reachable"))
            else:
                ck.violation("U2.tristate", "U2|%s|%s" % (fname, name), fn.where(),
                             "%s: under answer %s the function returns %s and the user matcher is %s (expected %s, %s)"
                             % (fname, name, vals, "reachable" if called else "not reachable", want[0], "reachable" if want[1] else "not reachable"))
        ck.require_response("U2.finish-with-answer", fn, E.m_calls("ACLChecklist::keepMatching"), True,
                            ev_call("ACLChecklist::markFinished", arg={0: ans}), "markFinished(answer)",
                            why="(the challenge/pending answer would be lost and the rule taken as a plain mismatch)")

    # ------------------------------------------------------------------ user matcher and the logged-in predicate
    ck.rule("U3 ACLProxyAuth::matchProxyAuth: a non-zero return only with authenticateUserAuthenticated(checklist->auth_user_request) true or "
            "flags.sslBumped true; authenticateUserAuthenticated: non-false only as auth_user_request->authenticated() with the pointer non-null "
            "and valid(); Auth::UserRequest::authenticated: `return true` only with user() non-null and credentials() == Auth::Ok")
    mpa = facts.fn("ACLProxyAuth::matchProxyAuth")
    ck.require_any("U3.match-needs-login", mpa, nonzero_return, [(LOGGED_IN, True), (BUMPED, True)], "return <non-zero>",
                   why="(a user that is not logged in could match a proxy_auth rule)")
    aua = facts.fn("authenticateUserAuthenticated")
    fl = ck.flow(aua)
    for s in ck.require_fact("U3.logged-in", fl, nonzero_return, E.m_calls(UR + "valid"), True, "return <non-false>"):
        x = E.strip(s.ev.get("x"))
        if E.m_calls(UR + "authenticated")(x) and s.has(E.m_is_ref(aua.params[0]["d"]), True):
            ck.ok("U3.logged-in", s.where(), "the result is auth_user_request->authenticated() of a non-null request")
        else:
            ck.violation("U3.logged-in", "U3|authenticateUserAuthenticated|result", s.where(), "authenticateUserAuthenticated returns %s" % E.key(x))
    ad = facts.fn(UR + "authenticated")
    fl = ck.flow(ad)
    cred_ok = E.m_cmp("==", E.m_calls("Auth::User::credentials"), E.m_const(enum_with(ck, facts, "Handshake")["Ok"]))
    ck.require_fact("U3.credentials-ok", fl, nonzero_return, cred_ok, True, "return true", why="(failed or pending credentials would count as logged in)")
    ck.need(all(E.const(s.ev.get("x")) is not None for s in fl.find(ev_return())), "C46: Auth::UserRequest::authenticated() has a computed return")

    # ------------------------------------------------------------------ the state machine's accepting exit
    ck.rule("U4 Auth::UserRequest::authenticate: `return AUTH_AUTHENTICATED` only with authenticateUserAuthenticated(*auth_user_request) last seen true "
            "(direction() assumed to be one of its four enumerators); tryToAuthenticateAndSetAuthUser returns only t->lastReply (cached, under "
            "lastReply != CANNOT_AUTHENTICATE/HELPER) or result := authenticate(..); WHO-writes(lastReply)")
    au = [f for f in facts.fns(UR + "authenticate") if "Http::HdrType" in f.sig]
    ck.need(len(au) == 1, "C46: static Auth::UserRequest::authenticate(...) not found")
    au = au[0]
    dirs = set(facts.enum("Auth::Direction").values())
    fl = ck.flow(au, switch_assume=lambda cond: dirs if UR + "direction" in E.mentions(cond) else None)
    ck.require_fact("U4.accept-needs-login", fl, ev_return(E.m_const(OK)), LOGGED_IN & E.M(lambda t: au.params[0]["d"] in E.mentions(t), "of *auth_user_request"),
                    True, "return AUTH_AUTHENTICATED", why="(credentials that were rejected or never checked would be reported as authenticated)")
    ck.need(all(E.const(s.ev.get("x")) is not None for s in fl.find(ev_return())), "C46: Auth::UserRequest::authenticate has a computed return")
    tta = facts.fn(UR + "tryToAuthenticateAndSetAuthUser")
    fl = ck.flow(tta)
    fresh = ck.m_result_of(tta, UR + "authenticate")
    for s in ck.sites(fl, ev_return(), "return", 2):
        x = s.ev.get("x")
        if E.m_is_mem(UR + "lastReply")(x) or (fresh(x) and E.strip(x).get("k") == "ref"):
            ck.ok("U4.answer-source", s.where(), "returns %s" % E.key(x))
        else:
            ck.violation("U4.answer-source", "U4|tryToAuthenticateAndSetAuthUser|return", s.where(),
                         "tryToAuthenticateAndSetAuthUser returns %s (expected the cached lastReply or the result of authenticate())" % E.key(x))
    ck.who_writes("U4.who-caches", facts, UR + "lastReply", {UR + "UserRequest": "initialised CANNOT_AUTHENTICATE",
                  UR + "tryToAuthenticateAndSetAuthUser": "caches the state machine's result", UR + "AddReplyAuthHeader": "downgrade to CANNOT_AUTHENTICATE"}, min_writers=2)
    for (n, f, l, op, cv) in facts.writers(UR + "lastReply"):
        if n != UR + "tryToAuthenticateAndSetAuthUser" and cv == OK:
            ck.violation("U4.who-caches", "U4|%s|writes-authenticated" % n, "src/auth/UserRequest.cc:%d" % l, "%s sets lastReply = AUTH_AUTHENTICATED" % n)
    for s in fl.find(ev_assign(UR + "lastReply", ops=None)):
        if fresh(s.ev.get("rhs")):
            ck.ok("U4.who-caches", s.where(), "lastReply is cached from the result of authenticate()")
        else:
            ck.violation("U4.who-caches", "U4|tryToAuthenticateAndSetAuthUser|cache-value", s.where(), "lastReply = %s" % E.key(s.ev.get("rhs")))

    # ------------------------------------------------------------------ the challenge
    ck.rule("U5 clientAccessCheckDone: with auth_challenge (defined from answer == ACCESS_AUTH_REQUIRED || ..) true, sslBumped false and flags.accel "
            "false the error is built with status 407")
    cad = facts.fn("ClientRequestContext::clientAccessCheckDone")
    needs_auth = lambda n: E.strip(n).get("k") == "call" and E.strip(n).get("f", "").endswith("operator==") and E.const(E.strip(n)["a"][0]) == code["ACCESS_AUTH_REQUIRED"]
    chal = sorted({n for n, ds in ck.local_defs(cad).items() if any(needs_auth(x) for d in ds for x in E.walk(d))})
    ck.need(len(chal) == 1, "C46: clientAccessCheckDone: expected one local defined from answer == ACCESS_AUTH_REQUIRED, found %s" % chal)
    defs = ck.local_defs(cad)[chal[0]]
    if all(E.strip(d).get("k") == "bin" and E.strip(d).get("op") == "||" and any(needs_auth(x) for x in (E.strip(d)["l"], E.strip(d)["r"])) for d in defs):
        ck.ok("U5.challenge", cad.where(), "auth_challenge = (answer == ACCESS_AUTH_REQUIRED) || ...")
    else:
        ck.violation("U5.challenge", "U5|clientAccessCheckDone|auth_challenge-def", cad.where(), "auth_challenge is no longer defined as answer == ACCESS_AUTH_REQUIRED || ...")
    build = ev_assign("ClientRequestContext::error", E.m_calls("clientBuildError"))
    stat = {E.strip(E.strip(ev["rhs"])["a"][1]).get("d") for b in cad.blocks.values() for ev in b["ev"] if build(ev)}
    fl = ck.flow(cad, tracked=sorted(x for x in stat if x), assume=[(E.m_is_ref(chal[0]), True), (BUMPED, False), (E.m_is_mem("accel"), False),
                                                                    (E.m_calls("Acl::Answer::allowed"), False)])
    for s in ck.sites(fl, build, "error = clientBuildError(..)", 1):
        arg = E.strip(E.strip(s.ev["rhs"])["a"][1])
        v = s.env.get(arg.get("d")) if arg.get("k") == "ref" else ("c", E.const(arg))
        if v == ("c", sc["scProxyAuthenticationRequired"]):
            ck.ok("U5.challenge", s.where(), "an authentication challenge on a forward-proxy request is answered with 407")
        else:
            ck.violation("U5.challenge", "U5|clientAccessCheckDone|status", s.where(), "challenge for a non-bumped, non-accelerated request built with status %s" % (v,))
    ck.rule("U6 Basic scheme verdicts: Auth::Basic::UserRequest::HandleReply marks the user's credentials Auth::Ok only with reply.result == Helper::Okay established "
            "(every other helper outcome -- ERR, BH, timeout, and the Unknown delivered for a crashed helper or a non-protocol reply line -- must not authenticate)")
    b = ck.facts(["src/auth/basic/UserRequest.cc", "src/auth/basic/User.cc"], whole=False)
    hr = b.fn("Auth::Basic::UserRequest::HandleReply")
    hres = b.enum_with("BrokenHelper")
    is_cred_set = lambda name: (lambda ev: ev.get("e") == "call" and E.strip(ev["x"]).get("f", "").endswith("::credentials") and len(E.strip(ev["x"]).get("a", [])) == 1
                                and E.key(E.strip(ev["x"])["a"][0]).split("::")[-1] == name)
    okay = E.m_cmp("==", E.m_is_mem("Helper::Reply::result"), E.m_const(hres["Okay"]))
    ck.require_fact("U6.ok-only-on-helper-okay", ck.flow(hr), is_cred_set("Ok"), okay, True, "credentials(Auth::Ok)",
                    why="(a helper crash or a garbage reply line would authenticate the claimed user and cache the credentials as valid)")

    ck.rule("U9 a helper verdict is applied to the credentials it was computed for: the cached Auth::Basic::User is shared by every request naming that user and "
            "updateCached() replaces its passwd (state Unchecked, a second lookup starts) while an earlier lookup is still in flight; HandleReply must therefore mark the "
            "record Ok only after comparing the password the finished lookup was submitted with against the record's current passwd (some established test that "
            "mentions Auth::Basic::User::passwd). Without it the OK for the right password authorises the wrong one that has replaced it, releases the requests "
            "queued behind it as authenticated, and is cached until the second verdict arrives")
    hfl9 = ck.flow(hr)
    for st in ck.sites(hfl9, is_cred_set("Ok"), "credentials(Auth::Ok)", 1):
        bound = any(fc[0] in ("A", "H") and any(n.get("k") == "mem" and n.get("m", "").endswith("::passwd") for n in E.walk(hfl9.trees[fc[1]])) for fc in st.facts)
        if bound:
            ck.ok("U9.verdict-bound-to-password", st.where(), "HandleReply: Ok only after a test on the record's passwd")
        else:
            ck.violation("U9.verdict-bound-to-password", "U9|HandleReply|verdict-not-bound-to-password", st.where(), "Auth::Basic::UserRequest::HandleReply marks the shared user "
                         "record Ok without any test on its current passwd: a verdict computed for the password that was in the record when the lookup started is applied to "
                         "whatever password updateCached() has put there since", hfl9.witness(st))

    ck.rule("U7 Basic credentials cache: Auth::Basic::User::updateCached, when the newly presented password differs from the cached one (strcmp != 0), resets the cached "
            "user's state to Auth::Unchecked on every path -- also while a helper lookup for the *old* password is pending, because startHelperLookup() queues requests "
            "for a Pending user onto the in-flight lookup assuming identical credentials")
    uc = b.fn("Auth::Basic::User::updateCached")
    differs = E.M(lambda t: E.strip(t).get("k") == "call" and E.strip(t).get("f") == "strcmp" and sum(1 for n in E.walk(t) if n.get("k") == "mem" and n.get("m", "").endswith("::passwd")) == 2, "strcmp(from->passwd, passwd)")
    ck.require_response("U7.new-password-resets-state", uc, differs, True, is_cred_set("Unchecked"), "credentials(Auth::Unchecked)", term_kinds=("IfStmt",),
                        why="(a request with a different password would inherit the verdict of the lookup in flight for the old one)")
    ck.rule("U8 credentials-cache key: Auth::User::username() builds the key with BuildUserKey(username_, realm) where realm is requestRealm_ (the expanded key_extras of the "
            "request) whenever requestRealm_ is non-empty, and null only when it is empty; BuildUserKey appends \":realm\" exactly when realm is non-null. Dropping the "
            "extras from the key lets a verdict cached for (user, extras A) authorise the same user name under extras B without asking the helper")
    au = ck.facts(["src/auth/User.cc"], whole=False)
    un = au.fn("Auth::User::username")
    realm = E.M(lambda t: any(n.get("k") == "mem" and n.get("m") == "Auth::User::requestRealm_" for n in E.walk(t)), "requestRealm_")
    nkey = 0
    for b in un.blocks.values():
        for ev in b["ev"]:
            x = E.strip(ev.get("x")) if ev.get("e") == "call" else None
            if not (isinstance(x, dict) and x.get("f") == "Auth::User::BuildUserKey" and len(x.get("a", [])) == 2):
                continue
            nkey += 1
            a1 = E.strip(x["a"][1])
            good, how = False, E.key(a1)[:100]
            if a1.get("k") == "cond":
                t, pol = E.norm(a1["c"])
                st = E.strip(t)
                if isinstance(st, dict) and st.get("k") == "call" and st.get("f") == "SBuf::isEmpty" and realm(st.get("o")):
                    when_empty, when_set = (a1["t"], a1["f"]) if pol else (a1["f"], a1["t"])
                    good = E.strip(when_empty).get("k") == "null" and E.strip(when_set).get("f") in ("SBuf::c_str", "SBuf::rawContent") and realm(when_set)
                else:
                    ck.need(False, "C46: Auth::User::username() selects the key realm with an unrecognised test %s" % E.key(a1["c"]))
            elif a1.get("k") == "call" and a1.get("f") == "SBuf::c_str" and realm(a1):
                good = True         # always keyed with the (possibly empty) extras
            if good:
                ck.ok("U8.cache-key-includes-extras", un.where(ev["l"]), "username(): key = BuildUserKey(username_, requestRealm_ when non-empty)")
            else:
                ck.violation("U8.cache-key-includes-extras", "U8|Auth::User::username|key-realm", un.where(ev["l"]), "Auth::User::username() builds the credentials-cache key with %s: "
                             "the request's key_extras do not take part in the key when they are present" % how)
    ck.need(nkey >= 1, "C46: Auth::User::username() no longer builds userKey_ with BuildUserKey()")
    bk = au.fn("Auth::User::BuildUserKey")
    bfl = ck.flow(bk)
    ck.need(len(bk.params) == 2, "C46: BuildUserKey signature changed")
    R = bk.params[1]["d"]
    printf2 = lambda e: e.get("e") == "call" and E.strip(e["x"]).get("f", "").endswith(("::Printf", "::appendf")) and any(E.m_is_ref(R)(a_) for a_ in E.strip(e["x"]).get("a", []))
    ck.require_fact("U8.cache-key-includes-extras", bfl, printf2, E.m_is_ref(R), True, "key.Printf(\"%s:%s\", username, realm)")
    ck.require_response("U8.cache-key-includes-extras", bk, E.m_is_ref(R), True, printf2, "key.Printf(..., realm)", why="(a non-null realm would be left out of the key)")

    ck.assume("which UserRequest authTryGetUser() picks (identity mixing across connections), credential caches, scheme decoders other than the two Basic gates of U6/U7 and out-of-order helper replies are not analysed")
