"""C23 Status-line parsing is correct and segmentation-independent: Http1::ResponseParser gates (DESIGN.md 5/C23)."""
from .. import expr as E
from ..flow import ev_call, ev_return, ev_assign, ev_exit, ev_throw, ev_any
from .C21 import (mutates, forbid_after, local_who, require_any, ret_const, stage_write, on_member, PA, BUF, STAGE, TOK)

RS = "Http::One::ResponseParser::"
PROTO = PA + "msgProtocol_"


def in_order(ck, rule, fn, site_pred, preds, name, what, min_sites=1, why="", start=None):
    """every path to a selected site passes events matching preds[0], preds[1], ... in this order (path-sensitive progress counter)"""
    def on_event(ev, env, facts):
        q = env.get("#q", 0)
        if q < len(preds) and preds[q](ev):
            env["#q"] = q + 1
    fl = ck.flow(fn, on_event=on_event, start=start)
    ss = ck.sites(fl, site_pred, name, min_sites)
    for s in ss:
        if s.env.get("#q", 0) == len(preds):
            ck.ok(rule, s.where(), "%s: %s is preceded by %s in order" % (fn.name, s.desc()[:70], what))
        else:
            ck.violation(rule, "%s|%s|%s|in-order:%s" % (rule, fn.name, name, what), s.where(),
                         "%s: '%s' is reachable after only %d of the %d steps [%s] %s" % (fn.name, s.desc()[:90], s.env.get("#q", 0), len(preds), what, why), fl.witness(s))
    return ss


def interval(site, is_var):
    """[lo, hi] implied for an integer variable by the constant comparisons among the must-facts of a site"""
    lo, hi = None, None
    up = lambda cur, v, f: v if cur is None else f(cur, v)
    for f in site.facts:
        if f[0] != "A":
            continue
        t = E.strip(site.flow.trees[f[1]])
        if not isinstance(t, dict) or t.get("k") != "bin" or t.get("op") not in ("<", "=="):
            continue
        l, r, v = t.get("l"), t.get("r"), f[2]
        if t["op"] == "==" and is_var(l) and E.const(r) is not None and v:
            lo, hi = up(lo, E.const(r), max), up(hi, E.const(r), min)
        elif t["op"] == "<" and is_var(r) and E.const(l) is not None:     # K < x
            lo, hi = (up(lo, E.const(l) + 1, max), hi) if v else (lo, up(hi, E.const(l), min))
        elif t["op"] == "<" and is_var(l) and E.const(r) is not None:     # x < K
            lo, hi = (lo, up(hi, E.const(r) - 1, min)) if v else (up(lo, E.const(r), max), hi)
    return lo, hi


def int64_args(ck, rule, fn, limit):
    """the single Tokenizer::int64(v, 10, false, limit) call of fn; returns the name of the out-variable v"""
    calls = [ev for b in fn.blocks.values() for ev in b["ev"] if ev_call(TOK + "int64")(ev)]
    ck.need(len(calls) == 1, "C23: expected one Tokenizer::int64 call in %s, found %d" % (fn.name, len(calls)))
    a = E.strip(calls[0]["x"])["a"]
    got = [E.const(x) for x in a[1:]]
    if got == [10, 0, limit]:
        ck.ok(rule, fn.where(calls[0]["l"]), "%s: int64(%s, 10, false, %d)" % (fn.name, E.key(a[0]), limit))
    else:
        ck.violation(rule, "%s|%s|int64-args" % (rule, fn.name), fn.where(calls[0]["l"]),
                     "%s calls int64 with (base, allowSign, limit) = %s, expected [10, 0, %d]" % (fn.name, got, limit))
    return E.strip(a[0]).get("d")


def run(ck):
    facts = ck.facts(["src/http/one/ResponseParser.cc", "src/http/one/Parser.cc"], whole=False)
    st = facts.enum("Http::One::ParseState")
    buf_w = mutates(BUF)
    proto_w = lambda ev: (ev.get("e") == "asg" and PROTO in E.mentions(ev.get("lhs"))) or mutates(PROTO)(ev)

    # ---------------------------------------------------------------- ParseResponseStatus
    prs = facts.fn(RS + "ParseResponseStatus")
    ck.rule("T1 GINT/ARGS ResponseParser::ParseResponseStatus: the status is read by int64(v, 10, false, 3), the out-parameter is assigned only from v, and on every normal return "
            "the constant comparisons that hold bound it to [100, 599]; a failed int64()/skipOne(delimiter) never returns normally; InsufficientInput only with tok.atEnd()")
    v = int64_args(ck, "T1.status-args", prs, 3)
    asg = [ev for b in prs.blocks.values() for ev in b["ev"] if ev.get("e") == "asg" and E.strip(ev["lhs"]).get("dk") == "param"]
    ck.need(len(asg) == 1, "C23: expected exactly one assignment to the status out-parameter, found %d" % len(asg))
    code = E.strip(asg[0]["lhs"])["d"]
    if E.m_is_ref(v)(asg[0].get("rhs")) and asg[0].get("op") == "=":
        ck.ok("T1.status-args", prs.where(asg[0]["l"]), "%s = %s" % (code, v))
    else:
        ck.violation("T1.status-args", "T1.status-args|ParseResponseStatus|assignment", prs.where(asg[0]["l"]), "status out-parameter is assigned %s, not the int64() result %s" % (E.key(asg[0].get("rhs")), v))
    fl = ck.flow(prs)
    for s in ck.sites(fl, ev_exit(("ret", "fall")), "normal return", 1):
        lo, hi = interval(s, E.m_is_ref(code))
        if lo is not None and hi is not None and lo >= 100 and hi <= 599:
            ck.ok("T1.status-range", s.where(), "normal return with %s in [%d, %d]" % (code, lo, hi))
        else:
            ck.violation("T1.status-range", "T1.status-range|ParseResponseStatus", s.where(),
                         "ParseResponseStatus can return normally with %s only known to be in [%s, %s], not within [100, 599] (facts: %s)" % (code, lo, hi, ", ".join(s.fact_keys())[:200]), fl.witness(s))
    ck.require_passed("T1.status-range", ck.flow(prs, markers={"assigned": lambda ev: ev is asg[0]}), ev_exit(("ret", "fall")), "assigned", "normal return")
    for m in (E.m_calls(TOK + "int64"), E.m_calls(TOK + "skipOne")):
        ck.require_response("T1.syntax-gates", prs, m, False, ev_throw(), "throw", why="(a status-line without 1-3 digits + delimiter would be accepted)")
    is_insufficient = lambda ev: ev.get("e") == "throw" and E.strip(ev.get("x")).get("f", "").startswith("Parser::InsufficientInput")
    ck.require_fact("T1.need-more-only-at-end", fl, is_insufficient, E.m_calls(TOK + "atEnd"), True, "throw InsufficientInput", why="(unparsable bytes would be reported as 'need more data')")

    # ---------------------------------------------------------------- parseResponseFirstLine
    pfl = facts.fn(RS + "parseResponseFirstLine")
    ck.rule("T2 parseResponseFirstLine: version by int64(v, 10, false, 1) and minor = v; after a failed int64()/skipOne() every path returns <= 0 before msgProtocol_/buf_ change; "
            "buf_/msgProtocol_ change only after skipOne(delimiter) or skip(IcyMagic) succeeded (or on the HTTP/0.9 path), buf_ only to the buf_-tokenizer's remaining(); "
            "an exit that changed msgProtocol_ also moved buf_ or finished parsing; `return <= 0` never after a buf_ change; `return 0` only at tok.atEnd() or on a proper magic prefix")
    vm = int64_args(ck, "T2.version-args", pfl, 1)
    minor = [s for s in ck.flow(pfl).find(lambda ev: ev.get("e") == "asg" and E.strip(ev["lhs"]).get("m", "").endswith("::minor"))]
    ck.need(len(minor) == 1, "C23: msgProtocol_.minor assignment not found")
    if E.m_is_ref(vm)(minor[0].ev.get("rhs")):
        ck.ok("T2.version-args", minor[0].where(), "minor = %s" % vm)
    else:
        ck.violation("T2.version-args", "T2.version-args|parseResponseFirstLine|minor", minor[0].where(), "msgProtocol_.minor is assigned %s, not the parsed digit" % E.key(minor[0].ev.get("rhs")))
    for m in (E.m_calls(TOK + "int64"), E.m_calls(TOK + "skipOne")):
        ck.require_response("T2.version-gate", pfl, m, False, ret_const(lambda c: c <= 0), "return<=0", until=ev_any(buf_w, proto_w),
                            why="(a status-line without `DIGIT SP` after HTTP/1. would be accepted or checkpointed)")
    magic = lambda name: E.M(lambda t: name in E.mentions(E.strip(t)["a"][0]), "arg0~" + name.split("::")[-1])
    skip_http = E.m_calls(TOK + "skip") & magic(PA + "Http1magic")
    skip_icy = E.m_calls(TOK + "skip") & magic(RS + "IcyMagic")
    delim_ok = E.m_calls(TOK + "skipOne")
    sw = lambda name: E.m_calls("SBuf::startsWith") & E.M(lambda t: name in E.mentions(E.strip(t)["o"]), "on " + name.split("::")[-1])
    shorter = lambda name: E.m_cmp("<", on_member("SBuf::length", BUF), E.m_mentions(name))
    sw_http, sw_icy, lt_http, lt_icy = sw(PA + "Http1magic"), sw(RS + "IcyMagic"), shorter(PA + "Http1magic"), shorter(RS + "IcyMagic")
    fallback = ev_any(stage_write(st), ev_assign(RS + "statusCode_"), mutates(PA + "mimeHeaderBlock_"))
    require_any(ck, "T2.commit-after-version", pfl, buf_w, [(delim_ok, True), (skip_icy, True)], "buf_ change", min_sites=1,
                why="(the checkpoint would be taken before magic and version were complete)")
    require_any(ck, "T2.commit-after-version", pfl, proto_w, [(delim_ok, True), (skip_icy, True), (sw_icy, False), (lt_icy, False)], "msgProtocol_ change", min_sites=3)
    fl = ck.flow(pfl)
    toks = [s.ev["d"] for s in fl.find(lambda ev: ev.get("e") == "decl" and E.strip(ev.get("init") or {}).get("k") == "ctor" and E.m_is_mem(BUF)((E.strip(ev["init"]).get("a") or [None])[0]))]
    ck.need(len(toks) == 1, "C23: tokenizer over buf_ not found in parseResponseFirstLine")
    for s in fl.find(buf_w):
        x = E.strip(s.ev["x"])
        a = E.strip(x["a"][0]) if x.get("f") == "SBuf::operator=" and x.get("a") else {}
        if a.get("f") == TOK + "remaining" and E.m_is_ref(toks[0])(a.get("o")):
            ck.ok("T2.commit-value", s.where(), "buf_ = %s" % E.key(a))
        else:
            ck.violation("T2.commit-value", "T2.commit-value|parseResponseFirstLine", s.where(), "buf_ is changed by %s, not by assigning the buf_ tokenizer's remaining()" % s.desc()[:100])
    fl = ck.flow(pfl, markers={"proto": proto_w, "moved": ev_any(buf_w, stage_write(st, "HTTP_PARSE_DONE"))}, track_markers=["proto", "moved"])
    for s in ck.sites(fl, ev_exit(("ret", "fall")), "exit", 4):
        if s.env.get("#proto") == 1 and s.env.get("#moved") != 1:
            ck.violation("T2.protocol-and-buffer-together", "T2.protocol-and-buffer-together|parseResponseFirstLine", s.where(),
                         "an exit is reachable with msgProtocol_ set but buf_ still at the magic prefix (the next call would parse the magic as status)", fl.witness(s))
        else:
            ck.ok("T2.protocol-and-buffer-together", s.where(), "exit with proto-set=%s moved=%s" % (s.env.get("#proto", 0), s.env.get("#moved", 0)))
    forbid_after(ck, "T2.no-commit-on-failure", pfl, ret_const(lambda c: c <= 0), buf_w, "return<=0", "buf_-write", min_sites=4)
    need_more = ret_const(lambda c: c == 0)
    require_any(ck, "T2.need-more-only-if-truncated", pfl, need_more, [(E.m_calls(TOK + "atEnd"), True), (sw_http, True), (sw_icy, True)], "return 0", min_sites=3)
    require_any(ck, "T2.need-more-only-if-truncated", pfl, need_more, [(E.m_calls(TOK + "atEnd"), True), (lt_http, True), (lt_icy, True)], "return 0", min_sites=3)

    ck.rule("T3 parseResponseFirstLine HTTP/0.9 fallback (statusCode_/mimeHeaderBlock_/parsingStage_ writes): unreachable once msgProtocol_ is known or skip(Http1magic)/skip(IcyMagic) "
            "succeeded; reachable only when buf_ is not a proper prefix of either magic")
    ck.need(len(ck.flow(pfl).find(fallback)) >= 3, "C23: HTTP/0.9 fallback writes not found")
    known = E.m_mentions(PROTO) & E.M(lambda t: E.strip(t).get("k") == "mem", "member")     # `protocol != PROTO_NONE(0)` is normalised to the atom `protocol`
    for m, val in ((skip_http, True), (skip_icy, True), (known, True)):
        ck.require_response("T3.fallback-excluded", pfl, m, val, ev_return(), "return", until=fallback, why="(a response with an HTTP/ICY prefix would be treated as an HTTP/0.9 body)")
    require_any(ck, "T3.fallback-not-on-prefix", pfl, fallback, [(lt_http, False), (sw_http, False)], "0.9 fallback", min_sites=3, why="(a truncated 'HTTP/1.' would be taken for HTTP/0.9)")
    require_any(ck, "T3.fallback-not-on-prefix", pfl, fallback, [(lt_icy, False), (sw_icy, False)], "0.9 fallback", min_sites=3)

    # ---------------------------------------------------------------- parseResponseStatusAndReason
    psr = facts.fn(RS + "parseResponseStatusAndReason")
    ck.rule("T4 parseResponseStatusAndReason: ParseResponseStatus(tok, statusCode_) runs only with !completedStatus_; completedStatus_ = true only after that call and then a buf_ "
            "checkpoint; `return 1` only after skipLineTerminator(tok) and then a buf_ checkpoint; buf_ only becomes tok.remaining(); the catch handlers change no parser state and return <= 0")
    done_flag = RS + "completedStatus_"
    status_call = ev_call(RS + "ParseResponseStatus", arg={1: E.m_is_mem(RS + "statusCode_")})
    fl = ck.flow(psr)
    ss = ck.require_fact("T4.status-once", fl, status_call, E.m_is_mem(done_flag), False, "ParseResponseStatus()", why="(the status would be parsed again from reason-phrase bytes)")
    tokp = E.key(E.strip(ss[0].ev["x"])["a"][0])
    in_order(ck, "T4.status-checkpoint", psr, ev_assign(done_flag, E.m_const(1)), [status_call, buf_w], "completedStatus_=true", "ParseResponseStatus(), buf_ checkpoint")
    in_order(ck, "T4.line-checkpoint", psr, ret_const(lambda c: c > 0), [ev_call(PA + "skipLineTerminator"), buf_w], "return 1", "skipLineTerminator(), buf_ checkpoint",
             why="(the line would be accepted without its terminator, or its bytes left in the buffer)")
    for s in ck.sites(fl, buf_w, "buf_ change", 1):
        x = E.strip(s.ev["x"])
        a = E.strip(x["a"][0]) if x.get("f") == "SBuf::operator=" and x.get("a") else {}
        if a.get("f") == TOK + "remaining" and E.key(a.get("o")) == tokp:
            ck.ok("T4.commit-value", s.where(), "buf_ = %s" % E.key(a))
        else:
            ck.violation("T4.commit-value", "T4.commit-value|parseResponseStatusAndReason", s.where(), "buf_ is changed by %s, not by assigning %s.remaining()" % (s.desc()[:100], tokp))
    tries = [b["id"] for b in psr.blocks.values() if (b.get("term") or {}).get("k") == "CXXTryStmt"]
    ck.need(len(tries) == 1, "C23: try dispatch block not found in parseResponseStatusAndReason")
    hfl = ck.flow(psr, start=tries[0])
    state_w = ev_any(buf_w, proto_w, stage_write(st), ev_assign(done_flag, None, ops=None), ev_assign(RS + "statusCode_", None, ops=None))
    ck.require_unreachable("T4.handlers-keep-state", hfl, state_w, "parser state write", "exception handlers")
    for s in ck.sites(hfl, ev_return(), "handler return", 2):
        if E.const(s.ev.get("x")) is not None and E.const(s.ev["x"]) <= 0:
            ck.ok("T4.handlers-keep-state", s.where(), "handler returns %s" % E.key(s.ev["x"]))
        else:
            ck.violation("T4.handlers-keep-state", "T4.handlers-keep-state|return", s.where(), "an exception handler returns %s" % E.key(s.ev.get("x")))

    # ---------------------------------------------------------------- who / parse()
    ck.rule("T5 WHO (unit-local) + ResponseParser::parse stage machine: buf_ changes only in parse/parseResponseFirstLine/parseResponseStatusAndReason, parsingStage_ only in "
            "parse/parseResponseFirstLine, completedStatus_ only in parseResponseStatusAndReason; FIRST only on a non-empty buf_, MIME only with retcode > 0, DONE only with retcode < 0; "
            "each step under its own stage test after buf_ = aBuf")
    rs_fns = [f for f in facts.all_fns() if f.name.startswith(RS)]
    local_who(ck, "T5.who-changes-buf", rs_fns, buf_w, {RS + "parse": "buf_ = aBuf", RS + "parseResponseFirstLine": "magic/version checkpoint",
                                                     RS + "parseResponseStatusAndReason": "status and line checkpoints"}, "changes buf_", 3)
    local_who(ck, "T5.who-changes-stage", rs_fns, stage_write(st), {RS + "parse": "stage machine", RS + "parseResponseFirstLine": "HTTP/0.9: done"}, "writes parsingStage_", 2)
    local_who(ck, "T5.who-changes-status-flag", rs_fns, ev_assign(done_flag, None, ops=None), {RS + "parseResponseStatusAndReason": "status checkpoint"}, "writes completedStatus_", 1)
    par = facts.fn(RS + "parse")
    res = ck.m_result_of(par, RS + "parseResponseFirstLine")
    stage_is = lambda n: (E.m_cmp("==", E.m_is_mem(STAGE), E.m_const(st[n])), True) if st[n] else (E.m_is_mem(STAGE), False)
    entry_w = ev_call("SBuf::operator=", obj=E.m_is_mem(BUF), arg={0: E.M(lambda t: E.strip(t).get("dk") == "param", "parameter")})
    fl = ck.flow(par, markers={"buf_=aBuf": entry_w})
    for callee, stg in ((RS + "parseResponseFirstLine", "HTTP_PARSE_FIRST"), (PA + "grabMimeBlock", "HTTP_PARSE_MIME")):
        ck.require_fact("T5.step-under-own-stage", fl, ev_call(callee), stage_is(stg)[0], stage_is(stg)[1], callee.split("::")[-1] + "()")
        ck.require_passed("T5.parse-from-callers-buffer", fl, ev_call(callee), "buf_=aBuf", callee.split("::")[-1] + "()")
    ck.require_fact("T5.first-needs-data", fl, stage_write(st, "HTTP_PARSE_FIRST"), on_member("SBuf::isEmpty", BUF), False, "parsingStage_=FIRST")
    ck.require_fact("T5.first-needs-data", fl, stage_write(st, "HTTP_PARSE_FIRST"), stage_is("HTTP_PARSE_NONE")[0], False, "parsingStage_=FIRST")
    ck.require_fact("T5.mime-needs-success", fl, stage_write(st, "HTTP_PARSE_MIME"), E.m_cmp("<", E.m_const(0), res), True, "parsingStage_=MIME")
    ck.require_fact("T5.done-needs-error", fl, stage_write(st, "HTTP_PARSE_DONE"), E.m_cmp("<", res, E.m_const(0)), True, "parsingStage_=DONE")
    ck.require_response("T5.error-returns-false", par, E.m_cmp("<", res, E.m_const(0)), True, ev_return(E.m_const(0)), "return false", term_kinds=("IfStmt",))
    for s in ck.sites(fl, ev_return(), "return", 3):
        t, pol = E.norm(s.ev.get("x"), True)
        if E.const(s.ev.get("x")) == 0 or (pol is False and E.m_calls(PA + "needsMoreData")(t)):
            ck.ok("T5.result", s.where(), "parse returns %s" % E.key(s.ev.get("x")))
        else:
            ck.violation("T5.result", "T5.result|parse", s.where(), "ResponseParser::parse returns %s, neither false nor !needsMoreData()" % E.key(s.ev.get("x")))
    ck.assume("equality of outcomes across split points is not decided; exception edges are not in the CFG (handlers are analysed from the try dispatch block); "
              "Tokenizer::int64/skip/skipRequired and the reason-phrase character set are not analysed")
