"""C45 http_access decisions are enforced: the deny gate between the access check and forwarding (DESIGN.md 5/C45)."""
import json

from .. import expr as E
from .. import units
from ..flow import ev_call, ev_exit, ev_assign, ev_any

CRC = "ClientRequestContext::"
CHR = "ClientHttpRequest::"
ERR = CRC + "error"
ACC = CRC + "http_access_done"
# callout steps of doCallouts() that come after the http_access step
LATER_STEPS = {"Adaptation::AccessCheck::Start", CRC + "clientRedirectStart", CRC + "clientAccessCheck2", CRC + "clientStoreIdStart",
               "clientInterpretRequestHeaders", CRC + "checkNoCache"}
# direct calls inside doCallouts() after which calloutContext->error must be considered unknown (its whole-program writers, see A4)
MAY_SET_ERROR = {CRC + "clientAccessCheckDone", CHR + "calloutsError"}


def enum_with(ck, facts, enumerator):
    """{enumerator: value} of the (possibly anonymous typedef) enum declaring `enumerator` (local helper: facts.enum() needs a tag name)"""
    for u in facts.units:
        with open(units.cache_prefix(u) + ".idx.jsonl") as f:
            for ln in f:
                if ln.startswith('{"enum"') and json.dumps(enumerator) in ln:
                    vals = dict((a, b) for a, b in json.loads(ln)["vals"])
                    if enumerator in vals:
                        return vals
    ck.broken("anchor enumerator not found: %s" % enumerator)


def callback_of(ev):
    """name of the function passed as callback (2nd argument) of a NonBlockingCheck call event"""
    a = E.strip(ev["x"]).get("a", [])
    cb = E.strip(a[1]) if len(a) > 1 else None
    return cb.get("d") if isinstance(cb, dict) and cb.get("k") == "ref" and cb.get("dk") == "func" else None


def callouts_flow(ck, fn):
    """doCallouts(): product with the last *tested or assigned* value of calloutContext->error / ->http_access_done.  The two values
    are kept in the environment (not as must-facts) because the context object is deleted just before processRequest(): what matters
    is the value the flags had when they were last examined, not whether the (dangling) pointer still designates them."""
    is_err, is_acc = E.m_is_mem(ERR), E.m_is_mem(ACC)

    def on_edge(b, lab, imp, env, facts):
        for t, v in imp:
            k = "$err" if is_err(t) else "$acc" if is_acc(t) else None
            if k and isinstance(env.get(k), bool) and env[k] != v:
                return False        # re-test of a flag nothing has written since its last test: the other outcome is infeasible
            if k:
                env[k] = v

    def on_event(ev, env, facts):
        if ev.get("e") == "call" and E.strip(ev["x"]).get("f") in MAY_SET_ERROR:
            env.pop("$err", None)
        if ev.get("e") != "asg":
            return
        l = E.strip(ev.get("lhs"))
        if not isinstance(l, dict) or l.get("k") != "mem":
            return
        if l["m"] == ERR:
            env["$err"] = "cleared" if E.is_zero(ev.get("rhs")) else "set"
        elif l["m"] == ACC:
            c = E.const(ev.get("rhs"))
            env["$acc"] = (c != 0) if c is not None else "?"
    return ck.flow(fn, on_edge=on_edge, on_event=on_event,
                   markers={"appended": ev_call("errorAppendEntry", arg={1: E.m_is_mem(ERR)})})


def run(ck):
    facts = ck.facts(["src/client_side_request.cc"], whole=True)
    code = enum_with(ck, facts, "ACCESS_ALLOWED")
    sc = enum_with(ck, facts, "scForbidden")
    nbc = ev_call("ACLFilledChecklist::NonBlockingCheck")
    done = ev_call(CRC + "clientAccessCheckDone")

    # ------------------------------------------------------------------ the http_access check is started with the right list and callback
    ck.rule("A1 ClientRequestContext::clientAccessCheck: every exit has passed NonBlockingCheck() or clientAccessCheckDone(); the check handed to "
            "clientAccessCheckDoneWrapper is clientAclChecklistCreate(Config.accessList.http, ..); the no-list default is a constant non-ALLOWED "
            "answer reached only with Config.accessList.http null; clientFollowXForwardedForCheck always re-enters clientAccessCheck() or itself; "
            "the wrapper passes its answer through")
    cac = facts.fn(CRC + "clientAccessCheck")
    http_list = E.m_is_mem("SquidConfig::(anonymous struct)::http")

    def made_from(ev, env, facts_):      # path-sensitive reaching definition: local <- clientAclChecklistCreate(<list>, ..)
        if ev.get("e") == "decl":
            a0 = E.strip(ev["init"])["a"][0] if E.m_calls("clientAclChecklistCreate")(ev.get("init")) else None
            env["$mk:" + ev["d"]] = "?" if a0 is None else "http_access" if http_list(a0) else E.key(a0)
    fl = ck.flow(cac, markers={"decided": ev_any(nbc, done)}, on_event=made_from)
    ck.require_passed("A1.check-started", fl, ev_exit(), "decided", "exit", why="(a request would leave the http_access step with no decision pending)")
    n = 0
    for s in ck.sites(fl, nbc, "NonBlockingCheck", 1):
        cb = callback_of(s.ev)
        if cb == "clientAccessCheckDoneWrapper":
            n += 1
            arg0 = E.strip(s.ev["x"])["a"][0]
            made = [s.env.get("$mk:" + name) for name in E.mentions(arg0) if name != "std::move"]
            if made and all(m == "http_access" for m in made):
                ck.ok("A1.http-list", s.where(), "the checklist answered to clientAccessCheckDone is built from Config.accessList.http")
            else:
                ck.violation("A1.http-list", "A1|clientAccessCheck|list", s.where(), "the checklist handed to clientAccessCheckDoneWrapper is not "
                             "clientAclChecklistCreate(Config.accessList.http, ...): %s" % made)
        elif cb == "clientFollowXForwardedForCheck":
            ck.ok("A1.callbacks", s.where(), "follow_x_forwarded_for pre-check (re-enters clientAccessCheck)")
        else:
            ck.violation("A1.callbacks", "A1|clientAccessCheck|callback|%s" % cb, s.where(), "http_access step starts a check answered to %s" % cb)
    ck.need(n >= 1, "C45: clientAccessCheck no longer starts a check answered to clientAccessCheckDoneWrapper")
    for s in ck.require_fact("A1.default-deny", fl, done, http_list, False, "clientAccessCheckDone()", why="(the configured http_access list would be bypassed)"):
        a0 = E.strip(E.strip(s.ev["x"])["a"][0])
        c = E.const(a0["a"][0]) if a0.get("k") == "ctor" and a0.get("a") else E.const(a0)
        if c is not None and c != code["ACCESS_ALLOWED"]:
            ck.ok("A1.default-deny", s.where(), "without an http_access list the answer is the constant %s (not ACCESS_ALLOWED)" % c)
        else:
            ck.violation("A1.default-deny", "A1|clientAccessCheck|default-answer", s.where(), "without an http_access list the answer is %s" % E.key(a0))
    xff = facts.fn("clientFollowXForwardedForCheck")
    fl = ck.flow(xff, markers={"resumed": ev_any(ev_call(CRC + "clientAccessCheck"),
                                                 lambda ev: nbc(ev) and callback_of(ev) == "clientFollowXForwardedForCheck")})
    ck.require_passed("A1.xff-resumes", fl, ev_exit(), "resumed", "exit", why="(the http_access check would be skipped after follow_x_forwarded_for)")
    wrap = facts.fn("clientAccessCheckDoneWrapper")
    for s in ck.sites(ck.flow(wrap), done, "clientAccessCheckDone()", 1):
        ans = wrap.params[0]["d"] if wrap.params else "?"
        if E.m_is_ref(ans)(E.strip(s.ev["x"])["a"][0]) and not [e for b in wrap.blocks.values() for e in b["ev"] if ev_assign(ans, ops=None)(e)]:
            ck.ok("A1.wrapper", s.where(), "the wrapper passes the checklist answer unchanged")
        else:
            ck.violation("A1.wrapper", "A1|wrapper|answer", s.where(), "clientAccessCheckDoneWrapper does not pass its answer parameter through unchanged")

    # ------------------------------------------------------------------ a denial always becomes an error
    ck.rule("A2 clientAccessCheckDone: RESPONSE(answer.allowed() false -> error = clientBuildError(page, status, ..)) before doCallouts()/exit; "
            "status is a local only ever assigned 403/407/401")
    cad = facts.fn(CRC + "clientAccessCheckDone")
    build = ev_assign(ERR, E.m_calls("clientBuildError"))
    ck.require_response("A2.deny-builds-error", cad, E.m_calls("Acl::Answer::allowed"), False, build, "error = clientBuildError(..)",
                        until=ev_call(CHR + "doCallouts"), why="(a denied request would continue without an error)")
    allowed_status = {sc["scForbidden"], sc["scProxyAuthenticationRequired"], sc["scUnauthorized"]}
    for s in ck.sites(ck.flow(cad), build, "error = clientBuildError", 1):
        st = E.strip(E.strip(s.ev["rhs"])["a"][1])
        vals = [E.const(d) for d in ck.local_defs(cad).get(st.get("d"), [])] if st.get("k") == "ref" and st.get("dk") == "local" else [E.const(st)]
        if vals and all(v in allowed_status for v in vals):
            ck.ok("A2.deny-status", s.where(), "denial status is one of 403/407/401 (%s)" % sorted(set(vals)))
        else:
            ck.violation("A2.deny-status", "A2|clientAccessCheckDone|status", s.where(), "the denial error is built with status values %s" % vals)

    # ------------------------------------------------------------------ doCallouts: the error gate
    ck.rule("A3 ClientHttpRequest::doCallouts: processRequest() only when calloutContext->error was last seen null AND http_access_done last seen "
            "true; no later callout step runs once error is set; RESPONSE(http_access_done false -> clientAccessCheck()); error is cleared only "
            "after errorAppendEntry(e, error) and processRequest() is not reached after clearing without a new test")
    dc = facts.fn(CHR + "doCallouts")
    fl = callouts_flow(ck, dc)
    for s in ck.sites(fl, ev_call(CHR + "processRequest"), "processRequest()", 1):
        if s.env.get("$err") is False and s.env.get("$acc") is True:
            ck.ok("A3.forward-gate", s.where(), "processRequest() reached with error null and http_access_done true")
        else:
            ck.violation("A3.forward-gate", "A3|doCallouts|processRequest|err=%s,acc=%s" % (s.env.get("$err"), s.env.get("$acc")), s.where(),
                         "doCallouts: processRequest() is reachable with calloutContext->error last seen as %s and http_access_done as %s "
                         "(a denied or unchecked request would be forwarded)" % (s.env.get("$err"), s.env.get("$acc")), fl.witness(s))
    for s in ck.sites(fl, ev_call(LATER_STEPS), "later callout steps", 5):
        if s.env.get("$err") is False and s.env.get("$acc") is True:
            ck.ok("A3.no-callout-after-deny", s.where(), "%s only with error null and after the http_access step" % s.desc()[:60])
        else:
            ck.violation("A3.no-callout-after-deny", "A3|doCallouts|%s|err=%s,acc=%s" % (E.strip(s.ev["x"])["f"], s.env.get("$err"), s.env.get("$acc")),
                         s.where(), "doCallouts: '%s' reachable with error=%s http_access_done=%s" % (s.desc()[:80], s.env.get("$err"), s.env.get("$acc")),
                         fl.witness(s))
    ck.require_response("A3.access-step", dc, E.m_is_mem(ACC), False, ev_call(CRC + "clientAccessCheck"), "clientAccessCheck()",
                        why="(the http_access step would be skipped)")
    ck.require_passed("A3.error-delivered", fl, ev_assign(ERR, E.M(E.is_zero, "null")), "appended", "error = nullptr",
                      why="(the denial error would be dropped instead of being sent to the client)")

    # ------------------------------------------------------------------ whole program
    ck.rule("A4 WHO: processRequest() is called only by doCallouts(); http_access_done is written only by the constructor (false) and doCallouts; "
            "calloutContext->error is written only by the ctor, clientAccessCheckDone, calloutsError (both = clientBuildError) and doCallouts; "
            "clientAccessCheckDone has the confirmed callers")
    ck.who_calls("A4.who-forwards", facts, CHR + "processRequest", {CHR + "doCallouts": "after all callouts"}, min_callers=1)
    ck.who_writes("A4.who-marks-checked", facts, ACC, {CRC + "ClientRequestContext": "initialised false", CHR + "doCallouts": "set when the check is started"},
                  min_writers=2)
    for (n_, f_, l_, op, cv) in facts.writers(ACC):
        if n_ == CRC + "ClientRequestContext" and cv != 0:
            ck.violation("A4.who-marks-checked", "A4|ctor|http_access_done-init", "src/client_side_request.cc:%d" % l_, "http_access_done is initialised to %s" % cv)
    ck.who_writes("A4.who-writes-error", facts, ERR, {CRC + "ClientRequestContext": "initialised null", CRC + "clientAccessCheckDone": "denial",
                                                      CHR + "calloutsError": "internal error", CHR + "doCallouts": "cleared after delivery"}, min_writers=3)
    for name in (CRC + "clientAccessCheckDone", CHR + "calloutsError"):
        fn = facts.fn(name)
        for b in fn.blocks.values():
            for ev in b["ev"]:
                if ev_assign(ERR, ops=None)(ev) and not build(ev):
                    ck.violation("A4.who-writes-error", "A4|%s|error-value" % name, fn.where(ev["l"]), "%s writes calloutContext->error with %s" % (name, E.key(ev.get("rhs"))))
    ck.who_calls("A4.who-answers", facts, CRC + "clientAccessCheckDone",
                 {CRC + "clientAccessCheck": "no http_access list: constant denial", CRC + "clientAccessCheck2": "adapted_http_access step",
                  "clientAccessCheckDoneWrapper": "checklist callback", CHR + "handleAdaptationBlock": "adaptation service blocked the request (denial answer)"},
                 min_callers=3)
    ck.assume("steps of doCallouts() that fall through (Adaptation::AccessCheck::Start() == false, clientInterpretRequestHeaders()) are assumed "
              "not to set calloutContext->error; it is re-tested before processRequest() in any case")
    ck.assume("Acl::Answer::allowed() (code == ACCESS_ALLOWED), the ACL evaluation itself (C44) and what processRequest() forwards are not analysed; "
              "host-header verification and adapted_http_access are separate gates")
