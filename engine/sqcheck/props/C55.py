"""C55 Shared store index exposes only complete, stable entries: lock protocol of Ipc::StoreMap (DESIGN.md 5/C55)."""
from .. import expr as E
from ..balance import enumerate_paths
from ..flow import ev_call, ev_return, ev_exit

SM = "Ipc::StoreMap::"
RW = "Ipc::ReadWriteLock::"

# abstract effect of the lock primitives (their own contract is checked by C54): (return value -> effects)
LOCK_OPS = {
    "lockShared": [(True, [("shared", +1)]), (False, [])],
    "lockExclusive": [(True, [("excl", +1)]), (False, [])],
    "lockHeaders": [(True, [("headers", +1)]), (False, [])],
    "unlockShared": [(None, [("shared", -1)])],
    "unlockExclusive": [(None, [("excl", -1)])],
    "unlockHeaders": [(None, [("headers", -1)])],
    "switchExclusiveToShared": [(None, [("excl", -1), ("shared", +1)])],
    "unlockSharedAndSwitchToExclusive": [(True, [("shared", -1), ("excl", +1)]), (False, [("shared", -1)])],
    "startAppending": [(None, [])],
    "stopAppendingAndRestoreExclusive": [(True, []), (False, [])],
}

# contract of the StoreMap protocol functions: return class -> net effect on (shared, excl, headers) locks held by the caller
CONTRACT = [
    ("openForReadingAt", {True: {"shared": "+1"}, False: {}}),
    ("openForWritingAt", {True: {"excl": "+1"}, False: {}}),
    ("openForReading", {True: {"shared": "+1"}, False: {}}),
    ("openForWriting", {True: {"excl": "+1"}, False: {}}),
    ("closeForReading", {None: {"shared": "-1"}}),
    ("closeForWriting", {None: {"excl": "-1"}}),
    ("switchWritingToReading", {None: {"excl": "-1", "shared": "+1"}}),
    ("forgetWritingEntry", {None: {"excl": "-1"}}),
    ("abortWriting", {None: {"excl": "-1"}}),
    ("closeForReadingAndFreeIdle", {None: {"shared": "-1"}}),
    ("freeEntry", {"?": {}}),
    ("freeEntryByKey", {None: {}}),
    ("openOrCreateForReading", {True: {"shared": "+1"}, False: {}}),
    ("hasReadableEntry", {True: {}, False: {}}),
    ("openForUpdating", {True: {"shared": "+1", "headers": "+1", "excl": "+1"}, False: {}}),
    ("closeForUpdating", {None: {"shared": "-1", "headers": "-1", "excl": "-1"}}),
]


def run(ck):
    facts = ck.facts(["src/ipc/StoreMap.cc"], whole=True)
    summaries = {}

    def outcomes(ev):
        if ev.get("e") != "call":
            return None
        x = E.strip(ev.get("x"))
        if not isinstance(x, dict):
            return None
        f = x.get("f", "")
        if f.startswith(RW) and f[len(RW):] in LOCK_OPS:
            return [(val, [(f[len(RW):], c, ("d", d)) for (c, d) in effs] or [(f[len(RW):], "shared", None)]) for (val, effs) in LOCK_OPS[f[len(RW):]]]
        if f == SM + "freeChain":
            keep = E.const(x["a"][2]) if len(x.get("a", [])) == 3 else None
            if keep == 1:
                return [(None, [("freeChain(keepLocked)", "excl", None)])]
            if keep == 0:
                return [(None, [("freeChain(unlock)", "excl", ("d", -1))])]
            return [(None, [("freeChain(?)", "excl", ("=", "?"))])]
        if f == SM + "openKeyless":
            return [(True, [("openKeyless", "excl", ("d", +1))]), (False, [("openKeyless", "excl", None)])]
        if f == SM + "abortUpdating":
            # in openForUpdating it is reached with the stale edition locked and no fresh edition (checked separately below)
            return [(None, [("abortUpdating", "headers", ("d", -1)), ("abortUpdating", "shared", ("d", -1))])]
        if f.startswith(SM) and f[len(SM):] in summaries:
            alts = []
            seen = set()
            for p in summaries[f[len(SM):]]:
                if p.ret == "throw":
                    continue
                sig = (p.ret, tuple(sorted(p.effects.items())))
                if sig in seen:
                    continue
                seen.add(sig)
                alts.append((p.ret if p.ret in (True, False) else None, [("via:" + f[len(SM):], c, v) for c, v in p.effects.items()] or [("via:" + f[len(SM):], "shared", None)]))
            return alts
        return None

    ck.rule("S1 BALANCE over Ipc::StoreMap open*/close*/abort*/free*: on every acyclic path the net number of shared/exclusive/header locks "
            "taken matches the return class (non-null <=> the lock is held; every failure return released what it took); lock primitives use the C54 contract")
    for name, want in CONTRACT:
        cands = facts.fns(SM + name)
        ck.need(cands, "C55: %s%s not found" % (SM, name))
        fn = cands[0]
        paths = enumerate_paths(fn, outcomes)
        summaries[name] = paths
        ck.stats["functions"].add(fn.name)
        live = [p for p in paths if p.ret != "throw"]
        ck.need(live, "C55: no returning path in %s" % name)
        seen = set()
        for p in live:
            net = p.net()
            sig = (str(p.ret), tuple(sorted(net.items())))
            if sig in seen:
                continue
            seen.add(sig)
            w = want.get(p.ret)
            if w is None:
                ck.violation("S1.balance", "S1|%s|ret=%s|unexpected-return-class" % (name, p.ret), fn.where(p.line),
                             "%s has a path returning %s unknown to the contract (net %s)" % (name, p.ret, net))
            elif net == w:
                ck.ok("S1.balance", fn.where(p.line), "%s: return %s holds net %s" % (name, p.ret, net or "{}"))
            else:
                ck.violation("S1.balance", "S1|%s|ret=%s|net-effect" % (name, p.ret), fn.where(p.line),
                             "%s: a path returning %s leaves net lock effect %s, contract says %s (ops: %s)" % (name, p.ret, net, w, [s for s in p.seq][:12]))
        for r in want:
            if not any(p.ret == r for p in live):
                ck.violation("S1.balance", "S1|%s|ret=%s|missing" % (name, r), fn.where(), "%s no longer has a path returning %s" % (name, r))

    ck.rule("S2 openForReadingAt: a non-null return requires lockShared() T, empty() F, waitingToBeFreed F, sameKey(key) T; "
            "openForWritingAt: non-null requires lockExclusive() T and (waitingToBeFreed or empty() or overwriteExisting)")
    ofr = facts.fn(SM + "openForReadingAt")
    fl = ck.flow(ofr)
    nonnull = lambda ev: ev.get("e") == "ret" and E.strip(ev.get("x") or {}).get("k") != "null"
    for m, v, why in [(E.m_calls(RW + "lockShared"), True, "unlocked entry exposed"), (E.m_calls("Ipc::StoreMapAnchor::empty"), False, "empty entry exposed"),
                      (E.m_is_mem("waitingToBeFreed"), False, "entry marked for deletion exposed"), (E.m_calls("Ipc::StoreMapAnchor::sameKey"), True, "entry of another key exposed")]:
        ck.require_fact("S2.read-gates", fl, nonnull, m, v, "return &s", why="(%s)" % why)
    ofw = facts.fn(SM + "openForWritingAt")
    fl = ck.flow(ofw)
    ck.require_fact("S2.write-gates", fl, nonnull, E.m_calls(RW + "lockExclusive"), True, "return &s", why="(two writers could hold one entry)")

    ck.rule("S3 every freeChain() call is dominated by exclusive ownership (lockExclusive() T | unlockSharedAndSwitchToExclusive() T | writing() T with "
            "(!appending | stopAppendingAndRestoreExclusive() T)); freeChain unlocks only when !keepLocked; WHO(freeChain, freeChainAt, raw lock primitives)")
    owners = {"openForWritingAt": [(E.m_calls(RW + "lockExclusive"), True)],
              "freeEntry": [(E.m_calls(RW + "lockExclusive"), True)],
              "freeEntryByKey": [(E.m_calls(RW + "lockExclusive"), True)],
              "closeForReadingAndFreeIdle": [(E.m_calls(RW + "unlockSharedAndSwitchToExclusive"), True)]}
    for name, alts in owners.items():
        fn = facts.fns(SM + name)[0]
        ck.require_fact("S3.free-needs-exclusive", ck.flow(fn), ev_call(SM + "freeChain"), alts[0][0], alts[0][1], "freeChain()",
                        why="(a chain could be freed under a reader)")
    aw = facts.fn(SM + "abortWriting")
    ck.require_fact("S3.free-needs-exclusive", ck.flow(aw), ev_call(SM + "freeChain"), E.m_calls("Ipc::StoreMapAnchor::writing"), True, "freeChain()")
    ck.require_any("S3.free-needs-no-appender-readers", aw, ev_call(SM + "freeChain"),
                   [(E.m_is_mem("appending"), False), (E.m_calls(RW + "stopAppendingAndRestoreExclusive"), True)], "freeChain()",
                   why="(an appending entry with possible readers would be freed)")
    fc = facts.fn(SM + "freeChain")
    ck.require_fact("S3.freeChain-unlock", ck.flow(fc), ev_call(RW + "unlockExclusive"), E.m_is_ref("keepLocked"), False, "unlockExclusive()")
    ck.require_response("S3.freeChain-unlock", fc, E.m_is_ref("keepLocked"), False, ev_call(RW + "unlockExclusive"), "unlockExclusive()")
    lam = SM + "purgeOne()::(anonymous class)::operator()::(lambda)"
    allowed_free = {SM + n: "holds the exclusive lock (S3)" for n in list(owners) + ["abortWriting"]}
    allowed_free[lam] = "purge victim under lockExclusive() (checked below)"
    ck.who_calls("S3.who-frees", facts, SM + "freeChain", allowed_free, min_callers=5)
    ck.who_calls("S3.who-frees", facts, SM + "freeChainAt", {SM + "freeChain": "only through freeChain"}, min_callers=1)
    pl = [f for f in facts.all_fns() if f.name == lam]
    ck.need(len(pl) == 1, "C55: purgeOne lambda not found")
    ck.require_fact("S3.free-needs-exclusive", ck.flow(pl[0]), ev_call(SM + "freeChain"), E.m_calls(RW + "lockExclusive"), True, "freeChain()")
    for prim in ("lockExclusive", "unlockExclusive", "lockShared", "unlockShared", "switchExclusiveToShared", "unlockSharedAndSwitchToExclusive",
                 "lockHeaders", "unlockHeaders", "startAppending", "stopAppendingAndRestoreExclusive"):
        ck.who_calls("S3.who-locks", facts, RW + prim, {}, prefixes=("Ipc::StoreMap::", "Ipc::MemMap::", "Ipc::ReadWriteLock::"), min_callers=1, kinds=("call",),
                     why="(the shared index lock is manipulated outside the map classes)")

    ck.rule("S3b abortWriting: a busy (still being read) aborted entry is marked waitingToBeFreed before its exclusive lock is released, so no later reader can open the "
            "incomplete entry; freeChain: the chain start/splicing point handed to freeChainAt() are read before rewind() resets them")
    flaw = ck.flow(aw, markers={"marked": lambda ev: ev.get("e") == "call" and E.strip(ev["x"]).get("f", "").endswith("operator=") and E.m_is_mem("waitingToBeFreed")(E.strip(ev["x"]).get("o")) and E.const(E.strip(ev["x"])["a"][0]) == 1
                                or (ev.get("e") == "asg" and E.m_is_mem("waitingToBeFreed")(ev.get("lhs")) and E.const(ev.get("rhs")) == 1)})
    ck.require_passed("S3b.aborted-entry-marked", flaw, ev_call(RW + "unlockExclusive"), "marked", "unlockExclusive() in abortWriting",
                      why="(readers arriving after the abort would open a writer-less, incomplete entry)")
    flfc = ck.flow(fc, markers={"rewind": ev_call("Ipc::StoreMapAnchor::rewind")}, track_markers=["rewind"])
    for s_ in ck.sites(flfc, ev_call(SM + "freeChainAt"), "freeChainAt()", 1):
        stale = []
        for a_ in E.strip(s_.ev["x"])["a"]:
            m_ = E.mentions(a_)
            if any(x.endswith("::start") or x.endswith("::splicingPoint") for x in m_):
                if s_.passed("rewind"):
                    stale.append(E.key(a_))
            else:
                for n_ in E.walk(a_):
                    if n_.get("k") == "ref" and n_.get("dk") == "local":
                        for d_ in flfc.find(lambda ev, n=n_["d"]: ev.get("e") == "decl" and ev.get("d") == n):
                            if d_.passed("rewind"):
                                stale.append(n_["d"])
        if stale:
            ck.violation("S3b.free-before-rewind", "S3b|freeChain|reads-after-rewind", s_.where(),
                         "freeChain passes %s to freeChainAt() after inode.rewind() reset it: the preserved chain suffix (splicing point) of a header-updated entry is freed as well" % stale)
        else:
            ck.ok("S3b.free-before-rewind", s_.where(), "freeChainAt() gets the anchor's start/splicingPoint as they were before rewind()")

    ck.rule("S4 freeEntry on a busy entry only CAS-marks waitingToBeFreed; abortUpdating: RESPONSE(stale edition -> unlockHeaders + closeForReading), "
            "RESPONSE(fresh edition -> abortWriting); openKeyless lambda returns true only when openForWritingAt() succeeded")
    fe = facts.fn(SM + "freeEntry")
    fl = ck.flow(fe)
    cas = lambda ev: ev.get("e") == "call" and E.strip(ev["x"]).get("f", "").endswith("compare_exchange_strong")
    ck.require_fact("S4.busy-entry-only-marked", fl, cas, E.m_calls(RW + "lockExclusive"), False, "waitingToBeFreed CAS")
    au = facts.fn(SM + "abortUpdating")
    stale = E.m_is_mem("stale")
    fresh = E.m_is_mem("fresh")
    ck.require_response("S4.abortUpdating", au, stale, True, ev_call(RW + "unlockHeaders"), "unlockHeaders()")
    ck.require_response("S4.abortUpdating", au, stale, True, ev_call(SM + "closeForReading"), "closeForReading()")
    ck.require_response("S4.abortUpdating", au, fresh, True, ev_call(SM + "abortWriting"), "abortWriting()")
    kl = [f for f in facts.all_fns() if f.name.startswith(SM + "openKeyless") and f.name.endswith("(lambda)")]
    ck.need(len(kl) == 1, "C55: openKeyless lambda not found")
    ck.require_fact("S4.keyless-open", ck.flow(kl[0]), ev_return(E.m_const(1)), E.m_mentions(SM + "openForWritingAt"), True, "return true")
    ck.rule("S7 WHO/SIBLING key lookups: Ipc::StoreMap::nameByKey (the raw hash position, *before* the fileNos relocation that header updates install) is called only "
            "by fileNoByKey (which applies the relocation) and by openForUpdating (which needs the name to record the relocation); every other by-key operation -- "
            "openForReading/openForWriting/freeEntryByKey/peekAtEntry-style lookups -- goes through fileNoByKey, so that after a 304 header update relocated an anchor "
            "all workers and all operations agree on which anchor a key names (a purge by raw name hits the old, empty anchor and is silently lost)")
    ck.who_calls("S7.key-lookups-agree", facts, "Ipc::StoreMap::nameByKey",
                 {"Ipc::StoreMap::fileNoByKey": "applies the fileNos relocation", "Ipc::StoreMap::openForUpdating": "records the stale name for the relocation"},
                 min_callers=2, kinds=("call",), why="(that operation would address the pre-relocation anchor)")
    ck.rule("S8 the two deleters agree (freeEntry marks a busy entry unconditionally): Ipc::StoreMap::freeEntryByKey compares the key on every path -- whichever of "
            "lockExclusive()/lockShared() succeeded or neither -- and a matching key is answered on every path by freeChain() or waitingToBeFreed = true before the "
            "function returns. If the no-lock outcome does nothing, an entry deleted while its writer still holds it is opened by later readers")
    fk = facts.fn(SM + "freeEntryByKey")
    same = E.m_calls("Ipc::StoreMapAnchor::sameKey")
    mark = lambda ev: (ev.get("e") == "asg" and E.m_is_mem("waitingToBeFreed")(ev.get("lhs")) and E.const(ev.get("rhs")) == 1) or \
        (ev.get("e") == "call" and E.strip(ev["x"]).get("f", "").split("::")[-1] in ("freeChain", "compare_exchange_strong", "store", "exchange", "operator="))
    kfl = ck.flow(fk, track_atoms={"same": same}, track_history=True)
    for st in ck.sites(kfl, ev_exit(), "function exit", 1):
        if st.tracked("same") is not None:
            ck.ok("S8.deleters-agree", st.where(), "freeEntryByKey: the key was compared on this way out")
        else:
            ck.violation("S8.deleters-agree", "S8|freeEntryByKey|exit-without-key-test", st.where(), "Ipc::StoreMap::freeEntryByKey can return without having compared the key "
                         "(no lock outcome): a busy entry with this key is neither freed nor marked waitingToBeFreed, unlike freeEntry(fileno)", kfl.witness(st))
    ck.require_response("S8.deleters-agree", fk, same, True, mark, "freeChain() | waitingToBeFreed = true", min_edges=2,
                        why="(a matching entry would survive its deletion)")
    ck.rule("S9 label consistency in closeForUpdating: the stale anchor's splicingPoint (where freeChainAt() stops freeing the stale prefix, i.e. the first slice the "
            "fresh chain shares) is taken from the *stale* edition (update.stale.splicingPoint); with the fresh edition's value freeChainAt() never meets its stop "
            "slice and frees the suffix the published fresh entry -- and its readers -- still use")
    cu = facts.fn(SM + "closeForUpdating")
    nsp = 0
    for b in cu.blocks.values():
        for ev in b["ev"]:
            lhs = rhs = None
            if ev.get("e") == "asg" and ev.get("op") == "=":
                lhs, rhs = ev.get("lhs"), ev.get("rhs")
            elif ev.get("e") == "call" and E.strip(ev["x"]).get("f", "").split("::")[-1] in ("operator=", "store") and len(E.strip(ev["x"]).get("a", [])) >= 1 and "o" in E.strip(ev["x"]):
                lhs, rhs = E.strip(ev["x"])["o"], E.strip(ev["x"])["a"][0]       # std::atomic assignment
            if lhs is not None and E.m_is_mem("splicingPoint")(lhs) and any(n.get("k") == "mem" and n.get("m", "").endswith("::anchor") for n in E.walk(lhs)):
                nsp += 1
                eds = lambda t: sorted({n["m"].split("::")[-1] for n in E.walk(t) if n.get("k") == "mem" and n["m"].split("::")[-1] in ("stale", "fresh")})
                l, r = eds(lhs), eds(rhs)
                if l == r and len(l) == 1 and E.m_is_mem("splicingPoint")(rhs):
                    ck.ok("S9.splice-label", cu.where(ev["l"]), "closeForUpdating: update.%s.anchor->splicingPoint = update.%s.splicingPoint" % (l[0], r[0]))
                else:
                    ck.violation("S9.splice-label", "S9|closeForUpdating|splicingPoint|%s<-%s" % ("+".join(l), "+".join(r) or "other"), cu.where(ev["l"]),
                                 "closeForUpdating stores %s into the %s anchor's splicingPoint: the stop slice of the chain being freed must be that same edition's" % (E.key(rhs)[:80], "/".join(l)))
    ck.need(nsp >= 1, "C55: closeForUpdating no longer records the stale anchor's splicingPoint")

    def stale_splice(ev):
        lhs = None
        if ev.get("e") == "asg" and ev.get("op") == "=":
            lhs = ev.get("lhs")
        elif ev.get("e") == "call" and E.strip(ev["x"]).get("f", "").split("::")[-1] in ("operator=", "store") and "o" in E.strip(ev["x"]):
            lhs = E.strip(ev["x"])["o"]
        return lhs is not None and E.m_is_mem("splicingPoint")(lhs) and any(n.get("k") == "mem" and n.get("m", "").endswith("::anchor") for n in E.walk(lhs)) and \
            any(n.get("k") == "mem" and n["m"].split("::")[-1] == "stale" for n in E.walk(lhs))
    free_stale = lambda ev: ev.get("e") == "call" and E.strip(ev["x"]).get("f") == SM + "freeEntry" and \
        any(n.get("k") == "mem" and n["m"].split("::")[-1] == "stale" for a_ in E.strip(ev["x"]).get("a", []) for n in E.walk(a_))
    ck.require_passed("S9.splice-label", ck.flow(cu, markers={"stale-splice": stale_splice}), free_stale, "stale-splice", "freeEntry(update.stale.fileNo)",
                      why="(the stale chain would be freed without its stop slice: the suffix shared with the fresh entry is freed too)")

    ck.assume("visibility/ordering of the index across processes is not decided; per-anchor aliasing (which anchor a lock belongs to) is not tracked")
