"""C59 Timed events fire in order and never after cancellation: ordering comparators / unlink discipline of EventScheduler (DESIGN.md 5/C59)."""
from .. import expr as E
from ..flow import ev_call, ev_return, ev_assign, ev_any

ES = "EventScheduler::"
WHEN = "ev_entry::when"
NEXT = "ev_entry::next"
TASKS = ES + "tasks"


def deref(name):
    """matcher: the expression `*name` (name a local pointer-to-pointer)"""
    def p(t):
        t = E.strip(t)
        return isinstance(t, dict) and t.get("k") == "un" and t.get("op") == "*" and E.m_is_ref(name)(t.get("e"))
    return E.M(p, "*%s" % name)


def mem_of(member, base):
    def p(t):
        t = E.strip(t)
        return isinstance(t, dict) and t.get("k") == "mem" and t.get("m") == member and base(t.get("b"))
    return E.M(p, "%s.%s" % (base.desc, member.split("::")[-1]))


def m_eq(a, b):
    """`a == b` in either operand order"""
    return E.M(E.m_cmp("==", a, b) | E.m_cmp("==", b, a), "(%s == %s)" % (a.desc, b.desc))


def is_zero(t):
    t = E.strip(t)
    try:
        return isinstance(t, dict) and t.get("k") in ("lit", "flit") and float(t.get("v")) == 0.0
    except (TypeError, ValueError):
        return False


def is_delete(local):
    def p(ev):
        x = E.strip(ev.get("x")) if ev.get("e") == "call" else None
        return isinstance(x, dict) and x.get("k") == "delete" and E.m_is_ref(local)(x.get("e"))
    return p


def asg_to(lhs_matcher, rhs_matcher=None):
    def p(ev):
        return ev.get("e") == "asg" and ev.get("op") == "=" and lhs_matcher(ev.get("lhs")) and (rhs_matcher is None or rhs_matcher(ev.get("rhs")))
    return p


def need_locals(ck, fn, *names):
    have = {p.get("d") for p in fn.params} | {ev.get("d") for b in fn.blocks.values() for ev in b["ev"] if ev.get("e") == "decl"}
    ck.need(set(names) <= have, "C59: %s no longer has local(s) %s (container rewritten/renamed? re-confirm the rule instance)" % (fn.name, sorted(set(names) - have)))


def run(ck):
    facts = ck.facts(["src/event.cc"], whole=True)
    ev_event, ev_E = E.m_is_ref("event"), deref("E")

    # ------------------------------------------------------------------ schedule
    ck.rule("S1 EventScheduler::schedule: the new node is linked (*E = event) only where the scan ended (*E null) or broke on the STRICT comparison "
            "(*E)->when > event->when (equal times keep submission order); event->next = *E precedes *E = event; the scan advances only along ->next from &tasks; "
            "the node's due time is current_dtime + when (0 for when <= 0)")
    sch = facts.fn(ES + "schedule")
    need_locals(ck, sch, "E", "event", "when")
    later = E.m_cmp("<", mem_of(WHEN, ev_event), mem_of(WHEN, ev_E))        # event->when < (*E)->when  ==  (*E)->when > event->when
    link = asg_to(ev_E, ev_event)
    ck.require_any("S1.insert-position", sch, link, [(ev_E, False), (later, True)], "*E = event",
                   why="(an event would be queued before an earlier or equal-time event)")
    fl = ck.flow(sch, markers={"tail": asg_to(mem_of(NEXT, ev_event), ev_E)})
    ck.require_passed("S1.keeps-tail", fl, link, "tail", "*E = event", why="(the events after the insertion point would be dropped)")
    moves = [s for s in ck.sites(fl, ev_assign("E"), "E =", 2)]
    for s in moves:
        rhs = E.strip(s.ev.get("rhs"))
        tgt = E.strip(rhs.get("e")) if isinstance(rhs, dict) and rhs.get("k") == "un" and rhs.get("op") == "&" else None
        if tgt is not None and (E.m_is_mem(TASKS)(tgt) or mem_of(NEXT, ev_E)(tgt)):
            ck.ok("S1.scan-steps", s.where(), "scan position is &tasks or &(*E)->next")
        else:
            ck.violation("S1.scan-steps", "S1|scan-step", s.where(), "schedule moves the scan position to %s" % E.key(rhs))
    # every scan step that does not break must be an equal-or-earlier node: the advance is reached only with the strict test false
    ck.require_fact("S1.scan-steps", fl, asg_to(E.m_is_ref("E"), E.M(lambda t: NEXT in E.mentions(t), "next")), later, False, "E = &(*E)->next")
    ctor = ck.sites(fl, ev_call("ev_entry::ev_entry"), "new ev_entry", 1)
    for s in ctor:
        a = E.strip(s.ev["x"]).get("a", [])
        ts = E.strip(a[3]) if len(a) >= 4 else {}
        defs = ck.local_defs(sch).get(ts.get("d"), []) if ts.get("k") == "ref" else [ts]
        good = bool(defs)
        for d in defs:
            d = E.strip(d)
            br = E.strip(d.get("t")) if d.get("k") == "cond" else d
            good = good and isinstance(br, dict) and br.get("k") == "bin" and br.get("op") == "+" and {"current_dtime", "when"} <= E.mentions(br) \
                and (d.get("k") != "cond" or (E.const(d.get("f")) == 0 and E.m_cmp("<", E.M(is_zero, "0"), E.m_is_ref("when"))(_norm(d.get("c")))))
        if good:
            ck.ok("S1.due-time", s.where(), "due time is current_dtime + when (or 0 when when <= 0)")
        else:
            ck.violation("S1.due-time", "S1|due-time", s.where(), "schedule computes the due time as %s" % "; ".join(E.key(d) for d in defs))

    # ------------------------------------------------------------------ timeRemaining / checkEvents
    ck.rule("T1 EventScheduler::timeRemaining: a zero return only with tasks non-null and tasks->when <= current_dtime; every other return is EVENT_IDLE or max(1, ...)")
    tr = facts.fn(ES + "timeRemaining")
    fl = ck.flow(tr)
    head_when = mem_of(WHEN, E.m_is_mem(TASKS))
    not_due = E.m_cmp("<", E.m_is_ref("current_dtime"), head_when)       # tasks->when <= current_dtime  ==  !(current_dtime < tasks->when)
    zero = ev_return(E.m_const(0))
    ck.require_fact("T1.zero-only-when-due", fl, zero, not_due, False, "return 0", why="(an event would be reported due before its time)")
    ck.require_fact("T1.zero-only-when-due", fl, zero, E.m_is_mem(TASKS), True, "return 0")
    for s in ck.sites(fl, ev_return(), "return", 2):
        x = E.strip(s.ev.get("x"))
        c = E.const(x)
        if c is not None:
            ck.ok("T1.nonzero-otherwise", s.where(), "constant return %s" % c) if (c != 0 or s.has(not_due, False)) else None
            continue
        args = x.get("a", []) if x.get("k") == "call" and x.get("f", "").split("::")[-1] == "max" else []
        if any((E.const(a) or 0) >= 1 for a in args):
            ck.ok("T1.nonzero-otherwise", s.where(), "non-constant return is max(>=1, ...)")
        else:
            ck.violation("T1.nonzero-otherwise", "T1|return-may-be-zero", s.where(), "timeRemaining returns %s which may be 0 before the head event is due" % E.key(x))

    ck.rule("T2 EventScheduler::checkEvents: an event callback is scheduled only with the latest timeRemaining() result == 0 (re-tested every iteration); "
            "the fired node is the list head (event = tasks), it is unlinked (tasks = event->next) and deleted after the callback was scheduled")
    chk = facts.fn(ES + "checkEvents")
    need_locals(ck, chk, "event", "result")
    fire = ev_call("ScheduleCall")
    unlink = asg_to(E.m_is_mem(TASKS), mem_of(NEXT, ev_event))
    fl = ck.flow(chk, markers={"fired": fire, "unlinked": unlink})
    remaining = ck.m_result_of(chk, ES + "timeRemaining")
    ck.require_fact("T2.fire-only-when-due", fl, fire, remaining, False, "ScheduleCall()", why="(an event would fire although timeRemaining() was not 0)")
    defs = ck.local_defs(chk).get("event", [])
    if defs and all(E.m_is_mem(TASKS)(d) for d in defs):
        ck.ok("T2.fires-head", chk.where(), "the fired event is the list head")
    else:
        ck.violation("T2.fires-head", "T2|not-head", chk.where(), "checkEvents fires %s instead of the list head" % [E.key(d) for d in defs])
    dele = is_delete("event")
    ck.require_passed("T2.dequeue-order", fl, dele, "fired", "delete event")
    ck.require_passed("T2.dequeue-order", fl, dele, "unlinked", "delete event", why="(a freed node would stay at the head of the queue)")
    others = [s for s in fl.find(lambda ev: ev.get("e") == "asg" and TASKS in E.mentions(ev.get("lhs"))) if not unlink(s.ev)]
    for s in others:
        ck.violation("T2.dequeue-order", "T2|tasks-write", s.where(), "checkEvents writes the queue other than tasks = event->next: %s" % s.desc())

    # ------------------------------------------------------------------ cancel
    ck.rule("C1 EventScheduler::cancel: `delete event` only with event->func == func and (arg null or event->arg == arg), after *E = event->next in the same iteration; "
            "the only queue write is *E = event->next (other nodes stay linked)")
    can = facts.fn(ES + "cancel")
    need_locals(ck, can, "E", "event", "func", "arg")
    dele = is_delete("event")
    fl = ck.flow(can)
    ck.require_fact("C1.match", fl, dele, m_eq(mem_of("ev_entry::func", ev_event), E.m_is_ref("func")), True, "delete event", why="(another callback's event would be cancelled)")
    ck.require_any("C1.match", can, dele, [(E.m_is_ref("arg"), False), (m_eq(mem_of("ev_entry::arg", ev_event), E.m_is_ref("arg")), True)], "delete event",
                   why="(an event of the same callback but another argument would be cancelled)")
    n = 0
    for b in can.blocks.values():
        for i, ev in enumerate(b["ev"]):
            if dele(ev):
                n += 1
                if any(asg_to(ev_E, mem_of(NEXT, ev_event))(e2) for e2 in b["ev"][:i]):
                    ck.ok("C1.unlink-before-delete", can.where(ev.get("l")), "*E = event->next immediately precedes delete event")
                else:
                    ck.violation("C1.unlink-before-delete", "C1|unlink", can.where(ev.get("l")), "cancel deletes a node without unlinking it first in the same step")
            if ev.get("e") == "asg":
                kind, root = E.root_decl(ev.get("lhs"))
                l = E.strip(ev.get("lhs"))
                if isinstance(l, dict) and l.get("k") == "ref" and l.get("dk") in ("local", "param"):
                    continue
                if asg_to(ev_E, mem_of(NEXT, ev_event))(ev):
                    ck.ok("C1.only-unlinks", can.where(ev.get("l")), "queue write is *E = event->next")
                else:
                    ck.violation("C1.only-unlinks", "C1|queue-write", can.where(ev.get("l")), "cancel writes the queue other than *E = event->next: %s %s %s"
                                 % (E.key(ev.get("lhs")), ev.get("op"), E.key(ev.get("rhs"))))
    ck.need(n == 1, "C59: expected one `delete event` in cancel, found %d" % n)
    ck.rule("W1 WHO: ev_entry::next is written only by EventScheduler::schedule and the ev_entry constructor; EventScheduler::tasks only by the "
            "EventScheduler constructor, checkEvents (dequeue) and clean (shutdown)")
    ck.who_writes("W1.who-links", facts, NEXT, {ES + "schedule": "insertion", "ev_entry::ev_entry": "initialisation to null"}, min_writers=2)
    ck.who_writes("W1.who-links", facts, TASKS, {ES + "EventScheduler": "initialisation", ES + "checkEvents": "dequeue head", ES + "clean": "shutdown"}, min_writers=3)
    ck.assume("behaviour over schedule/cancel/clock histories is not decided; writes through the local cursor `E` are attributed by the per-function rules only; "
              "AsyncCall delivery order after ScheduleCall and cbdata validity at dial time are not analysed")


def _norm(cond):
    """local helper: `when > 0.0` as the normalised atom (0 < when)"""
    c = E.strip(cond)
    if isinstance(c, dict) and c.get("k") == "bin" and c.get("op") == ">":
        return {"k": "bin", "op": "<", "l": c.get("r"), "r": c.get("l")}
    return c
