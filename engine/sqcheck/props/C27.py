"""C27 Integer parsing is exact and overflow-safe: ACC obligation, offset-parser gates, lossy parsers (DESIGN.md 5/C27)."""
from .. import expr as E
from ..flow import ev_call, ev_return, ev_assign, ev_any

LOSSY = {"atoi", "atol", "atoll", "atof", "sscanf"}


def int_max(iw):
    return (1 << (abs(iw) - 1)) - 1 if iw < 0 else (1 << iw) - 1


def run(ck):
    facts = ck.facts(["src/parser/Tokenizer.cc", "src/HttpHeaderTools.cc"])

    # ------------------------------------------------------------------ Tokenizer::int64
    ck.rule("A1 ACC(Parser::Tokenizer::int64): every constant K that can flow into `cutoff` satisfies K <= max(type of the accumulator); "
            "the accumulate statements acc*=base; acc+=c are dominated by the cutoff guard; cutlim/cutoff are K%base and K/base; "
            "no signed arithmetic (*=, +=, unary -) is applied to an accumulator that may hold K > max(signed type)")
    fn = facts.fn("Parser::Tokenizer::int64")
    fl = ck.flow(fn)
    upd = fl.find(lambda ev: ev.get("e") == "asg" and ev.get("op") in ("*=", "+=") and E.m_is_ref("acc")(ev.get("lhs")))
    ck.need(len(upd) >= 2, "C27: accumulate statements (acc *= base; acc += c) not found in Tokenizer::int64")
    acc_iw = E.strip(upd[0].ev["lhs"]).get("iw")
    ck.need(acc_iw is not None, "C27: accumulator type unknown")
    amax = int_max(acc_iw)
    # constants flowing into cutoff
    ks = []
    for s in fl.find(lambda ev: ev.get("e") in ("asg", "decl") and ((ev.get("e") == "asg" and ev.get("op") == "=" and E.m_is_ref("cutoff")(ev.get("lhs"))) or (ev.get("e") == "decl" and ev.get("d") == "cutoff"))):
        rhs = s.ev.get("rhs") if s.ev["e"] == "asg" else s.ev.get("init")
        if rhs is None:
            continue
        r = E.strip(rhs)
        arms = [r.get("t"), r.get("f")] if r.get("k") == "cond" else [r]
        for a in arms:
            c = E.const(a)
            ck.need(c is not None, "C27: a non-constant value flows into cutoff: %s" % E.key(a))
            ks.append((c, s))
    ck.need(len(ks) >= 2, "C27: expected the two limits (negative/positive) to flow into cutoff, found %d" % len(ks))
    for k, s in ks:
        if k <= amax:
            ck.ok("A1.acc-fits", s.where(), "limit %d fits the accumulator type (max %d)" % (k, amax))
        else:
            ck.violation("A1.acc-fits", "A1|Tokenizer::int64|limit-exceeds-accumulator|K=%d" % k, upd[0].where(),
                         "digits up to the limit %d are accumulated in a %s%d-bit variable (max %d): for the input with that exact magnitude "
                         "`acc += c` overflows (signed overflow is undefined behaviour)" % (k, "signed " if acc_iw < 0 else "unsigned ", abs(acc_iw), amax))
    guard = E.M(lambda t: E.strip(t).get("k") == "bin" and E.strip(t).get("op") == "<" and E.m_is_ref("cutoff")(E.strip(t)["l"]) and "acc" in E.mentions(E.strip(t)["r"]), "(cutoff < acc)")
    muls = [s for s in upd if s.ev["op"] == "*="]
    adds = [s for s in upd if s.ev["op"] == "+="]
    for s in muls:
        if s.has(guard, False):
            ck.ok("A1.guarded-update", s.where(), "'%s' only after acc <= cutoff" % s.desc())
        else:
            ck.violation("A1.guarded-update", "A1|Tokenizer::int64|unguarded-update", s.where(), "'%s' is reachable without the cutoff guard (facts: %s)" % (s.desc(), s.fact_keys()))
    for s in adds:
        # the addition must directly follow the guarded multiplication (same basic block, no branch in between)
        if any(m.bid == s.bid and m.idx < s.idx for m in muls):
            ck.ok("A1.guarded-update", s.where(), "'%s' directly follows the guarded multiplication" % s.desc())
        else:
            ck.violation("A1.guarded-update", "A1|Tokenizer::int64|unguarded-add", s.where(), "'%s' is not in the guarded block of acc *= base" % s.desc())
    ok1 = fl.find(ev_assign("any", E.m_const(1)))
    ck.need(ok1, "C27: `any = 1` not found")
    for s in ok1:
        if s.has(E.m_cmp("<", E.m_is_ref("any"), E.m_const(0)), False) and s.has(guard, False):
            ck.ok("A1.sticky-overflow", s.where(), "accumulation continues only if no earlier overflow was flagged")
        else:
            ck.violation("A1.sticky-overflow", "A1|Tokenizer::int64|overflow-not-sticky", s.where(), "accumulation can resume after an overflow was flagged (facts %s)" % s.fact_keys())
    # cutoff /= base, cutlim = cutoff % base
    div = fl.find(lambda ev: ev.get("e") == "asg" and ev.get("op") == "/=" and E.m_is_ref("cutoff")(ev.get("lhs")) and "base" in E.mentions(ev.get("rhs")))
    lim = [t for t in ck.local_defs(fn).get("cutlim", []) if any(n.get("k") == "bin" and n.get("op") == "%" and "cutoff" in E.mentions(n.get("l")) and "base" in E.mentions(n.get("r")) for n in E.walk(t))]
    if div and lim:
        ck.ok("A1.cutoff-shape", fn.where(), "cutoff /= base and cutlim = cutoff % base")
    else:
        ck.violation("A1.cutoff-shape", "A1|Tokenizer::int64|cutoff-shape", fn.where(), "cutoff/cutlim are no longer K/base and K%base")
    # the digit test `c >= base -> break` dominates the update
    for s in upd:
        if not s.has(E.m_cmp("<", E.m_is_ref("c"), E.m_is_ref("base")), True):
            ck.violation("A1.digit-in-base", "A1|Tokenizer::int64|digit-in-base", s.where(), "a digit >= base can be accumulated")
        else:
            ck.ok("A1.digit-in-base", s.where(), "digits are < base at '%s'" % s.desc())
    # failure returns: any == 0 -> false; any < 0 -> false
    succ = fl.find(lambda ev: ev.get("e") == "ret" and "Parser::Tokenizer::success" in E.mentions(ev.get("x")))
    ck.need(len(succ) >= 1, "C27: success() return not found")
    for s in succ:
        if s.has(E.m_is_ref("any"), True) and s.has(E.m_cmp("<", E.m_is_ref("any"), E.m_const(0)), False):
            ck.ok("A1.fail-on-overflow", s.where(), "success only with any > 0")
        else:
            ck.violation("A1.fail-on-overflow", "A1|Tokenizer::int64|success-after-overflow", s.where(), "success() reachable after overflow/no digits (facts %s)" % s.fact_keys())
    # consumed length = s - start of range
    for s in succ:
        x = E.strip(s.ev["x"])
        a = x.get("a", [])
        if a and E.strip(a[0]).get("k") == "bin" and E.strip(a[0]).get("op") == "-" and E.m_is_ref("s")(E.strip(a[0])["l"]):
            ck.ok("A1.consumes-parsed", s.where(), "consumes exactly s - range.rawContent() bytes")
        else:
            ck.violation("A1.consumes-parsed", "A1|Tokenizer::int64|consumed-length", s.where(), "success() is no longer called with (s - range start)")

    # ------------------------------------------------------------------ httpHeaderParseOffset
    ck.rule("A2 httpHeaderParseOffset: `return true` only past the errno/ERANGE/empty checks; the value stored is the strtoll result")
    po = facts.fn("httpHeaderParseOffset")
    fl = ck.flow(po)
    rt = ev_return(E.m_const(1))
    ck.require_fact("A2.offset-gates", fl, rt, E.m_cmp("==", E.m_is_ref("start"), E.m_is_ref("end")), False, "return true", why="(an empty number would be accepted)")
    er = E.M(lambda t: "__errno_location" in E.mentions(t) and E.strip(t).get("k") == "bin" and E.strip(t).get("op") == "==" and E.const(E.strip(t)["r"]) == 34, "errno == ERANGE")
    ck.require_any("A2.offset-range", po, rt, [(er, False), (E.M(lambda t: "res" in E.mentions(t) and E.strip(t).get("k") == "bin" and E.strip(t).get("op") == "==" and E.const(E.strip(t)["r"]) == (1 << 63) - 1, "res == LLONG_MAX"), False)],
                   "return true", why="(an out-of-range offset would be accepted as LLONG_MAX)")
    # both saturation values: strtoll() returns LLONG_MIN for a magnitude below -2^63 (with errno == ERANGE), not only LLONG_MAX above 2^63-1
    res_is = lambda k, name: E.M(lambda t, k=k: "res" in E.mentions(t) and E.strip(t).get("k") == "bin" and E.strip(t).get("op") == "==" and E.const(E.strip(t)["r"]) == k, "res == %s" % name)
    fl_er = ck.flow(po, track_atoms={"erange": er, "min": res_is(-(1 << 63), "LLONG_MIN"), "max": res_is((1 << 63) - 1, "LLONG_MAX")})
    for st in ck.sites(fl_er, rt, "return true", 1):
        if st.tracked("erange") is False or (st.tracked("min") is False and st.tracked("max") is False):
            ck.ok("A2.offset-range-both-ends", st.where(), "return true only without ERANGE, or with res neither LLONG_MIN nor LLONG_MAX")
        else:
            ck.violation("A2.offset-range-both-ends", "A2|httpHeaderParseOffset|saturated-value-accepted", st.where(),
                         "httpHeaderParseOffset can return true with errno == ERANGE and res not excluded from {LLONG_MIN, LLONG_MAX} (erange=%s min=%s max=%s): a magnitude "
                         "beyond the int64 range is accepted as the saturated value" % (st.tracked("erange"), st.tracked("min"), st.tracked("max")), fl_er.witness(st))
    d = ck.local_defs(po).get("res", [])
    if d and all(E.strip(t).get("f") in ("strtoll", "strtol") and E.const(E.strip(t)["a"][2]) == 10 for t in d):
        ck.ok("A2.offset-parser", po.where(), "res = strtoll(start, &end, 10)")
    else:
        ck.violation("A2.offset-parser", "A2|httpHeaderParseOffset|parser", po.where(), "res is no longer strtoll(start, &end, 10)")

    # ------------------------------------------------------------------ lossy parsers
    ck.rule("A3 LOSSY: the anchored integer parsers must not obtain their value from atoi/atol/sscanf (no overflow or trailing-garbage detection)")
    for name in ("httpHeaderParseInt", "httpHeaderParseOffset", "Parser::Tokenizer::int64"):
        f = facts.fn(name)
        hit = []
        for b in f.blocks.values():
            for ev in b["ev"]:
                for t in (ev.get("x"), ev.get("rhs"), ev.get("init")):
                    for c in E.calls_in(t) if t is not None else []:
                        if c.get("f") in LOSSY:
                            hit.append((c.get("f"), ev.get("l")))
        if hit:
            ck.violation("A3.lossy-parser", "A3|%s|%s" % (name, hit[0][0]), f.where(hit[0][1]),
                         "%s takes its value from %s(): digits beyond int wrap (undefined behaviour) and trailing non-digits are silently ignored" % (name, hit[0][0]))
        else:
            ck.ok("A3.lossy-parser", f.where(), "%s does not use atoi-class parsers" % name)
    ck.assume("exactness of the returned value is not decided; only the overflow obligation of the accumulate idiom and the failure gates are")
