"""C38 PROXY protocol headers: rejection gates and bounded parsing (DESIGN.md 5/C38)."""
from .. import expr as E
from ..flow import ev_call, ev_return, ev_throw, ev_any, ev_exit

P1 = "ProxyProtocol::One::"
P2 = "ProxyProtocol::Two::"


def run(ck):
    facts = ck.facts(["src/proxyp/Parser.cc"])

    ck.rule("V1 One::ExtractPort: addr.port() only with port <= 65535 established, from an unsigned decimal tok.int64(port, 10, false); "
            "One::ParseAddresses: ports are extracted only after the declared/actual address-family comparison succeeded")
    ep = facts.fn(P1 + "ExtractPort")
    fl = ck.flow(ep)
    setp = ev_call("Ip::Address::port", nargs=1)
    ck.require_interval("V1.port-range", fl, setp, E.m_is_ref("port"), None, 65535, "addr.port()", why="(a v1 port above 65535 would be truncated)")
    i64 = E.m_calls("Parser::Tokenizer::int64") & E.M(lambda t: E.m_is_ref("port")(E.strip(t)["a"][0]) and E.const(E.strip(t)["a"][1]) == 10 and E.const(E.strip(t)["a"][2]) == 0, "int64(port, 10, false)")
    ck.require_fact("V1.port-digits", fl, setp, i64, True, "addr.port()", why="(signed or non-decimal ports would be accepted)", history=True)
    pa = facts.fn(P1 + "ParseAddresses")
    fl = ck.flow(pa)
    fam = E.M(lambda t: E.strip(t).get("k") == "bin" and E.strip(t).get("op") == "==" and "parsedAddressFamily" in E.mentions(t) and any("addressFamily" in m for m in E.mentions(t)), "addressFamily() == parsedAddressFamily")
    ck.require_fact("V1.family-match", fl, ev_call(P1 + "ExtractPort"), fam, True, "ExtractPort()", min_sites=2, why="(TCP4 with IPv6 addresses would be accepted)")
    ck.require_fact("V1.family-char", fl, ev_call(P1 + "ExtractIp"), E.m_calls("Parser::Tokenizer::prefix") & E.m_mentions("addressFamilies"), True, "ExtractIp()", min_sites=2, history=True)

    ck.rule("V2 One::Parse: nothing is interpreted before the bounded interior (<= 107 - magic - CRLF bytes of non-CR) followed by CR LF was isolated; "
            "incomplete input asks for more only when the tokenizer is at its end; the consumed size is tok.parsedSize()")
    op = facts.fn(P1 + "Parse")
    fl = ck.flow(op)
    pre = E.m_calls("Parser::Tokenizer::prefix") & E.m_mentions("interior", "maxInteriorLength")
    work = ev_any(ev_call(P1 + "ParseAddresses"), ev_call("ProxyProtocol::Header::ignoreAddresses"), ev_return())
    ck.require_fact("V2.line-isolated", fl, work, pre, True, "parse/return", min_sites=3, why="(an oversized or unterminated v1 line would be parsed)", history=True)
    cr = E.m_calls("Parser::Tokenizer::skip") & E.M(lambda t: E.const(E.strip(t)["a"][0]) == 13, "skip('\\r')")
    lf = E.m_calls("Parser::Tokenizer::skip") & E.M(lambda t: E.const(E.strip(t)["a"][0]) == 10, "skip('\\n')")
    ck.require_fact("V2.line-isolated", fl, work, lf, True, "parse/return", min_sites=3, history=True)
    mh = ck.local_defs(op).get("maxHeaderLength", [])
    mi = ck.local_defs(op).get("maxInteriorLength", [])
    if mh and E.const(mh[0]) == 107 and mi and "maxHeaderLength" in E.mentions(mi[0]) and any(E.const(n) == 2 for n in E.walk(mi[0])):
        ck.ok("V2.length-limit", op.where(), "maxHeaderLength == 107 and maxInteriorLength = maxHeaderLength - magic - 2")
    else:
        ck.violation("V2.length-limit", "V2|One::Parse|length-limit", op.where(), "the v1 line limit is no longer 107 bytes including CRLF (%s / %s)" % ([E.key(t) for t in mh], [E.key(t) for t in mi]))
    insuff = lambda ev: ev.get("e") == "throw" and "InsufficientInput" in E.key(ev.get("x"))
    ck.require_fact("V2.need-more-only-at-end", fl, insuff, E.m_calls("Parser::Tokenizer::atEnd"), True, "throw InsufficientInput", why="(a malformed complete line would wait for more bytes forever)")
    for s in fl.find(ev_return()):
        if "Parser::Tokenizer::parsedSize" in E.mentions(s.ev.get("x")):
            ck.ok("V2.consumed-size", s.where(), "v1 consumed size is tok.parsedSize()")
        else:
            ck.violation("V2.consumed-size", "V2|One::Parse|consumed-size", s.where(), "v1 parser no longer reports tok.parsedSize()")

    ck.rule("V3 Two::Parse: the header block is read (pstring16) only after version == 2, command <= cmdProxy, family <= afUnix and proto <= tpDgram passed; "
            "addresses/TLVs are parsed from a tokenizer over that length-delimited block only; consumed size is tokHeader.parsed()")
    tp = facts.fn(P2 + "Parse")
    fl = ck.flow(tp)
    blk = ev_call("Parser::BinaryTokenizer::pstring16")
    ck.require_fact("V3.field-gates", fl, blk, E.m_cmp("==", E.m_is_ref("version"), E.m_const(2)), True, "pstring16(header)", why="(other versions would be parsed as v2)")
    for var, cname in (("command", "cmdProxy"), ("family", "afUnix"), ("proto", "tpDgram")):
        g = E.M(lambda t, var=var, cname=cname: E.strip(t).get("k") == "bin" and E.strip(t).get("op") == "<" and E.m_is_ref(var)(E.strip(t)["r"]) and
                E.strip(E.strip(t)["l"]).get("k") == "ref" and E.strip(E.strip(t)["l"]).get("d", "").endswith("::" + cname), "(%s < %s)" % (cname, var))
        ck.require_fact("V3.field-gates", fl, blk, g, False, "pstring16(header)", why="(invalid %s accepted)" % var)
    lt = ck.local_defs(tp).get("leftoverTok", [])
    if lt and all(E.strip(t).get("k") == "ctor" and E.m_is_ref("rawHeader")(E.strip(t)["a"][0]) for t in lt) and \
            all(E.strip(t).get("f") == "Parser::BinaryTokenizer::pstring16" for t in ck.local_defs(tp).get("rawHeader", [None]) if t is not None):
        ck.ok("V3.bounded-block", tp.where(), "addresses and TLVs are read from BinaryTokenizer(rawHeader) where rawHeader = pstring16()")
    else:
        ck.violation("V3.bounded-block", "V3|Two::Parse|bounded-block", tp.where(), "the address/TLV tokenizer is no longer built over the length-delimited header block")
    for s in fl.find(ev_call(P2 + "ParseAddresses")) + fl.find(ev_call(P2 + "ParseTLVs")):
        a = E.strip(s.ev["x"])["a"]
        if any(E.m_is_ref("leftoverTok")(x) for x in a):
            ck.ok("V3.bounded-block", s.where(), "%s reads from leftoverTok" % E.strip(s.ev["x"])["f"].split("::")[-1])
        else:
            ck.violation("V3.bounded-block", "V3|Two::Parse|tokenizer-arg", s.where(), "%s no longer reads from the bounded tokenizer" % E.strip(s.ev["x"])["f"])
    for s in fl.find(ev_return()):
        if "Parser::BinaryTokenizer::parsed" in E.mentions(s.ev.get("x")):
            ck.ok("V3.consumed-size", s.where(), "v2 consumed size is tokHeader.parsed()")
        else:
            ck.violation("V3.consumed-size", "V3|Two::Parse|consumed-size", s.where(), "v2 parser no longer reports tokHeader.parsed()")

    ck.rule("V4 ProxyProtocol::Parse: `invalid magic` is thrown only when at least Two::Magic().length() bytes are buffered, otherwise more input is requested")
    pp = facts.fn("ProxyProtocol::Parse")
    fl = ck.flow(pp)
    bad_magic = lambda ev: ev.get("e") == "throw" and "InsufficientInput" not in E.key(ev.get("x"))
    enough = E.M(lambda t: E.strip(t).get("k") == "bin" and E.strip(t).get("op") == "<" and "SBuf::length" in E.mentions(E.strip(t)["l"]) and P2 + "Magic" in E.mentions(E.strip(t)["r"]), "buf.length() < Two::Magic().length()")
    ck.require_fact("V4.magic", fl, bad_magic, enough, False, "throw invalid magic", why="(a short prefix of a valid header would be rejected)")
    ck.require_fact("V4.magic", fl, insuff, enough, True, "throw InsufficientInput")
    ck.rule("V5 Two::ParseTLVs: the TLV loop ends only with tok.atEnd() established (every byte of the header block is either decoded as part of a TLV or makes the "
            "tokenizer throw): a loop bound such as 'more than 3 bytes left' silently drops a final empty-value TLV and accepts 1-2 stray trailing bytes")
    tl = facts.fn("ProxyProtocol::Two::ParseTLVs")
    at_end = E.M(lambda t: E.strip(t).get("k") == "call" and E.strip(t).get("f", "").endswith("BinaryTokenizer::atEnd"), "tok.atEnd()")
    tfl = ck.flow(tl)
    for st in ck.sites(tfl, ev_exit(("ret", "fall")), "exit", 1):
        if st.has(at_end, True):
            ck.ok("V5.tlvs-consume-block", st.where(), "ParseTLVs returns only with tok.atEnd()")
        else:
            ck.violation("V5.tlvs-consume-block", "V5|ParseTLVs|exit-without-atEnd", st.where(),
                         "ParseTLVs can return while bytes of the header block remain undecoded (facts: %s)" % ", ".join(st.fact_keys())[:160], tfl.witness(st))

    ck.rule("V6 TABLE Header::addressFamily (the v1 family check compares it with the declared TCP4/TCP6): over all assignments of {src,dst}.{isIPv4,isIPv6} the returned "
            "constant is \"6\" exactly when both are IPv6, \"4\" exactly when both are IPv4, and the mixed marker otherwise")
    hf = ck.facts(["src/proxyp/Header.cc"]).fn("ProxyProtocol::Header::addressFamily")
    consts = {}
    for b in hf.blocks.values():
        for ev in b["ev"]:
            if ev.get("e") == "decl" and E.strip(ev.get("init") or {}).get("k") == "ctor":
                a = E.strip(ev["init"]).get("a", [])
                if len(a) == 1 and E.strip(a[0]).get("k") == "str":
                    consts[ev["d"]] = E.strip(a[0])["v"]
    rets = [ev for b in hf.blocks.values() for ev in b["ev"] if ev.get("e") == "ret"]
    ck.need(len(rets) == 1 and len(consts) >= 3, "C38: addressFamily no longer returns one expression over three constant markers")

    def value(t, asg):
        t = E.strip(t)
        if t.get("k") == "cond":
            def leaf(x):
                x = E.strip(x)
                if x.get("k") == "call" and x.get("f") in ("Ip::Address::isIPv4", "Ip::Address::isIPv6"):
                    o = E.strip(x.get("o"))
                    who = "src" if "sourceAddress" in E.key(o) else ("dst" if "destinationAddress" in E.key(o) else None)
                    return asg.get((who, x["f"][-4:]))
                return None
            c = E.eval3(t["c"], leaf)
            if c is None:
                raise ck.broken("C38: addressFamily tests something other than the two addresses' families: %s" % E.key(t["c"])[:100])
            return value(t["t"] if c else t["f"], asg)
        if t.get("k") == "ref" and t.get("d") in consts:
            return consts[t["d"]]
        raise ck.broken("C38: addressFamily returns an unrecognised expression: %s" % E.key(t)[:100])
    bad = []
    fams = ("IPv4", "IPv6")
    for sf in fams:
        for df in fams:
            asg = {("src", "IPv4"): sf == "IPv4", ("src", "IPv6"): sf == "IPv6", ("dst", "IPv4"): df == "IPv4", ("dst", "IPv6"): df == "IPv6"}
            got = value(rets[0]["x"], asg)
            want = "4" if sf == df == "IPv4" else ("6" if sf == df == "IPv6" else None)
            okv = (got == want) if want else (got not in ("4", "6"))
            if not okv:
                bad.append("src=%s dst=%s -> %r" % (sf, df, got))
    if not bad:
        ck.ok("V6.family-table", hf.where(), "addressFamily: 4/6 only when both addresses have that family (4 assignments)")
    else:
        ck.violation("V6.family-table", "V6|addressFamily|table", hf.where(), "addressFamily decision table differs from the reference: %s (a `PROXY TCP4` header with one IPv6 address passes the family check)" % "; ".join(bad))
    ck.rule("V7 Parser::BinaryTokenizer::want (every PROXY v2 field, address block and TLV is read through it): InsufficientInput -- which callers translate into "
            "\"wait for more bytes\" -- is thrown only with expectMore_ established true. Two::Parse reads the address block and the TLVs from the already complete header "
            "slice with expectMore = false: there a short field must be a parse error, otherwise a malformed header keeps the connection waiting for ever")
    bt = ck.facts(["src/parser/BinaryTokenizer.cc"], whole=False)
    want = bt.fn("Parser::BinaryTokenizer::want")
    insufficient = lambda ev: ev.get("e") == "throw" and "InsufficientInput" in E.key(ev.get("x") or {})
    ck.require_fact("V7.need-more-only-if-more-expected", ck.flow(want), insufficient, E.m_is_mem("Parser::BinaryTokenizer::expectMore_"), True, "throw InsufficientInput()",
                    why="(a tokenizer over complete input would ask for more bytes instead of rejecting)")

    ck.assume("prefix consistency and decoded == encoded over all byte prefixes are not decided; BinaryTokenizer's own bounds checks are trusted")
