"""C11 Responses forbidden to be stored are never served from cache (DESIGN.md section 5, C11): store-decision gates."""
from .. import expr as E
from ..flow import ev_call, ev_return, ev_any

MAKE = "HttpStateData::ReuseDecision::make"
CC = "Http::Message::cache_control"
REQ = "Client::request"
PUBLISHERS = {"StoreEntry::makePublic", "StoreEntry::cacheNegatively", "StoreEntry::setPublicKey"}


def ev_ebit_set(enumerator):
    """EBIT_SET(x->flags, K): `StoreEntry::flags |= (1 << K)` (K resolved as an enumerator reference)"""
    def p(ev):
        if ev.get("e") != "asg" or ev.get("op") != "|=":
            return False
        return E.root_decl(ev.get("lhs"))[1] == "StoreEntry::flags" and enumerator in E.mentions(ev.get("rhs"))
    return p


def case_value(ck, fn, enumerator):
    """constant of the `case <enumerator>:` label in fn (for enums that have no name in the facts index)"""
    vs = {b["case"].get("v") for b in fn.blocks.values() if "case" in b and enumerator in E.mentions(b["case"].get("x"))}
    ck.need(len(vs) == 1 and None not in vs, "%s: no `case %s` in %s" % (ck.pid, enumerator, fn.name))
    return vs.pop()


def caching_sites(fl, noncaching):
    """make(answer,...) calls / `return <answer>` whose answer is not provably one of the non-caching answers"""
    out = []
    for s in fl.sites:
        ev = s.ev
        if ev_call(MAKE)(ev):
            a0 = E.strip(E.strip(ev["x"])["a"][0])
        elif ev.get("e") == "ret" and E.const(ev.get("x")) is not None:
            a0 = E.strip(ev["x"])
        else:
            continue
        c = E.const(a0)
        if c is None and isinstance(a0, dict) and a0.get("k") == "ref" and isinstance(s.env.get(a0.get("d")), tuple):
            c = s.env[a0["d"]][1]
        if c not in noncaching:
            out.append(s)
    return out


def run(ck):
    facts = ck.facts(["src/http.cc", "src/HttpRequest.cc", "src/client_side_request.cc", "src/store.cc", "src/HttpHdrCc.cc"], whole=True)
    ans = facts.enum("HttpStateData::ReuseDecision::Answers")
    for k in ("reuseNot", "cachePositively", "cacheNegatively", "doNotCacheButShare"):
        ck.need(k in ans, "C11: ReuseDecision::%s vanished" % k)
    noncaching = {ans["reuseNot"], ans["doNotCacheButShare"]}

    # ------------------------------------------------------------------ S: HttpStateData::reusableReply scenarios
    rr = facts.fn("HttpStateData::reusableReply")
    answer_locals = set()
    for b in rr.blocks.values():
        for ev in b["ev"]:
            if ev_call(MAKE)(ev):
                a0 = E.strip(E.strip(ev["x"])["a"][0])
                if a0.get("k") == "ref" and a0.get("dk") == "local":
                    answer_locals.add(a0["d"])
    of_reply = ck.m_closure(rr, "Client::finalReply") & ~E.m_mentions(REQ)
    req_set = E.m_is_mem(REQ)
    req_cc = E.m_is_mem(CC) & E.m_mentions(REQ)
    rep_cc = E.m_is_mem(CC) & of_reply
    rcall = lambda name: E.m_calls("HttpHdrCc::" + name) & of_reply
    overrides_off = [(E.m_mentions_any("RefreshPattern::(anonymous struct)::ignore_no_store", "RefreshPattern::(anonymous struct)::ignore_private"), False),
                     (E.m_is_mem("HttpStateData::ignoreCacheControl"), False)]
    auth = E.m_is_mem("RequestFlags::auth")
    auth_sent = E.m_is_mem("RequestFlags::authSent")
    flags = mayflags(ck, rr)
    ck.need(flags, "C11: reusableReply has no constant-initialised flag local (mayStore idiom) any more; S4 needs re-deriving")
    scenarios = [
        ("S1.request-no-store", "the request carries Cache-Control: no-store",
         [(req_set, True), (req_cc, True), (E.m_calls("HttpHdrCc::hasNoStore") & E.m_mentions(REQ), True)] + overrides_off, None),
        ("S2.reply-no-store", "the reply carries Cache-Control: no-store", [(rep_cc, True), (rcall("hasNoStore"), True)] + overrides_off, None),
        ("S3.reply-private", "the reply carries Cache-Control: private", [(rep_cc, True), (rcall("hasPrivate"), True)] + overrides_off, None),
        ("S4.authenticated", "request->flags.auth and no exemption sets %s" % "/".join(sorted(flags)), [(req_set, True), (auth, True)], flags),
        ("S4.authenticated", "request->flags.authSent and no exemption sets %s" % "/".join(sorted(flags)), [(req_set, True), (auth, False), (auth_sent, True)], flags),
    ]
    ck.rule("S1-S4 UNREACH(HttpStateData::reusableReply): no decision.make(cachePositively|cacheNegatively)/constant caching return is reachable when "
            "(S1) request CC has no-store, (S2) reply CC has no-store, (S3) reply CC has private [refresh_pattern ignore-no-store/ignore-private and "
            "Surrogate ignoreCacheControl cut], (S4) request->flags.auth or authSent and every assignment to the exemption flag local(s) is read as false")
    base = ck.flow(rr, tracked=answer_locals)
    pos = caching_sites(base, noncaching)
    ck.need(len(pos) >= 3, "C11: expected >= 3 caching decisions in reusableReply, found %d" % len(pos))
    for rule, text, assume, frozen in scenarios:
        for m, v in assume:  # every scenario atom must still be tested by the function, else the scenario is not expressible
            ck.need(ck.trigger_edges(rr, m, v), "C11: reusableReply no longer tests %s (scenario %s)" % (m.desc, rule))
        kw = {"classify": (lambda d, rhs, env, frozen=frozen: ("c", 0) if d in frozen else None)} if frozen else {}
        fl = ck.flow(rr, tracked=answer_locals | flags, assume=assume, **kw)
        bad = caching_sites(fl, noncaching)
        if not bad:
            ck.ok(rule, rr.where(), "reusableReply: no caching decision reachable when %s" % text)
        for s in bad:
            ck.violation(rule, "%s|reusableReply|caching-decision-reachable" % rule, s.where(),
                         "reusableReply: '%s' is reachable although %s (the response would be stored and served to later requests)" % (s.desc()[:90], text), fl.witness(s))

    ck.rule("S4x EXACT(HttpStateData::reusableReply): every assignment of a non-false value to the exemption flag local is dominated by an atom that is "
            "exactly reply-CC hasPublic() | hasMustRevalidate() | hasSMaxAge() (| hasNoCacheWithoutParameters(), the documented USE_HTTP_VIOLATIONS exemption backed by X1), "
            "or a local whose every definition is exactly one such call")
    allowed = {"HttpHdrCc::" + n for n in ("hasPublic", "hasMustRevalidate", "hasSMaxAge", "hasNoCacheWithoutParameters")}
    defs = ck.local_defs(rr)

    def exact_call(t):
        t = E.strip(t)
        return isinstance(t, dict) and t.get("k") == "call" and t.get("f") in allowed and of_reply(t)

    def exact(t):
        t = E.strip(t)
        if exact_call(t):
            return True
        if isinstance(t, dict) and t.get("k") == "ref" and t.get("dk") in ("local", "static"):
            ds = defs.get(t["d"], [])
            return bool(ds) and all(exact_call(x) for x in ds)
        return False

    def sets_flag(ev):
        if ev.get("e") == "decl":
            return ev.get("d") in flags and ev.get("init") is not None and E.const(ev.get("init")) != 0
        if ev.get("e") == "asg":
            l = E.strip(ev.get("lhs"))
            return isinstance(l, dict) and l.get("k") == "ref" and l.get("d") in flags and E.const(ev.get("rhs")) != 0
        return False
    for s in ck.sites(base, sets_flag, "<exemption flag> = true", 3):
        true_atoms = [base.trees[f[1]] for f in s.facts if f[0] == "A" and f[2] is True]
        good = [t for t in true_atoms if exact(t)]
        if good:
            ck.ok("S4x.exemption-exact", s.where(), "reusableReply: '%s' only under %s" % (s.desc(), E.key(good[0])))
            continue
        inexact = []
        for t in true_atoms:
            st = E.strip(t)
            if isinstance(st, dict) and st.get("k") == "ref" and st.get("d") in defs and any("HttpHdrCc::" in m for m in ck.closure_mentions(rr, st)):
                inexact.append("%s := %s" % (st["d"], " / ".join(E.key(x) for x in defs[st["d"]])))
        ck.violation("S4x.exemption-exact", "S4x.exemption-exact|reusableReply|flag-set-without-exact-directive", s.where(),
                     "reusableReply: '%s' is reachable without exactly one of hasPublic/hasMustRevalidate/hasSMaxAge established on every path; inexact guards: %s; "
                     "facts here: %s (an authenticated response would be stored on another directive)"
                     % (s.desc(), "; ".join(inexact) or "none", ", ".join(s.fact_keys())[:300]), base.witness(s))

    # ------------------------------------------------------------------ P: only the decision publishes
    ck.rule("P1 HttpStateData::haveParsedReplyHeaders switches on reusableReply(); under reuseNot/doNotCacheButShare no makePublic/cacheNegatively/setPublicKey "
            "is reachable and makePrivate is on all paths; WHO(reusableReply)={haveParsedReplyHeaders}; WHO(makePublic, cacheNegatively) = confirmed set")
    hp = facts.fn("HttpStateData::haveParsedReplyHeaders")
    sw = [b for b in hp.blocks.values() if b.get("term", {}).get("k") == "SwitchStmt" and E.m_calls("HttpStateData::reusableReply")(b["term"]["c"])]
    ck.need(len(sw) == 1, "C11: haveParsedReplyHeaders no longer switches on reusableReply()")
    publish = ev_call(PUBLISHERS)
    ck.sites(ck.flow(hp), publish, "makePublic|cacheNegatively", 2)
    for k in ("reuseNot", "doNotCacheButShare"):
        fl = ck.flow(hp, switch_assume=lambda cond, k=k: ans[k] if E.m_calls("HttpStateData::reusableReply")(cond) else None, tracked=mayflags(ck, hp),
                     markers={"private": ev_call("StoreEntry::makePrivate")})
        ck.require_unreachable("P1.publish-only-if-decided", fl, publish, "publish", "reusableReply()==%s" % k,
                               why="(a response the decision refused would get a public key)")
        ck.require_passed("P1.refused-made-private", fl, lambda ev: ev.get("e") == "exit" and ev.get("kind") in ("ret", "fall"), "private", "exit")
    ck.who_calls("P1.who-decides", facts, "HttpStateData::reusableReply", {"HttpStateData::haveParsedReplyHeaders": "the only consumer of the decision"}, kinds=("call", "ref"))
    ck.who_calls("P1.who-publishes", facts, "StoreEntry::makePublic", {
        "HttpStateData::haveParsedReplyHeaders": "after reusableReply()==cachePositively", "StoreEntry::cacheNegatively": "wrapper, see below",
        "Ftp::Gateway::haveParsedReplyHeaders": "FTP gateway replies (no HTTP cache-control)", "WhoisState::readReply": "whois replies",
        "StoreEntry::adjustVary": "Vary marker object (no response body of the origin)",
        "Store::Controller::allowCollapsing": "collapsed_forwarding (off by default); the entry is re-keyed by haveParsedReplyHeaders"}, min_callers=2, kinds=("call", "ref"))
    ck.who_calls("P1.who-publishes", facts, "StoreEntry::cacheNegatively", {"HttpStateData::haveParsedReplyHeaders": "after reusableReply()==cacheNegatively"}, kinds=("call", "ref"))
    ck.who_calls("P1.who-publishes", facts, "StoreEntry::setPublicKey", {
        "StoreEntry::makePublic": "the gated wrapper (callers listed above)", "storeCreateEntry": "only with request flags.cachable (Q1)",
        "MimeIcon::load": "squid's own icon objects (no origin response)"}, min_callers=2, kinds=("call", "ref"))
    ck.who_calls("P1.who-publishes", facts, "StoreEntry::forcePublicKey", {
        "StoreEntry::setPublicKey": "the only key installer", "StoreEntry::clearPublicKeyScope": "re-keys an entry that is already public"}, min_callers=2, kinds=("call", "ref"))

    # ------------------------------------------------------------------ Q: request no-store vetoes cachability
    ck.rule("Q1 UNREACH(HttpRequest::maybeCacheable, http/https, !flags.ignoreCc, cache_control->hasNoStore() -> return true); "
            "clientInterpretRequestHeaders: cachable.support() only with maybeCacheable() true, RESPONSE(false -> cachable.veto()); WHO(SupportOrVeto::support); "
            "storeCreateEntry: setPublicKey only with flags.cachable true")
    mc = facts.fn("HttpRequest::maybeCacheable")
    on_scheme = lambda cond: "AnyP::Uri::getScheme" in E.mentions(cond)
    ck.need(any(on_scheme(b["term"]["c"]) for b in mc.blocks.values() if b.get("term", {}).get("k") == "SwitchStmt"), "C11: maybeCacheable no longer switches on the URL scheme")
    ck.sites(ck.flow(mc), ev_return(E.m_const(1)), "return true", 1)
    own_cc = E.m_is_mem(CC)
    for scheme in ("AnyP::PROTO_HTTP", "AnyP::PROTO_HTTPS"):
        v = case_value(ck, mc, scheme)
        fl = ck.flow(mc, switch_assume=lambda cond, v=v: v if on_scheme(cond) else None,
                     assume=[(E.m_is_mem("RequestFlags::ignoreCc"), False), (own_cc, True), (E.m_calls("HttpHdrCc::hasNoStore"), True)])
        ck.require_unreachable("Q1.no-store-request-not-cacheable", fl, lambda ev: ev.get("e") == "ret" and E.const(ev.get("x")) != 0, "return <non-false>",
                               "%s, !ignoreCc, request CC no-store" % scheme.split("::")[-1], why="(a no-store request would be marked cachable)")
    ck.need(ck.trigger_edges(mc, E.m_calls("HttpHdrCc::hasNoStore"), True), "C11: maybeCacheable no longer tests hasNoStore()")
    cih = facts.fn("clientInterpretRequestHeaders")
    cachable = E.m_is_mem("RequestFlags::cachable")
    may = E.m_calls("HttpRequest::maybeCacheable")
    ck.require_fact("Q1.support-needs-maybeCacheable", ck.flow(cih), ev_call("SupportOrVeto::support", obj=cachable), may, True, "cachable.support()",
                    why="(the request would be cachable although maybeCacheable() refused)")
    ck.require_response("Q1.veto-if-not-cacheable", cih, may, False, ev_call("SupportOrVeto::veto", obj=cachable), "cachable.veto()")
    ck.who_calls("Q1.who-supports", facts, "SupportOrVeto::support", {"clientInterpretRequestHeaders": "after maybeCacheable()"}, kinds=("call", "ref"))
    sce = facts.fn("storeCreateEntry")
    ck.require_fact("Q1.public-key-needs-cachable", ck.flow(sce), ev_call("StoreEntry::setPublicKey"), cachable, True, "setPublicKey()",
                    why="(the entry of a non-cachable request would be public from the start)")

    # ------------------------------------------------------------------ X: the documented no-cache exemption is backed by forced revalidation
    ck.rule("X1 haveParsedReplyHeaders: RESPONSE(reply CC no-cache without parameters, or private -> EBIT_SET(entry->flags, ENTRY_REVALIDATE_ALWAYS))")
    always = ev_ebit_set("ENTRY_REVALIDATE_ALWAYS")
    ck.sites(ck.flow(hp), always, "EBIT_SET(ENTRY_REVALIDATE_ALWAYS)", 1)
    for callee in ("HttpHdrCc::hasNoCacheWithoutParameters", "HttpHdrCc::hasPrivate"):
        if not ck.trigger_edges(hp, ck.m_result_of(hp, callee), True, ("IfStmt", "BinaryOperator")):
            ck.violation("X1.no-cache-revalidates", "X1|haveParsedReplyHeaders|%s|not-consulted" % callee, hp.where(),
                         "haveParsedReplyHeaders sets ENTRY_REVALIDATE_ALWAYS but no branch depends on exactly reply CC %s() any more" % callee.split("::")[-1])
            continue
        ck.require_response("X1.no-cache-revalidates", hp, ck.m_result_of(hp, callee), True, always, "EBIT_SET(ENTRY_REVALIDATE_ALWAYS)", term_kinds=("IfStmt", "BinaryOperator"),
                            why="(a stored no-cache/private response would be served without revalidation)")
    # ------------------------------------------------------------------ D: the parser records every restrictive directive it recognises
    ck.rule("D1 MUST-SET(HttpHdrCc::parse): from `case CC_PRIVATE|CC_NO_STORE|CC_MUST_REVALIDATE|CC_PROXY_REVALIDATE` of the switch over the directive type, every path "
            "to the function's end passes setMask(<that type>, true) (directly, or through the directive's own inline setter called with true) - "
            "a malformed or unexpected argument must not lose the restrictive bit")
    cct = facts.enum("HttpHdrCcType")
    cp = facts.fn("HttpHdrCc::parse")
    sw = [b for b in cp.blocks.values() if b.get("term", {}).get("k") == "SwitchStmt"]
    ck.need(len(sw) == 1, "C11: HttpHdrCc::parse no longer has exactly one switch")
    swc = E.strip(sw[0]["term"]["c"])
    ck.need(isinstance(swc, dict) and swc.get("k") == "ref" and swc.get("dk") == "local"
            and all(E.m_calls("ccTypeByName")(d) or E.m_calls("HttpHdrCc::ccTypeByName")(d) for d in ck.local_defs(cp).get(swc["d"], [None])),
            "C11: HttpHdrCc::parse no longer switches on a local defined by ccTypeByName()")
    tvar = swc["d"]
    setters = {"CC_PRIVATE": "HttpHdrCc::Private", "CC_NO_STORE": "HttpHdrCc::noStore", "CC_MUST_REVALIDATE": "HttpHdrCc::mustRevalidate",
               "CC_PROXY_REVALIDATE": "HttpHdrCc::proxyRevalidate"}
    for name, setter in sorted(setters.items()):
        ck.need(name in cct, "C11: HttpHdrCcType::%s vanished" % name)
        K = cct[name]
        ck.need(any(c[0] == setter for c in facts.callers("HttpHdrCc::setMask")), "C11: %s no longer calls setMask()" % setter)
        starts = [b["id"] for b in cp.blocks.values() if "case" in b and b["case"].get("v") == K]
        ck.need(len(starts) == 1, "C11: HttpHdrCc::parse has no single `case %s`" % name)

        def records(ev, K=K, setter=setter):
            if ev.get("e") != "call":
                return False
            x = E.strip(ev.get("x"))
            a = x.get("a", [])
            if x.get("f") == "HttpHdrCc::setMask" and len(a) >= 1:
                a0 = E.strip(a[0])
                same = E.const(a0) == K or (isinstance(a0, dict) and a0.get("k") == "ref" and a0.get("d") == tvar)
                return same and (len(a) < 2 or E.const(a[1]) == 1)   # newval defaults to true
            if x.get("f") == setter:   # Private(const String &) sets unconditionally; the others take the new bool value
                return setter == "HttpHdrCc::Private" or (len(a) == 1 and E.const(a[0]) == 1)
            return False
        fl = ck.flow(cp, start=starts[0], switch_assume=lambda cond, K=K: K if E.strip(cond).get("d") == tvar else None, markers={"recorded": records})
        ck.require_passed("D1.directive-recorded", fl, lambda ev: ev.get("e") == "exit" and ev.get("kind") in ("ret", "fall"), "recorded", "end of parse() from case %s" % name,
                          why="(a Cache-Control: %s directive with an unexpected argument would be forgotten and the response stored/served)" % name[3:].lower().replace("_", "-"))
    ck.assume("the inline HttpHdrCc accessors (noStore(v)/hasNoStore() ...) are paired with their enumerator by name; their bodies (HttpHdrCc.h) get no CFG, only the call index is checked")
    ck.assume("default settings: refresh_pattern ignore-no-store/ignore-private/store-stale, Surrogate-Control processing (ignoreCacheControl), flags.ignoreCc and collapsed_forwarding are cut")
    ck.assume("documented exception (USE_HTTP_VIOLATIONS): an authenticated response with CC no-cache (no parameters) is stored, but X1 forces its revalidation on every hit")
    ck.assume("HttpHdrCc parsing of the directives (C29) and the end-to-end 'later request reaches the origin' are not decided; no-cache=\"fields\" is not part of C11")


def mayflags(ck, fn):
    """bool locals initialised to a constant and tested as a branch atom (flag-local idiom, e.g. mayStore)"""
    out = set()
    for n, ds in ck.local_defs(fn).items():
        if ds and all(E.const(d) is not None for d in ds) and ck.trigger_edges(fn, E.m_is_ref(n), True):
            out.add(n)
    return out
