"""C48 Byte-string values behave as independent values: copy-on-write clause of SBuf (DESIGN.md 5/C48)."""
from .. import expr as E
from ..flow import ev_call, ev_return

S = "SBuf::"
OWN = {S + "cow", S + "rawSpace", S + "reAlloc", S + "reserveCapacity", S + "reserveSpace", S + "reserve", S + "rawAppendStart"}
BLOB_MUTATORS = {"MemBlob::append", "MemBlob::appended", "MemBlob::consume", "MemBlob::syncSize", "MemBlob::clear"}


def through_store(t):
    """lvalue designates storage reached through this->store_ (the shared MemBlob): store_->mem[..], store_->size"""
    for n in E.walk(t):
        if n.get("k") == "mem" and n.get("m") == "SBuf::store_":
            return True
    return False


def run(ck):
    facts = ck.facts(["src/sbuf/SBuf.cc", "src/sbuf/MemBlob.cc"], whole=True)
    fns = [f for f in facts.all_fns() if f.name.startswith(S) and f.file.endswith("sbuf/SBuf.cc") and "::(lambda)" not in f.name]
    ck.need(len(fns) >= 40, "C48: SBuf methods not found")

    ck.rule("S1 COW: in every SBuf method, a write through store_ (store_->mem[...] = , store_->size change, MemBlob::append/appended/consume/syncSize on store_) "
            "and every store through the pointer returned by rawSpace()/bufEnd() happens only after the method made the blob exclusively usable on all paths: "
            "a call of cow()/rawSpace()/reAlloc()/reserve*(), or an established store_->LockCount() == 1, or an established store_->canAppend(...)")
    exclusive = E.M(lambda t: E.strip(t).get("k") == "bin" and E.strip(t).get("op") == "==" and "Lock::LockCount" in " ".join(E.mentions(t)) and E.const(E.strip(t)["r"]) == 1, "store_->LockCount() == 1")
    appendable = E.M(lambda t: E.strip(t).get("k") == "call" and E.strip(t).get("f") == "MemBlob::canAppend", "store_->canAppend()")
    n_sites = 0
    for fn in fns:
        fl = None
        for b in fn.blocks.values():
            for ev in b["ev"]:
                kind = None
                if ev.get("e") == "asg" and through_store(ev.get("lhs")) and not (E.strip(ev["lhs"]).get("k") == "mem" and E.strip(ev["lhs"]).get("m") == "SBuf::store_"):
                    kind = "write %s" % E.key(ev["lhs"])
                elif ev.get("e") == "asg" and any(c.get("f") in (S + "rawSpace", S + "bufEnd", S + "buf") for c in E.calls_in(ev.get("lhs"))):
                    kind = "write through %s" % E.key(ev["lhs"])
                elif ev.get("e") == "call":
                    x = E.strip(ev["x"])
                    if x.get("f") in BLOB_MUTATORS and "o" in x and through_store(x["o"]):
                        kind = "call %s" % x["f"]
                if kind is None:
                    continue
                if fn.name in (S + "SBuf", S + "~SBuf"):
                    continue
                n_sites += 1
                fl = fl or ck.flow(fn, markers={"own": ev_call(OWN)})
                for s in fl.sites:
                    if s.ev is not ev:
                        continue
                    inline_own = ev.get("e") == "asg" and any(c.get("f") in OWN for c in E.calls_in(ev.get("lhs")))
                    if inline_own or s.passed("own") or s.has(exclusive, True) or s.had(appendable, True):
                        ck.ok("S1.cow-before-write", s.where(), "%s: %s only after taking exclusive use of the blob" % (fn.name, kind))
                    else:
                        ck.violation("S1.cow-before-write", "S1|%s|%s" % (fn.name, kind.split(" ")[0] + ":" + kind.split(" ")[-1][:40]), s.where(),
                                     "%s: '%s' can modify a MemBlob shared with other SBufs: no cow()/rawSpace()/reAlloc() call, LockCount()==1 or canAppend() "
                                     "test on some path to it" % (fn.name, kind), fl.witness(s))
    ck.need(n_sites >= 6, "C48: only %d store write sites recognised in SBuf.cc" % n_sites)

    ck.rule("S2 cow(): returns without reallocating only with store_->LockCount() == 1 established; otherwise reAlloc() is on every remaining path; "
            "reAlloc() installs a fresh MemBlob; rawSpace() returns bufEnd() only after canAppend() succeeded or cow() ran")
    cow = facts.fn(S + "cow")
    fl = ck.flow(cow, markers={"realloc": ev_call(S + "reAlloc")}, track_markers=["realloc"])
    for s in ck.sites(fl, lambda ev: ev.get("e") == "exit" and ev.get("kind") in ("ret", "fall"), "exit", 2):
        if s.passed("realloc") or s.has(exclusive, True):
            ck.ok("S2.cow-exits", s.where(), "cow() leaves either after reAlloc() or with the blob exclusively owned")
        else:
            ck.violation("S2.cow-exits", "S2|cow|exit-shared", s.where(), "cow() can return with a still-shared blob and no reallocation", fl.witness(s))
    ra = facts.fn(S + "reAlloc")
    news = [ev for b in ra.blocks.values() for ev in b["ev"] if ev.get("e") == "decl" and "MemBlob" in ev.get("t", "") and any(n.get("k") == "new" for n in E.walk(ev.get("init")))]
    assigns = [ev for b in ra.blocks.values() for ev in b["ev"] if ev.get("e") == "call" and E.strip(ev["x"]).get("f", "").endswith("operator=") and E.m_is_mem("store_")(E.strip(ev["x"]).get("o"))]
    if news and assigns and all(E.m_is_ref(news[0]["d"])(E.strip(a["x"])["a"][0]) for a in assigns):
        ck.ok("S2.realloc-fresh", ra.where(), "reAlloc() replaces store_ by a newly allocated MemBlob")
    else:
        ck.violation("S2.realloc-fresh", "S2|reAlloc|fresh-blob", ra.where(), "reAlloc() no longer installs a newly allocated MemBlob into store_")
    rs = facts.fn(S + "rawSpace")
    fl = ck.flow(rs, markers={"cow": ev_call(S + "cow")}, track_markers=["cow"])
    for s in ck.sites(fl, ev_return(), "return", 2):
        if s.passed("cow") or s.had(appendable, True):
            ck.ok("S2.rawSpace", s.where(), "rawSpace() hands out bufEnd() after canAppend() or cow()")
        else:
            ck.violation("S2.rawSpace", "S2|rawSpace|unowned-tail", s.where(), "rawSpace() can hand out a writable tail pointer without canAppend()/cow()", fl.witness(s))

    ck.rule("S2b ALIASING: every SBuf method that copies from a caller-supplied buffer (another SBuf's buf(), a char* or a format argument) and may reallocate/shift its own blob "
            "(lowAppend/rawSpace/assign paths) first pins the source with a Locker on that same source pointer, so self-append/self-assign keep reading valid bytes")
    pinned = {"SBuf::append": ("const SBuf &", "S"), "SBuf::assign": ("const char *", "S"), "SBuf::vappendf": ("const char *", None), "SBuf::Printf": ("const char *", None)}
    npinned = 0
    for fn in fns:
        if fn.name not in pinned:
            continue
        for sigfrag in (pinned[fn.name][0],):
            if sigfrag not in fn.sig:
                continue
            mut = lambda ev: ev.get("e") == "call" and E.strip(ev["x"]).get("f") in (S + "lowAppend", S + "rawSpace", S + "cow", S + "clear", S + "vappendf")
            lock = lambda ev: ev.get("e") == "decl" and "Locker" in ev.get("t", "")
            fl_ = ck.flow(fn, markers={"pin": lock})
            sites_ = fl_.find(mut)
            if not sites_:
                continue
            npinned += 1
            for s_ in sites_:
                if s_.passed("pin"):
                    ck.ok("S2b.source-pinned", s_.where(), "%s(%s): source buffer is pinned by a Locker before '%s'" % (fn.name, fn.sig[:30], s_.desc()[:40]))
                else:
                    ck.violation("S2b.source-pinned", "S2b|%s|%s|unpinned" % (fn.name, fn.sig.split(",")[0].replace(" ", "")), s_.where(),
                                 "%s(%s) can shift/reallocate its blob ('%s') without a Locker on the source: appending an SBuf to itself (or a view of itself) reads moved/freed bytes"
                                 % (fn.name, fn.sig[:40], s_.desc()[:40]), fl_.witness(s_))
            # the Locker must pin the parameter's buffer (or our own buffer for format-string methods)
            for b_ in fn.blocks.values():
                for ev in b_["ev"]:
                    if lock(ev):
                        m_ = E.mentions(ev.get("init"))
                        want = pinned[fn.name][1]
                        if want is None or want in m_:
                            ck.ok("S2b.source-pinned", fn.where(ev["l"]), "Locker(this, %s)" % E.key(E.strip(ev["init"])["a"][-1])[:30])
                        else:
                            ck.violation("S2b.source-pinned", "S2b|%s|locker-arg" % fn.name, fn.where(ev["l"]), "the Locker in %s pins %s, not the source parameter" % (fn.name, E.key(ev.get("init"))[:60]))
    ck.need(npinned >= 4, "C48: only %d source-copying SBuf methods recognised" % npinned)

    ck.rule("S2c operator==: `return true` without comparing bytes only for the same blob AND the same offset AND equal lengths; otherwise the verdict is memcmp(buf(), S.buf(), length()) == 0")
    eq = facts.fn(S + "operator==")
    fle = ck.flow(eq)
    for s_ in ck.sites(fle, ev_return(), "return", 2):
        x_ = s_.ev.get("x")
        c_ = E.const(x_)
        if c_ == 1:
            same_store = s_.has(E.M(lambda t: E.strip(t).get("op") == "==" and sum(1 for n in E.walk(t) if n.get("k") == "mem" and n.get("m") == "SBuf::store_") == 2, "store_ == S.store_"), True)
            same_off = s_.has(E.M(lambda t: E.strip(t).get("op") == "==" and sum(1 for n in E.walk(t) if n.get("k") == "mem" and n.get("m") == "SBuf::off_") == 2, "off_ == S.off_"), True)
            same_len = s_.has(E.M(lambda t: E.strip(t).get("op") == "==" and sum(1 for n in E.walk(t) if n.get("k") == "call" and n.get("f") == "SBuf::length") == 2, "length() == S.length()"), True)
            if same_store and same_off and same_len:
                ck.ok("S2c.equality-fast-path", s_.where(), "fast `true` only for identical blob, offset and length")
            else:
                ck.violation("S2c.equality-fast-path", "S2c|operator==|fast-true", s_.where(),
                             "operator== returns true without comparing bytes although blob/offset/length identity is not all established (store %s, offset %s, length %s): "
                             "two different equal-length views of one blob compare equal" % (same_store, same_off, same_len))
        elif c_ is None:
            d_ = ck.local_defs(eq).get(E.strip(x_).get("d"), [x_]) if E.strip(x_).get("k") == "ref" else [x_]
            if all("memcmp" in E.mentions(t) for t in d_):
                ck.ok("S2c.equality-slow-path", s_.where(), "otherwise the verdict is the memcmp() result")
            else:
                ck.violation("S2c.equality-slow-path", "S2c|operator==|verdict", s_.where(), "operator== returns %s, not a memcmp() verdict" % E.key(x_))

    ck.rule("S3 MemBlob::append/appended modify the blob only past Must(willFit(n)); syncSize only with LockCount() <= 1")
    for name, guard in (("MemBlob::append", "MemBlob::willFit"), ("MemBlob::appended", "MemBlob::willFit")):
        fn = facts.fn(name)
        fl = ck.flow(fn)
        wr = lambda ev: ev.get("e") == "asg" and E.m_is_mem("size")(ev.get("lhs"))
        ck.require_fact("S3.blob-bounds", fl, wr, E.m_calls(guard), True, "size += n", why="(append past the blob capacity)")
    sy = facts.fn("MemBlob::syncSize")
    fl = ck.flow(sy)
    ck.require_fact("S3.blob-bounds", fl, lambda ev: ev.get("e") == "asg" and E.m_is_mem("size")(ev.get("lhs")),
                    E.M(lambda t: E.strip(t).get("k") == "bin" and E.strip(t).get("op") == "<" and E.const(E.strip(t)["l"]) == 1 and "Lock::LockCount" in " ".join(E.mentions(t)), "(1 < LockCount())"), False, "size = n")
    ck.rule("S4 ARITH(limit tests of SBuf methods cannot wrap): SBuf::size_type is 32 bits wide and unsigned. In a comparison, (a) a sum with a caller-supplied size "
            "(`pos + n > length()`) is allowed only if every parameter operand has an upper bound established on the path (P <= K, P < K); (b) `K - P` with K a constant "
            "(maxSize) only with P <= K established. Otherwise a huge argument wraps the test and the method goes on with a length/space beyond its blob instead of "
            "clamping or throwing (`substr(5, 0xfffffffe)`; `rawSpace(0xfffffff0)`)")
    n_arith = 0
    for f in fns:
        pnames = {p_["d"] for p_ in f.params if (p_.get("iw") or 0) == 32}
        if not pnames:
            continue
        cand = []
        for b in f.blocks.values():
            c = (b.get("term") or {}).get("c")
            if c is None:
                continue
            for leaf in E.leaves(c):
                lf = E.strip(leaf)
                if not (isinstance(lf, dict) and lf.get("k") == "bin" and lf.get("op") in ("<", "==")):
                    continue
                for n_ in E.walk(lf):
                    if n_.get("k") == "bin" and n_.get("op") in ("+", "-") and (n_.get("iw") or 0) == 32:
                        ops = [E.strip(n_["l"]), E.strip(n_["r"])]
                        raw = [o["d"] for o in ops if isinstance(o, dict) and o.get("k") == "ref" and o.get("dk") == "param" and o["d"] in pnames]
                        if n_["op"] == "+" and raw:
                            cand.append((b, n_, raw, "sum"))
                        elif n_["op"] == "-" and E.const(n_["l"]) is not None and isinstance(ops[1], dict) and ops[1].get("k") == "ref" and ops[1].get("d") in pnames and ops[1].get("dk") == "param":
                            cand.append((b, n_, [ops[1]["d"]], "difference"))
        if not cand:
            continue
        fl = ck.flow(f)
        for b, node, raw, kind in cand:
            n_arith += 1
            sts = [st for st in fl.sites if st.bid == b["id"]]
            states = [set(st.facts) for st in sts[-1:]] if sts else [set(fs) for nd, fs in fl.IN.items() if nd[0] == b["id"]]
            if not states:
                continue        # unreachable block
            limit = E.const(node["l"]) if kind == "difference" else (1 << 31)
            unbounded = []
            for pn in raw:
                ok = True
                for fs in states:
                    hi = None
                    for fc in fs:
                        if fc[0] != "A":
                            continue
                        t = E.strip(fl.trees[fc[1]])
                        if not (isinstance(t, dict) and t.get("k") == "bin" and t.get("op") == "<"):
                            continue
                        if E.m_is_ref(pn)(t["l"]) and E.const(t["r"]) is not None and fc[2] is True:
                            hi = min(hi, E.const(t["r"]) - 1) if hi is not None else E.const(t["r"]) - 1
                        if E.m_is_ref(pn)(t["r"]) and E.const(t["l"]) is not None and fc[2] is False:
                            hi = min(hi, E.const(t["l"])) if hi is not None else E.const(t["l"])
                    if hi is None or hi > limit:
                        ok = False
                if not ok:
                    unbounded.append(pn)
            where = f.where(b["term"].get("l"))
            if not unbounded:
                ck.ok("S4.limit-test-no-wrap", where, "%s: %s cannot wrap (its parameter operands are bounded on the path)" % (f.name, E.key(node)))
            else:
                ck.violation("S4.limit-test-no-wrap", "S4|%s|%s|%s" % (f.name, kind, ",".join(unbounded)), where, "%s tests a limit with the 32-bit unsigned %s %s although nothing bounds "
                             "%s on the path: a huge argument wraps the %s, the test passes and the method continues with a length/space beyond its storage instead of clamping or throwing"
                             % (f.name, kind, E.key(node), " / ".join(unbounded), kind))
    ck.need(n_arith >= 1, "C48: no additive limit test over a caller-supplied size found in SBuf.cc (reserveSpace's Must(length() <= maxSize - minSpace) vanished?)")

    ck.rule("S5 backward-scan cursors start inside the string: a pointer `start + P` formed from a caller-supplied position P that is then walked *backwards* (--cur, "
            "no end pointer protects the first dereference) is created only with P < length() established on the path (or P <= length() - X), or after P was clamped "
            "by `P = length() - X`, X a positive constant or the length of a needle known to be non-empty; with `P <= length()` only, the scan starts on the byte after the "
            "content (owned by a longer alias of the shared MemBlob) and may report the out-of-range index length()")
    n_cur = 0
    is_len = E.M(lambda t: E.strip(t).get("k") == "call" and E.strip(t).get("f") == "SBuf::length" and E.strip(E.strip(t).get("o") or {}).get("k") == "this", "length()")

    def margin(t):
        """X of `length() - X` if X is a positive constant or <param>.length(); else None"""
        t = E.strip(t)
        if not (isinstance(t, dict) and t.get("k") == "bin" and t.get("op") == "-" and is_len(t["l"])):
            return None
        x = E.strip(t["r"])
        if (E.const(x) or 0) >= 1:
            return ("const", None)
        if isinstance(x, dict) and x.get("k") == "call" and x.get("f") == "SBuf::length" and E.strip(x.get("o") or {}).get("dk") == "param":
            return ("call", x)
        return None
    for f in fns:
        pnames = {p_["d"] for p_ in f.params if (p_.get("iw") or 0) == 32}
        walked_back = {E.strip(ev["lhs"]).get("d") for b in f.blocks.values() for ev in b["ev"] if ev.get("e") == "asg" and ev.get("op") == "--" and E.strip(ev["lhs"]).get("k") == "ref"}
        for b in f.blocks.values():
            for ev in b["ev"]:
                init = E.strip(ev.get("init")) if ev.get("e") == "decl" else None
                if not (isinstance(init, dict) and init.get("k") == "bin" and init.get("op") == "+" and "*" in (ev.get("t") or "") and ev["d"] in walked_back):
                    continue
                ps = [E.strip(o)["d"] for o in (init["l"], init["r"]) if E.strip(o).get("k") == "ref" and E.strip(o).get("dk") == "param" and E.strip(o)["d"] in pnames]
                if len(ps) != 1:
                    continue
                P = ps[0]
                n_cur += 1
                inside = E.m_cmp("<", E.m_is_ref(P), is_len)
                inside2 = E.m_cmp("<", E.M(lambda t: margin(t) is not None, "length() - X"), E.m_is_ref(P))
                clamp = lambda e, P=P: e.get("e") == "asg" and e.get("op") == "=" and E.m_is_ref(P)(e.get("lhs")) and margin(e.get("rhs")) is not None
                fl = ck.flow(f, track_atoms={"in": inside, "in2": inside2}, markers={"clamp": clamp}, track_markers=["clamp"])
                needles = [m[1] for m in [margin(n_) for bb in f.blocks.values() for tr in [e.get("rhs") for e in bb["ev"]] + [(bb.get("term") or {}).get("c")] for n_ in E.walk(tr)] if m and m[0] == "call"]
                for st in ck.sites(fl, lambda e, ev=ev: e is ev, "%s = ... + %s" % (ev["d"], P), 1):
                    nonempty = all(st.has(E.M(lambda t, x=x: E.key(t) == E.key(x), E.key(x)), True) for x in needles)
                    good = st.tracked("in") is True or ((st.tracked("in2") is False or st.env.get("#clamp") == 1) and nonempty)
                    if good:
                        ck.ok("S5.cursor-inside", st.where(), "%s: the backward cursor %s starts inside the content" % (f.name, ev["d"]))
                    else:
                        ck.violation("S5.cursor-inside", "S5.cursor-inside|%s|%s" % (f.name, ev["d"]), st.where(), "%s: the backward-scan cursor '%s = ... + %s' can be created without "
                                     "%s < length() (or a clamp to length() - X, X > 0) on the path: the scan may start on the byte just past the string's content"
                                     % (f.name, ev["d"], P, P), fl.witness(st))
    ck.need(n_cur >= 3, "C48: expected the backward cursors of rfind/findLastOf/findLastNotOf, found %d" % n_cur)

    ck.assume("equivalence with std::string over operation histories is not decided; only the copy-on-write discipline of the SBuf/MemBlob implementation files")
