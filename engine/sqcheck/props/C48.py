"""C48 Byte-string values behave as independent values: copy-on-write clause of SBuf (DESIGN.md 5/C48)."""
from .. import expr as E
from ..flow import ev_call, ev_return

S = "SBuf::"
OWN = {S + "cow", S + "rawSpace", S + "reAlloc", S + "reserveCapacity", S + "reserveSpace", S + "reserve", S + "rawAppendStart"}
BLOB_MUTATORS = {"MemBlob::append", "MemBlob::appended", "MemBlob::consume", "MemBlob::syncSize", "MemBlob::clear"}


def through_store(t):
    """lvalue designates storage reached through this->store_ (the shared MemBlob): store_->mem[..], store_->size"""
    for n in E.walk(t):
        if n.get("k") == "mem" and n.get("m") == "SBuf::store_":
            return True
    return False


def run(ck):
    facts = ck.facts(["src/sbuf/SBuf.cc", "src/sbuf/MemBlob.cc"], whole=True)
    fns = [f for f in facts.all_fns() if f.name.startswith(S) and f.file.endswith("sbuf/SBuf.cc") and "::(lambda)" not in f.name]
    ck.need(len(fns) >= 40, "C48: SBuf methods not found")

    ck.rule("S1 COW: in every SBuf method, a write through store_ (store_->mem[...] = , store_->size change, MemBlob::append/appended/consume/syncSize on store_) "
            "and every store through the pointer returned by rawSpace()/bufEnd() happens only after the method made the blob exclusively usable on all paths: "
            "a call of cow()/rawSpace()/reAlloc()/reserve*(), or an established store_->LockCount() == 1, or an established store_->canAppend(...)")
    exclusive = E.M(lambda t: E.strip(t).get("k") == "bin" and E.strip(t).get("op") == "==" and "Lock::LockCount" in " ".join(E.mentions(t)) and E.const(E.strip(t)["r"]) == 1, "store_->LockCount() == 1")
    appendable = E.M(lambda t: E.strip(t).get("k") == "call" and E.strip(t).get("f") == "MemBlob::canAppend", "store_->canAppend()")
    n_sites = 0
    for fn in fns:
        fl = None
        for b in fn.blocks.values():
            for ev in b["ev"]:
                kind = None
                if ev.get("e") == "asg" and through_store(ev.get("lhs")) and not (E.strip(ev["lhs"]).get("k") == "mem" and E.strip(ev["lhs"]).get("m") == "SBuf::store_"):
                    kind = "write %s" % E.key(ev["lhs"])
                elif ev.get("e") == "asg" and any(c.get("f") in (S + "rawSpace", S + "bufEnd", S + "buf") for c in E.calls_in(ev.get("lhs"))):
                    kind = "write through %s" % E.key(ev["lhs"])
                elif ev.get("e") == "call":
                    x = E.strip(ev["x"])
                    if x.get("f") in BLOB_MUTATORS and "o" in x and through_store(x["o"]):
                        kind = "call %s" % x["f"]
                if kind is None:
                    continue
                if fn.name in (S + "SBuf", S + "~SBuf"):
                    continue
                n_sites += 1
                fl = fl or ck.flow(fn, markers={"own": ev_call(OWN)})
                for s in fl.sites:
                    if s.ev is not ev:
                        continue
                    inline_own = ev.get("e") == "asg" and any(c.get("f") in OWN for c in E.calls_in(ev.get("lhs")))
                    if inline_own or s.passed("own") or s.has(exclusive, True) or s.had(appendable, True):
                        ck.ok("S1.cow-before-write", s.where(), "%s: %s only after taking exclusive use of the blob" % (fn.name, kind))
                    else:
                        ck.violation("S1.cow-before-write", "S1|%s|%s" % (fn.name, kind.split(" ")[0] + ":" + kind.split(" ")[-1][:40]), s.where(),
                                     "%s: '%s' can modify a MemBlob shared with other SBufs: no cow()/rawSpace()/reAlloc() call, LockCount()==1 or canAppend() "
                                     "test on some path to it" % (fn.name, kind), fl.witness(s))
    ck.need(n_sites >= 6, "C48: only %d store write sites recognised in SBuf.cc" % n_sites)

    ck.rule("S2 cow(): returns without reallocating only with store_->LockCount() == 1 established; otherwise reAlloc() is on every remaining path; "
            "reAlloc() installs a fresh MemBlob; rawSpace() returns bufEnd() only after canAppend() succeeded or cow() ran")
    cow = facts.fn(S + "cow")
    fl = ck.flow(cow, markers={"realloc": ev_call(S + "reAlloc")}, track_markers=["realloc"])
    for s in ck.sites(fl, lambda ev: ev.get("e") == "exit" and ev.get("kind") in ("ret", "fall"), "exit", 2):
        if s.passed("realloc") or s.has(exclusive, True):
            ck.ok("S2.cow-exits", s.where(), "cow() leaves either after reAlloc() or with the blob exclusively owned")
        else:
            ck.violation("S2.cow-exits", "S2|cow|exit-shared", s.where(), "cow() can return with a still-shared blob and no reallocation", fl.witness(s))
    ra = facts.fn(S + "reAlloc")
    news = [ev for b in ra.blocks.values() for ev in b["ev"] if ev.get("e") == "decl" and "MemBlob" in ev.get("t", "") and any(n.get("k") == "new" for n in E.walk(ev.get("init")))]
    assigns = [ev for b in ra.blocks.values() for ev in b["ev"] if ev.get("e") == "call" and E.strip(ev["x"]).get("f", "").endswith("operator=") and E.m_is_mem("store_")(E.strip(ev["x"]).get("o"))]
    if news and assigns and all(E.m_is_ref(news[0]["d"])(E.strip(a["x"])["a"][0]) for a in assigns):
        ck.ok("S2.realloc-fresh", ra.where(), "reAlloc() replaces store_ by a newly allocated MemBlob")
    else:
        ck.violation("S2.realloc-fresh", "S2|reAlloc|fresh-blob", ra.where(), "reAlloc() no longer installs a newly allocated MemBlob into store_")
    rs = facts.fn(S + "rawSpace")
    fl = ck.flow(rs, markers={"cow": ev_call(S + "cow")}, track_markers=["cow"])
    for s in ck.sites(fl, ev_return(), "return", 2):
        if s.passed("cow") or s.had(appendable, True):
            ck.ok("S2.rawSpace", s.where(), "rawSpace() hands out bufEnd() after canAppend() or cow()")
        else:
            ck.violation("S2.rawSpace", "S2|rawSpace|unowned-tail", s.where(), "rawSpace() can hand out a writable tail pointer without canAppend()/cow()", fl.witness(s))

    ck.rule("S2b ALIASING: every SBuf method that copies from a caller-supplied buffer (another SBuf's buf(), a char* or a format argument) and may reallocate/shift its own blob "
            "(lowAppend/rawSpace/assign paths) first pins the source with a Locker on that same source pointer, so self-append/self-assign keep reading valid bytes")
    pinned = {"SBuf::append": ("const SBuf &", "S"), "SBuf::assign": ("const char *", "S"), "SBuf::vappendf": ("const char *", None), "SBuf::Printf": ("const char *", None)}
    npinned = 0
    for fn in fns:
        if fn.name not in pinned:
            continue
        for sigfrag in (pinned[fn.name][0],):
            if sigfrag not in fn.sig:
                continue
            mut = lambda ev: ev.get("e") == "call" and E.strip(ev["x"]).get("f") in (S + "lowAppend", S + "rawSpace", S + "cow", S + "clear", S + "vappendf")
            lock = lambda ev: ev.get("e") == "decl" and "Locker" in ev.get("t", "")
            fl_ = ck.flow(fn, markers={"pin": lock})
            sites_ = fl_.find(mut)
            if not sites_:
                continue
            npinned += 1
            for s_ in sites_:
                if s_.passed("pin"):
                    ck.ok("S2b.source-pinned", s_.where(), "%s(%s): source buffer is pinned by a Locker before '%s'" % (fn.name, fn.sig[:30], s_.desc()[:40]))
                else:
                    ck.violation("S2b.source-pinned", "S2b|%s|%s|unpinned" % (fn.name, fn.sig.split(",")[0].replace(" ", "")), s_.where(),
                                 "%s(%s) can shift/reallocate its blob ('%s') without a Locker on the source: appending an SBuf to itself (or a view of itself) reads moved/freed bytes"
                                 % (fn.name, fn.sig[:40], s_.desc()[:40]), fl_.witness(s_))
            # the Locker must pin the parameter's buffer (or our own buffer for format-string methods)
            for b_ in fn.blocks.values():
                for ev in b_["ev"]:
                    if lock(ev):
                        m_ = E.mentions(ev.get("init"))
                        want = pinned[fn.name][1]
                        if want is None or want in m_:
                            ck.ok("S2b.source-pinned", fn.where(ev["l"]), "Locker(this, %s)" % E.key(E.strip(ev["init"])["a"][-1])[:30])
                        else:
                            ck.violation("S2b.source-pinned", "S2b|%s|locker-arg" % fn.name, fn.where(ev["l"]), "the Locker in %s pins %s, not the source parameter" % (fn.name, E.key(ev.get("init"))[:60]))
    ck.need(npinned >= 4, "C48: only %d source-copying SBuf methods recognised" % npinned)

    ck.rule("S2c operator==: `return true` without comparing bytes only for the same blob AND the same offset AND equal lengths; otherwise the verdict is memcmp(buf(), S.buf(), length()) == 0")
    eq = facts.fn(S + "operator==")
    fle = ck.flow(eq)
    for s_ in ck.sites(fle, ev_return(), "return", 2):
        x_ = s_.ev.get("x")
        c_ = E.const(x_)
        if c_ == 1:
            same_store = s_.has(E.M(lambda t: E.strip(t).get("op") == "==" and sum(1 for n in E.walk(t) if n.get("k") == "mem" and n.get("m") == "SBuf::store_") == 2, "store_ == S.store_"), True)
            same_off = s_.has(E.M(lambda t: E.strip(t).get("op") == "==" and sum(1 for n in E.walk(t) if n.get("k") == "mem" and n.get("m") == "SBuf::off_") == 2, "off_ == S.off_"), True)
            same_len = s_.has(E.M(lambda t: E.strip(t).get("op") == "==" and sum(1 for n in E.walk(t) if n.get("k") == "call" and n.get("f") == "SBuf::length") == 2, "length() == S.length()"), True)
            if same_store and same_off and same_len:
                ck.ok("S2c.equality-fast-path", s_.where(), "fast `true` only for identical blob, offset and length")
            else:
                ck.violation("S2c.equality-fast-path", "S2c|operator==|fast-true", s_.where(),
                             "operator== returns true without comparing bytes although blob/offset/length identity is not all established (store %s, offset %s, length %s): "
                             "two different equal-length views of one blob compare equal" % (same_store, same_off, same_len))
        elif c_ is None:
            d_ = ck.local_defs(eq).get(E.strip(x_).get("d"), [x_]) if E.strip(x_).get("k") == "ref" else [x_]
            if all("memcmp" in E.mentions(t) for t in d_):
                ck.ok("S2c.equality-slow-path", s_.where(), "otherwise the verdict is the memcmp() result")
            else:
                ck.violation("S2c.equality-slow-path", "S2c|operator==|verdict", s_.where(), "operator== returns %s, not a memcmp() verdict" % E.key(x_))

    ck.rule("S3 MemBlob::append/appended modify the blob only past Must(willFit(n)); syncSize only with LockCount() <= 1")
    for name, guard in (("MemBlob::append", "MemBlob::willFit"), ("MemBlob::appended", "MemBlob::willFit")):
        fn = facts.fn(name)
        fl = ck.flow(fn)
        wr = lambda ev: ev.get("e") == "asg" and E.m_is_mem("size")(ev.get("lhs"))
        ck.require_fact("S3.blob-bounds", fl, wr, E.m_calls(guard), True, "size += n", why="(append past the blob capacity)")
    sy = facts.fn("MemBlob::syncSize")
    fl = ck.flow(sy)
    ck.require_fact("S3.blob-bounds", fl, lambda ev: ev.get("e") == "asg" and E.m_is_mem("size")(ev.get("lhs")),
                    E.M(lambda t: E.strip(t).get("k") == "bin" and E.strip(t).get("op") == "<" and E.const(E.strip(t)["l"]) == 1 and "Lock::LockCount" in " ".join(E.mentions(t)), "(1 < LockCount())"), False, "size = n")
    ck.assume("equivalence with std::string over operation histories is not decided; only the copy-on-write discipline of the SBuf/MemBlob implementation files")
