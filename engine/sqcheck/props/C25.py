"""C25 Header blocks are parsed into exactly their fields: rejection gates of HttpHeader::parse / HttpHeaderEntry::parse and the pack order (DESIGN.md 5/C25)."""
from .. import expr as E
from ..flow import ev_call, ev_return, ev_assign, ev_any
from .C21 import require_any

HE = "HttpHeaderEntry::"
local = E.M(lambda t: E.strip(t).get("k") == "ref" and E.strip(t).get("dk") == "local", "local")


def is_null_ret(ev):
    return ev.get("e") == "ret" and (E.strip(ev.get("x") or {}).get("k") == "null" or E.const(ev.get("x")) == 0)


def nonnull_ret(ev):
    return ev.get("e") == "ret" and not is_null_ret(ev)


def one(ck, what, names):
    names = sorted(set(names))
    ck.need(len(names) == 1, "C25: could not identify %s (candidates: %s)" % (what, names))
    return names[0]


def args_are(ck, rule, s, want, what):
    a = [E.key(x) for x in E.strip(s.ev["x"]).get("a", [])]
    if a == want:
        ck.ok(rule, s.where(), "%s(%s)" % (what, ", ".join(a)))
    else:
        ck.violation(rule, "%s|%s" % (rule, what), s.where(), "%s is called with (%s), expected (%s)" % (what, ", ".join(a), ", ".join(want)))


def single_cr_drop(ck, facts, rule="F1b.only-one-cr-dropped"):
    """in HttpHeader::parse's line loop the line end found at the LF is moved back at most once (the CR of CRLF): every further CR stays in the line, so the
    bare-CR / CR-only-line / obs-fold guards below still see it"""
    hp = [f for f in facts.fns("HttpHeader::parse") if "ContentLengthInterpreter" in f.sig and "bool" not in f.sig]
    ck.need(len(hp) == 1, "%s: HttpHeader::parse(const char*, size_t, ContentLengthInterpreter&) not found" % ck.pid)
    hp = hp[0]
    # the line-end local: assigned from the result of memchr(.., '\n', ..) and decremented afterwards
    decs = [ev for b in hp.blocks.values() for ev in b["ev"] if ev.get("e") == "asg" and ev.get("op") in ("--", "-=") and E.strip(ev["lhs"]).get("dk") == "local"]
    ends = sorted({E.strip(ev["lhs"])["d"] for ev in decs})
    ck.need(len(ends) == 1, "%s: expected exactly one decremented line-end local in HttpHeader::parse, found %s" % (ck.pid, ends))
    end = ends[0]

    def count(ev, env, fs):
        if ev.get("e") == "asg" and E.m_is_ref(end)(ev.get("lhs")):
            if ev.get("op") in ("--", "-="):
                env["$dec"] = min(2, env.get("$dec", 0) + 1)
            else:
                env["$dec"] = 0
    fl = ck.flow(hp, on_event=count)
    sites = [st for st in fl.sites if st.ev.get("e") == "asg" and E.m_is_ref(end)(st.ev.get("lhs")) and st.ev.get("op") in ("--", "-=")]
    ck.need(sites, "%s: HttpHeader::parse no longer drops the CR of a CRLF line end" % ck.pid)
    for st in sites:
        if st.env.get("$dec", 0) == 0:
            ck.ok(rule, st.where(), "the line end is moved back once per line (only the CR of CRLF)")
        else:
            ck.violation(rule, "%s|HttpHeader::parse|line-end-moved-back-repeatedly" % rule.split(".")[0], st.where(),
                         "HttpHeader::parse can move `%s` back more than once for one line: several CRs before the LF are dropped silently, so `Content-Length: 5\\r\\r\\n` "
                         "bypasses the bare-CR / CR-only-line rejections that follow" % end, fl.witness(st))
        if st.ev.get("op") == "-=" and E.const(st.ev.get("rhs")) != 1:
            ck.violation(rule, "%s|HttpHeader::parse|line-end-step" % rule.split(".")[0], st.where(), "the line end is moved back by %s" % E.key(st.ev.get("rhs")))


def run(ck):
    facts = ck.facts(["src/HttpHeader.cc"], whole=False)
    hdr = facts.enum("Http::HdrType")
    CL, TE = hdr["CONTENT_LENGTH"], hdr["TRANSFER_ENCODING"]

    # ------------------------------------------------------------------ HttpHeader::parse (field loop)
    parse = [f for f in facts.fns("HttpHeader::parse") if f.sig.startswith("const char *, size_t, Http::ContentLengthInterpreter")]
    ck.need(len(parse) == 1, "C25: HttpHeader::parse(const char*, size_t, ContentLengthInterpreter&) not found")
    parse = parse[0]
    defs = ck.local_defs(parse)
    add, ok_ret = ev_call("HttpHeader::addEntry"), ev_return(E.m_const(1))
    ck.rule("F1 HttpHeader::parse: addEntry/`return 1` only with memchr(<block>, 0, <len>) null; after a missing LF, a CR-only request line, a blank continuation line "
            "or a null HttpHeaderEntry::parse() result every path returns 0 before any addEntry; a folded or bare-CR field reaches addEntry only if it is neither "
            "Content-Length nor Transfer-Encoding; HttpHeaderEntry::parse gets (start of the first line, end of the last line, owner) and addEntry its result")
    fl = ck.flow(parse)
    nul = E.m_calls("memchr") & E.M(lambda t: E.const(E.strip(t)["a"][1]) == 0 and E.strip(E.strip(t)["a"][0]).get("dk") == "param", "(param, 0, ..)")
    nul_local = [n for n, ds in defs.items() if any(nul(d) for d in ds)]
    nul_fact = nul | (local & E.M(lambda t: E.strip(t)["d"] in nul_local, "defined by memchr(.., 0, ..)")) | (E.M(lambda t: E.strip(t).get("k") == "bin" and E.strip(t).get("op") == "=" and nul(E.strip(t)["r"]), "= memchr(.., 0, ..)"))
    ck.require_fact("F1.nul-rejected", fl, ev_any(add, ok_ret), nul_fact, False, "addEntry|return 1", min_sites=2, why="(a header block with NUL bytes would be accepted)")
    scan = one(ck, "the LF scan pointer", [n for n, ds in defs.items() if any(E.m_calls("memchr")(d) and E.const(E.strip(d)["a"][1]) == 10 for d in ds)])
    entry = ck.m_result_of(parse, HE + "parse")
    decremented = {E.strip(ev["lhs"]).get("d") for bl in parse.blocks.values() for ev in bl["ev"] if ev.get("e") == "asg" and ev.get("op") in ("--", "p--", "-=")}
    from_scan = [n for n, ds in defs.items() if len(ds) == 1 and E.m_is_ref(scan)(ds[0])]
    first, last = [n for n in from_scan if n not in decremented], [n for n in from_scan if n in decremented]      # line/field starts; field end (CR stripped by --)
    in_first = E.M(lambda t: E.strip(t).get("d") in first and E.strip(t).get("dk") == "local", "line/field start")
    blank = E.m_cmp("<", in_first, in_first)      # `this_line + 1 == field_end && this_line > field_start`: the second operand is only evaluated for a blank line
    for m, v, what, kinds in ((E.m_is_ref(scan), False, "missing LF", None), (E.m_is_ref("cr_only"), True, "CR-only request line", ("IfStmt", "BinaryOperator", "WhileStmt", "DoStmt")),
                              (blank, True, "blank continuation line", None), (entry, False, "unparsable field", None)):
        ck.require_response("F1.malformed-line-rejected", parse, m, v, ev_return(E.m_const(0)), "return 0", until=add, term_kinds=kinds, why="(%s would be accepted)" % what)
    folded = E.m_cmp("<", E.m_const(1), local)
    framing = local & ck.m_closure(parse, HE + "id")
    bare = [n for n, ds in defs.items() if any(E.strip(d).get("k") == "str" for d in ds)]
    ck.need(len(bare) == 1, "C25: bare-CR flag not identified (%s)" % bare)
    for cond, what in ((folded, "folded"), (E.m_is_ref(bare[0]), "bare-CR")):
        require_any(ck, "F1.obs-fold-framing", parse, add, [(cond, False), (framing, False)], "addEntry()",
                    why="(a %s Content-Length or Transfer-Encoding field would be accepted)" % what)
    consts = {E.const(n.get("r")) for ds in defs.values() for t in ds for n in E.walk(t) if n.get("k") == "bin" and n.get("op") == "==" and HE + "id" in E.mentions(n)}
    if {CL, TE} <= consts:
        ck.ok("F1.obs-fold-framing", parse.where(), "the framing flag covers CONTENT_LENGTH and TRANSFER_ENCODING")
    else:
        ck.violation("F1.obs-fold-framing", "F1|framingHeader-def", parse.where(), "the framing flag no longer covers both CONTENT_LENGTH and TRANSFER_ENCODING (covers ids %s)" % sorted(c for c in consts if c is not None))
    for s in ck.sites(fl, ev_call(HE + "parse"), "HttpHeaderEntry::parse()", 1):
        a = E.strip(s.ev["x"])["a"]
        if E.strip(a[0]).get("d") in first and E.strip(a[1]).get("d") in last and len(last) == 1 and E.m_is_mem("HttpHeader::owner")(a[2]):
            ck.ok("F1.entry-span", s.where(), "HttpHeaderEntry::parse(%s)" % ", ".join(E.key(x) for x in a))
        else:
            ck.violation("F1.entry-span", "F1.entry-span|HttpHeader::parse", s.where(), "entries are parsed from (%s), not (<field start>, <field end>, owner)" % ", ".join(E.key(x) for x in a))
    for s in ck.sites(fl, add, "addEntry()", 1):
        if entry(E.strip(s.ev["x"])["a"][0]):
            ck.ok("F1.entry-span", s.where(), "addEntry(<result of HttpHeaderEntry::parse>)")
        else:
            ck.violation("F1.entry-span", "F1.entry-span|addEntry", s.where(), "addEntry is given %s, not the entry parsed in this iteration" % E.key(E.strip(s.ev["x"])["a"][0]))

    # ------------------------------------------------------------------ HttpHeaderEntry::parse
    ep = facts.fn(HE + "parse")
    ck.rule("F1b HttpHeader::parse drops exactly one CR in front of the LF that ends a line (per line the line-end local is moved back at most once and by one); "
            "any other CR stays visible to the bare-CR, CR-only-line and folded Content-Length/Transfer-Encoding guards")
    single_cr_drop(ck, facts)
    ck.rule("F2 HttpHeaderEntry::parse: after an empty name / colon beyond the field / name or value longer than 65534 / whitespace before the colon in a request / "
            "whitespace that may not be stripped / a non-TCHAR name byte every path returns nullptr; a non-null return needs a non-empty name and no whitespace before the "
            "colon or a non-request owner; trimming moves the value bounds only under start < end on whitespace; the value is assign(start, end - start), the name "
            "append(field_start, name_len) or the registered name, and the entry is built from them")
    d2 = ck.local_defs(ep)
    p_start, p_end = ep.params[0]["d"], ep.params[1]["d"]
    colon = one(ck, "the colon pointer", [n for n, ds in d2.items() if any(E.m_calls("memchr")(d) and E.const(E.strip(d)["a"][1]) == 58 for d in ds)])
    nlen = one(ck, "the name length", [n for n, ds in d2.items() if any(colon in E.mentions(d) for d in ds)])
    vstart = one(ck, "the value start", [n for n, ds in d2.items() if any(nlen in E.mentions(d) and p_start in E.mentions(d) and not E.calls_in(d) for d in ds)])
    name_len, v_start, f_end = E.m_is_ref(nlen), E.m_is_ref(vstart), E.m_is_ref(p_end)
    ws_before_colon = E.m_calls("isspace") & E.m_mentions(nlen)
    is_request = E.m_cmp("==", E.m_is_ref(ep.params[2]["d"]), E.m_is_ref("hoRequest"))
    too_long = lambda what: E.m_cmp("<", E.m_const(65534), what)
    may_strip = local & ck.m_closure(ep, "hoReply")
    gates = [(name_len, False, "empty field name", 2), (E.m_cmp("<", f_end, E.m_is_ref(colon)), True, "colon outside the field", 1),
             (too_long(name_len), True, "huge name", 1), (too_long(E.m_mentions(p_end, vstart)), True, "huge value", 1),
             (is_request, True, "whitespace before colon in a request", 1), (may_strip, False, "whitespace that may not be stripped", 1),
             (E.m_calls("CharacterSet::operator[]") & E.m_mentions("CharacterSet::TCHAR"), False, "non-token byte in the name", 1)]
    built = lambda ev: ev.get("e") == "call" and E.strip(ev.get("x") or {}).get("k") == "new"
    for m, v, what, n in gates:
        ck.require_response("F2.rejections", ep, m, v, is_null_ret, "return nullptr", min_edges=n, until=ev_any(nonnull_ret, built), why="(%s would be accepted)" % what)
    fl = ck.flow(ep)
    require_any(ck, "F2.no-ws-before-colon-in-requests", ep, nonnull_ret, [(ws_before_colon, False), (is_request, False)], "return new HttpHeaderEntry",
                why="(a request field with whitespace before the colon would be accepted)")
    ck.require_fact("F2.name-not-empty", fl, nonnull_ret, name_len, True, "return new HttpHeaderEntry")
    walkers = [n for n, ds in d2.items() if len(ds) == 1 and E.m_is_ref(p_start)(ds[0])]      # loop variable starting at field_start
    tchar_loop = E.m_cmp("<", E.M(lambda t: E.strip(t).get("d") in walkers, "byte pointer from field_start"),
                         E.M(lambda t: E.key(t) in ("(%s + %s)" % (p_start, nlen), "(%s + %s)" % (nlen, p_start)), "field_start + name_len"))
    ck.require_fact("F2.whole-name-is-token", fl, nonnull_ret, tchar_loop, False, "return new HttpHeaderEntry", why="(some name bytes would go unchecked)")
    moves = ev_any(ev_assign(vstart, None, ops=("++", "+=", "p++")), ev_assign(p_end, None, ops=("--", "-=", "p--")))
    ck.require_fact("F2.trim-bounded", fl, moves, E.m_cmp("<", v_start, f_end), True, "++start|--end", min_sites=2, why="(trimming could run past the other end of the value)")
    ck.require_fact("F2.trim-bounded", fl, moves, E.m_calls("isspace"), True, "++start|--end", min_sites=2, why="(non-whitespace bytes of the value would be dropped)")
    vs = ck.sites(fl, ev_call("String::assign"), "value.assign()", 1)
    ns = ck.sites(fl, ev_call("SBuf::append"), "theName.append()", 1)
    for s in vs:
        args_are(ck, "F2.stored-span", s, [vstart, "(%s - %s)" % (p_end, vstart)], "String::assign")
    for s in ns:
        args_are(ck, "F2.stored-span", s, [p_start, nlen], "SBuf::append")
    vobj = {E.key(E.strip(s.ev["x"]).get("o")) for s in vs}
    nobj = {E.key(E.strip(s.ev["x"]).get("o")) for s in ns}
    for s in ck.sites(fl, nonnull_ret, "return new HttpHeaderEntry", 1):
        x = E.strip(s.ev["x"])
        a = [E.key(t) for t in x.get("a", [])]
        if x.get("k") == "new" and len(a) == 3 and a[1] in nobj and a[2] in {v + ".termedBuf()" for v in vobj}:
            ck.ok("F2.stored-span", s.where(), "new HttpHeaderEntry(%s)" % ", ".join(a))
        else:
            ck.violation("F2.stored-span", "F2.stored-span|ctor", s.where(), "the entry is built from (%s), not (id, <name buffer>, <trimmed value>.termedBuf())" % ", ".join(a))

    # ------------------------------------------------------------------ packing
    ck.rule("F3 SIBLING HttpHeaderEntry::packInto emits exactly name, \": \", value, CRLF in this order with matching lengths; HttpHeader::packInto emits every entry "
            "returned by getEntry(&pos) through it (or the masked form)")
    pk = facts.fn(HE + "packInto")
    shape = []
    for s in sorted(ck.flow(pk).find(ev_call("Packable::append")), key=lambda s: (s.line, s.idx)):
        a = E.strip(s.ev["x"])["a"]
        s0 = E.strip(a[0])
        shape.append((s0["v"], E.const(a[1])) if s0.get("k") == "str" else (E.key(s0), E.key(a[1])))
    want = [("name.rawContent()", "name.length()"), (": ", 2), ("value.rawBuf()", "value.size()"), ("\r\n", 2)]
    if shape == want:
        ck.ok("F3.pack-order", pk.where(), "append sequence %s" % shape)
    else:
        ck.violation("F3.pack-order", "F3.pack-order|HttpHeaderEntry::packInto", pk.where(), "packInto appends %s, expected %s" % (shape, want))
    hp = facts.fn("HttpHeader::packInto")
    got = ck.m_result_of(hp, "HttpHeader::getEntry")
    for s in ck.sites(ck.flow(hp), ev_call(HE + "packInto"), "e->packInto(p)", 2):
        o = E.strip(E.strip(s.ev["x"]).get("o"))
        if s.has(got, True) and got(o):
            ck.ok("F3.pack-all", s.where(), "the entry returned by getEntry(&pos) is packed")
        else:
            ck.violation("F3.pack-all", "F3.pack-all|object", s.where(), "packInto is called on %s, not on a non-null getEntry() result" % E.key(o))
    ck.require_response("F3.pack-all", hp, got, True, ev_any(ev_call(HE + "packInto"), ev_call("Packable::append")), "packInto|masked append",
                        why="(a stored field would be missing from the packed block)")
    ck.assume("parse(pack(x)) == x over all blocks is not decided; the TCHAR set, HeaderLookupTable and String/SBuf primitives are taken as given; Content-Length values are C26")
